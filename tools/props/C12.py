"""C12 - HashMap behaves as a map keyed by value equality.

Theorems (coq/props/C12.v over ValueEq.v / HashMapModel.v / HashMapProofs.v / RangeCacheModel.v): the bucket
mechanism of std::HashMap driven by Value's hash and == (M) refines an association list under == (S) for EVERY
operation sequence, because == values hash equally (coherent_hashable: all values, needs hash_number to normalise
-0); enumeration is a permutation of S's entries without == duplicates; unhashable keys are rejected and leave
the map unchanged; NaN keys always add an entry and never hit.
Tie: (a) translator (translate_c12.py): arms of has_hash / Hash / PartialEq, tuple hash fold, key-check message and
whether hash_number normalises -0, regenerated from the source and compared with the tables ValueEq.v hard-wires;
(b) value level impl == M: harness `c12vals` builds values (numbers by bit pattern, strings, nested tuples, classes,
ranges through the range cache, vectors/maps) and reports Hash::hash, has_hash (through `{x: 1}`) and the == matrix,
compared with vhash / has_hash / veq evaluated by coqc; (c) property level impl == S: generated yarel programs
(literal, insert, remove, get, has_key, clear, len, keys/values/items as multisets) against the association list
evaluated by coqc on the same operation sequence."""
import json
import math
import os
import struct

import yvlib
from yvlib import hx, log

LEVEL = "proof"
TRUSTED = [
    "Coq 8.16.1 kernel (coqc), vm_compute; no native_compute, no extraction",
    "translator/translate_c12.py + rustlex.py (token-level reading of value.rs, object.rs, memory.rs, utils.rs, core.rs, vm.rs)",
    "harness `yv` (Rust: c12vals, run), tools/*.py (Python); yarel's print()/Display to observe results",
    "modelled, not verified: std::HashMap finds a key among the stored keys with the SAME hash by `==` (its documented "
    "contract); u64 arithmetic as Z mod 2^64; Num.v (hash_number, f64) and RangeCache.v (owners C19/C16)",
]
ASSUMPTIONS = [
    "strings are interned (C11): address equality of ObjString = byte equality",
    "the range cache evicts first-in first-out (Instant stamps strictly increase between two misses)",
    "a NaN's hash is not modelled bit-exactly (all NaNs are one value in Num.v); irrelevant: NaN equals nothing",
]

OFF40 = 1 << 40
ERR_PREFIX = "Cannot use unhashable value '"
ERR_SUFFIX = "' as HashMap key."

# ------------------------------------------------------------------------------------------------------------
# numbers


def bits_of(x):
    return struct.unpack("<Q", struct.pack("<d", x))[0]


def float_of(bits):
    return struct.unpack("<d", struct.pack("<Q", bits))[0]


def num_display(bits):
    x = float_of(bits)
    if math.isnan(x):
        return "NaN"
    if math.isinf(x):
        return "inf" if x > 0 else "-inf"
    if x == 0:
        return "-0" if bits >> 63 else "0"
    if x == int(x) and abs(x) < 1e17:
        return str(int(x))
    return repr(x)


NAN_BITS = 0x7FF8000000000000
INF = float("inf")

# ------------------------------------------------------------------------------------------------------------
# key expressions (JSON-able lists):
#   ["nil"] ["bool", b] ["num", src, bits] ["str", src, hex] ["cls", name] ["rng", b, e] ["tup", [k..]]
#   ["unh", src, display|None] ["ref", i]   (i-th declared variable kI)


def k_src(k):
    t = k[0]
    if t == "nil":
        return "nil"
    if t == "bool":
        return "true" if k[1] else "false"
    if t in ("num", "str", "unh"):
        return k[1]
    if t == "cls":
        return k[1]
    if t == "rng":
        return "%d..%d" % (k[1], k[2])
    if t == "tup":
        if len(k[1]) == 1:
            return "(%s,)" % k_arg(k[1][0])
        return "(%s)" % ", ".join(k_arg(e) for e in k[1])
    if t == "ref":
        return "k%d" % k[1]
    raise ValueError(k)


def k_arg(k):
    """source usable as an argument / tuple element / literal key: compound expressions are parenthesised"""
    s = k_src(k)
    if k[0] in ("nil", "bool", "cls", "ref", "tup") or (k[0] in ("num", "str") and " " not in s and not s.startswith("-")):
        return s
    return "(%s)" % s


class WireState:
    def __init__(self):
        self.tag = 0
        self.cls = {}

    def cls_id(self, name):
        return self.cls.setdefault(name, len(self.cls) + 1)


def k_wire(k, ws):
    t = k[0]
    if t == "nil":
        return [0]
    if t == "bool":
        return [2 if k[1] else 1]
    if t == "num":
        b = k[2]
        return [3, NAN_BITS if math.isnan(float_of(b)) else b]
    if t == "str":
        bs = yvlib.unhx(k[2])
        return [4, len(bs)] + list(bs)
    if t == "cls":
        bs = k[1].encode()
        return [5, ws.cls_id(k[1]), len(bs)] + list(bs)
    if t == "rng":
        return [6, k[1] + OFF40, k[2] + OFF40]
    if t == "tup":
        r = [7, len(k[1])]
        for e in k[1]:
            r += k_wire(e, ws)
        return r
    if t == "unh":
        ws.tag += 1
        return [8, ws.tag]
    if t == "ref":
        return [9, k[1]]
    raise ValueError(k)


def k_hashable(k, decls):
    t = k[0]
    if t == "unh":
        return False
    if t == "tup":
        return all(k_hashable(e, decls) for e in k[1])
    if t == "ref":
        return k_hashable(decls[k[1]], decls)
    return True


def k_first_unhashable_display(k, decls):
    """display of the key as the error message shows it (None where it holds an address)"""
    t = k[0]
    if t == "nil":
        return "nil"
    if t == "bool":
        return "true" if k[1] else "false"
    if t == "num":
        return num_display(k[2])
    if t == "str":
        return yvlib.unhx(k[2]).decode()
    if t == "cls":
        return "<class %s>" % k[1]
    if t == "rng":
        return "Range(%d, %d)" % (k[1], k[2])
    if t == "unh":
        return k[2]
    if t == "ref":
        return k_first_unhashable_display(decls[k[1]], decls)
    if t == "tup":
        ds = [k_first_unhashable_display(e, decls) for e in k[1]]
        if any(d is None for d in ds):
            return None
        return "(%s,)" % ds[0] if len(ds) == 1 else "(%s)" % ", ".join(ds)
    raise ValueError(k)


def ser_to_disp(s):
    """display (as yarel prints it) of a key in the model's serialisation (HashMapRun.show_kv)"""
    pos = [0]

    def item():
        c = s[pos[0]]
        pos[0] += 1
        if c == "z":
            return "nil"
        if c == "t":
            return "true"
        if c == "f":
            return "false"
        st = pos[0]
        if c == "n":
            while pos[0] < len(s) and s[pos[0]].isdigit():
                pos[0] += 1
            return num_display(int(s[st:pos[0]]))
        if c in "sc":
            while pos[0] < len(s) and s[pos[0]] in "0123456789abcdef":
                pos[0] += 1
            text = bytes.fromhex(s[st:pos[0]]).decode()
            return text if c == "s" else "<class %s>" % text
        if c == "r":
            while pos[0] < len(s) and (s[pos[0]].isdigit() or s[pos[0]] in "-_"):
                pos[0] += 1
            b, e = s[st:pos[0]].split("_")
            return "Range(%s, %s)" % (b, e)
        if c == "(":
            elems = []
            if s[pos[0]] == ")":
                pos[0] += 1
                return "()"
            while True:
                elems.append(item())
                d = s[pos[0]]
                pos[0] += 1
                if d == ")":
                    break
            return "(%s,)" % elems[0] if len(elems) == 1 else "(%s)" % ", ".join(elems)
        if c == "u":
            while pos[0] < len(s) and s[pos[0]].isdigit():
                pos[0] += 1
            return None
        raise ValueError(s)
    return item()


def split_top(s, sep=";"):
    out, depth, cur = [], 0, ""
    for c in s:
        if c == "(":
            depth += 1
        elif c == ")":
            depth -= 1
        if c == sep and depth == 0:
            out.append(cur)
            cur = ""
        else:
            cur += c
    if cur or out:
        out.append(cur)
    return out


# map values: an int (0 = nil, n = the number n) | ["sv", id, src, display] (a value with its own printed form, e.g. -0)
# | ["w", i] (the container held by variable wI, declared by ['vdecl', i, src, display] and changed by
# ['vmut', i, call, display]: what an entry holds is the OBJECT, so its printed form follows later mutations)
W_BASE = 500000
NONOPS = ("decl", "vdecl", "vmut")


def v_id(v):
    if isinstance(v, int):
        return v
    return v[1] if v[0] == "sv" else W_BASE + v[1]


def v_src(v):
    if isinstance(v, int):
        return "nil" if v == 0 else str(v)
    return v[2] if v[0] == "sv" else "w%d" % v[1]


def value_tables(prog):
    """printed form of every non-plain value id at the time of each statement"""
    static = {}
    for s in prog["stmts"]:
        vs = [s[2]] if s[0] == "ins" else [v for _, v in s[1]] if s[0] in ("lit", "flit") else []
        for v in vs:
            if not isinstance(v, int) and v[0] == "sv":
                static[v[1]] = v[3]
    cur = dict(static)
    tabs = {}
    for i, s in enumerate(prog["stmts"]):
        if s[0] in ("vdecl", "vmut"):
            cur[W_BASE + s[1]] = s[3]
        else:
            tabs[i] = dict(cur)
    return tabs


def val_disp(v, vtab=None):
    """v0 / - = nil, vN = the number N unless N names a special value or a container"""
    if v in ("-", "v0"):
        return "nil"
    return (vtab or {}).get(int(v[1:]), v[1:])


# ------------------------------------------------------------------------------------------------------------
# key pool: groups of equal-but-differently-built keys

def N(src, x):
    return ["num", src, bits_of(x)]


def S(src, text):
    return ["str", src, hx(text)]


NUM_GROUPS = {
    "zero": [N("0", 0.0), N("-0", -0.0), N("0 * -1", -0.0), N("0.0", 0.0), N("1 - 1", 0.0), N("-0.0", -0.0)],
    "one": [N("1", 1.0), N("1.0", 1.0), N("2 - 1", 1.0), N("3 / 3", 1.0)],
    "two": [N("2", 2.0), N("1 + 1", 2.0)],
    "three": [N("3", 3.0)],
    "half": [N("0.5", 0.5), N("1 / 2", 0.5)],
    "neg1": [N("-1", -1.0), N("0 - 1", -1.0)],
    "big": [N("9007199254740992", 2.0 ** 53), N("9007199254740993", 2.0 ** 53), N("9007199254740991 + 1", 2.0 ** 53)],
    "bigm1": [N("9007199254740991", 2.0 ** 53 - 1)],
    "inf": [N("1 / 0", INF), N("2 / 0", INF)],
    "ninf": [N("-1 / 0", -INF)],
    "nan": [["num", "0 / 0", NAN_BITS], ["num", "-(0 / 0)", NAN_BITS]],
    "p3sum": [N("0.1 + 0.2", 0.1 + 0.2)],
    "p3": [N("0.3", 0.3)],
}
STR_GROUPS = {
    "s_ab": [S('"ab"', "ab"), S('"a" + "b"', "ab"), S('"${"a"}b"', "ab")],
    "s_empty": [S('""', ""), S('"" + ""', "")],
    "s_1": [S('"1"', "1"), S('"${1}"', "1")],
    "s_nil": [S('"nil"', "nil")],
    "s_e": [S('"é"', "é"), S('"${"é"}"', "é")],
}
ATOM_GROUPS = {"nil": [["nil"]], "true": [["bool", True]], "false": [["bool", False]],
               "Vec": [["cls", "Vec"]], "String": [["cls", "String"]], "A": [["cls", "A"]], "B": [["cls", "B"]]}
RANGES = [(0, 3), (1, 2), (0, 0), (3, 0), (2, 5), (0, 1), (5, 9), (7, 8), (10, 20), (4, 4), (6, 2), (11, 12)]
UNHASHABLE = [["unh", "[1]", "[1]"], ["unh", "[]", "[]"], ["unh", "{}", "{}"], ["unh", "{1: 2}", "{1: 2}"],
              ["unh", "A.new()", None], ["unh", "|x| x", None], ["unh", "print", "<built-in fn print>"],
              ["tup", [N("1", 1.0), ["unh", "[2]", "[2]"]]], ["tup", [["tup", [N("1", 1.0), ["unh", "[2]", "[2]"]]], N("3", 3.0)]],
              ["tup", [["unh", "{}", "{}"]]]]
# unhashable keys that ALIAS the receiving map `m` (or themselves): formatting the ValueError message walks into the
# map while the native is running -- the rejection must still be a catchable ValueError that leaves the map unchanged.
# `sv` is a vector that contains itself (prelude).  HashMap has no `[]` / `[]=` (GetItem/SetItem handle strings,
# tuples and vectors only), so the natives and the literal are all the entry points there are.
ALIAS = [["unh", "m", None], ["unh", "[m]", None], ["unh", "[[m]]", None], ["unh", "[[[m]]]", None],
         ["tup", [["unh", "m", None]]], ["tup", [N("1", 1.0), ["unh", "[m]", None]]],
         ["tup", [["tup", [["unh", "[m]", None]]], N("2", 2.0)]], ["tup", [["tup", [["tup", [["unh", "m", None]]]]]]],
         ["unh", "{1: m}", None], ["unh", "{1: [m]}", None], ["unh", "sv", "[[...]]"], ["tup", [["unh", "sv", "[[...]]"], ["unh", "m", None]]]]
# tuples: element groups (names of the groups above, or nested lists)
TUPLE_SHAPES = [["one", "s_ab"], ["zero"], [], ["one", "one"], ["two", "two"], ["one", "two"], ["two", "one"],
                [["one", "two"], "three"], ["nil", "true"], ["nan"], ["Vec"], [["zero"], "nil"], ["s_empty", "false"],
                ["big", ["half"]], ["rng03"], [[]]]
PRELUDE = "#[constructor(new)] class A {}\n#[constructor(new)] class B {}\nvar sv = []; sv.push(sv);\n"


def gen_from_group(rng, g):
    if isinstance(g, list):
        return ["tup", [gen_from_group(rng, e) for e in g]]
    if g == "rng03":
        return ["rng", 0, 3]
    for d in (NUM_GROUPS, STR_GROUPS, ATOM_GROUPS):
        if g in d:
            return rng.choice(d[g])
    raise ValueError(g)


ALL_GROUPS = list(NUM_GROUPS) + list(STR_GROUPS) + list(ATOM_GROUPS)


def gen_program(rng, maxops):
    """{'decls': n, 'stmts': [...]}; statements: ['decl', key] | ['ins', key, v] | ['get'|'has'|'rem', key] |
    ['clr'] ['len'] ['keys'] ['vals'] ['items'] | ['lit', [[key, v]..]]"""
    style = rng.choice(["mixed", "mixed", "mixed", "numeric", "tuples", "ranges", "collide", "churn", "alias", "values"])
    if style == "numeric":
        groups = rng.sample(list(NUM_GROUPS), rng.randint(3, 6)) + ["false", "nil"]
    elif style == "tuples":
        groups = [rng.choice(TUPLE_SHAPES) for _ in range(rng.randint(3, 7))] + ["one", "s_ab"]
    elif style == "collide":
        # keys whose hashes collide: false / 0 / -0 (hash 0), () (1,1) (2,2) (hash = seed), (1,2) (2,1)
        groups = ["zero", "false", [], ["one", "one"], ["two", "two"], ["one", "two"], ["two", "one"], "nil", "two"]
    elif style == "churn":
        groups = rng.sample(ALL_GROUPS, 3) + [rng.choice(TUPLE_SHAPES)]
    else:
        groups = rng.sample(ALL_GROUPS, rng.randint(3, 7)) + [rng.choice(TUPLE_SHAPES) for _ in range(rng.randint(0, 3))]
    if style != "ranges" and rng.random() < 0.3:
        groups.append("nan")
    ranges = rng.sample(RANGES, rng.randint(2, 5)) if style in ("ranges", "mixed") and rng.random() < 0.8 else []
    if style == "ranges":
        ranges = rng.sample(RANGES, rng.randint(3, len(RANGES)))
    stmts = []
    decls = []

    def declare(k):
        decls.append(k)
        stmts.append(["decl", k])
        return ["ref", len(decls) - 1]

    # some keys live in variables (identity matters for tuples holding NaN and for ranges)
    refs = []
    for _ in range(rng.randint(0, 3)):
        c = rng.random()
        if c < 0.3:
            refs.append(declare(["tup", [rng.choice(NUM_GROUPS["nan"]), gen_from_group(rng, rng.choice(["one", "s_ab", "nil"]))]]))
        elif c < 0.6 and ranges:
            b, e = rng.choice(ranges)
            refs.append(declare(["rng", b, e]))
        else:
            refs.append(declare(gen_from_group(rng, rng.choice(groups))))

    def key():
        c = rng.random()
        if refs and c < 0.12:
            return rng.choice(refs)
        if ranges and c < (0.6 if style == "ranges" else 0.25):
            b, e = rng.choice(ranges)
            k = ["rng", b, e]
            return ["tup", [k, gen_from_group(rng, "one")]] if rng.random() < 0.15 else k
        if c > (0.80 if style == "alias" else 0.92):
            return rng.choice(ALIAS) if rng.random() < (0.8 if style == "alias" else 0.4) else rng.choice(UNHASHABLE)
        return gen_from_group(rng, rng.choice(groups))

    vcount = [0]
    wstate = {}     # container variables: i -> ["vec", [..]] | ["map", x | None]

    def w_disp(i):
        kind, c = wstate[i]
        if kind == "vec":
            return "[%s]" % ", ".join(str(x) for x in c)
        return "{}" if c is None else "{1: %d}" % c

    if style == "values":
        # containers in pairs with equal contents: separately built, so == but not the same object
        groups = groups[:3]
        for i, init in enumerate([["vec", [1]], ["vec", [1]], ["map", None], ["map", None], ["vec", []], ["vec", []]]):
            wstate[i] = [init[0], list(init[1]) if init[0] == "vec" else init[1]]
            stmts.append(["vdecl", i, w_disp(i), w_disp(i)])

    def mutate():
        i = rng.choice(sorted(wstate))
        x = rng.randint(2, 9)
        if wstate[i][0] == "vec":
            wstate[i][1].append(x)
            stmts.append(["vmut", i, "push(%d)" % x, w_disp(i)])
        else:
            wstate[i][1] = x
            stmts.append(["vmut", i, "insert(1, %d)" % x, w_disp(i)])

    def val():
        c = rng.random()
        if wstate and c < 0.6:
            return ["w", rng.choice(sorted(wstate))]
        if c < (0.8 if style == "values" else 0.06):
            return rng.choice(SIGNED_ZEROS)
        if rng.random() < 0.15:
            return 0
        vcount[0] += 1
        return vcount[0]

    n = rng.randint(4, maxops)
    if rng.random() < 0.4:
        stmts.append(["lit", [[key(), val()] for _ in range(rng.randint(0, 6))]])
    for _ in range(n):
        c = rng.random()
        if style == "churn":
            c = c * 0.8
        if wstate and rng.random() < 0.2:
            mutate()
        if style == "values":
            c = c * 0.7 if c > 0.3 else c        # insert / get heavy, few removes
        if c < 0.36:
            stmts.append(["ins", key(), val()])
        elif c < 0.44:
            stmts.append(["rem", key()])
        elif c < 0.56:
            stmts.append(["get", key()])
        elif c < 0.70:
            stmts.append(["has", key()])
        elif c < 0.76:
            stmts.append(["len"])
        elif c < 0.81:
            stmts.append(["keys"])
        elif c < 0.85:
            stmts.append(["items"])
        elif c < 0.88:
            stmts.append(["vals"])
        elif c < 0.90:
            stmts.append(["clr"])
        elif c < 0.94:
            stmts.append(["lit", [[key(), val()] for _ in range(rng.randint(0, 5))]])
        elif ranges or style == "ranges":
            b, e = rng.choice(ranges or RANGES)
            refs.append(declare(["rng", b, e]))
        else:
            stmts.append(["len"])
    stmts += [["len"], ["items"]]
    return {"style": style, "stmts": stmts}


def gen_boundary_program(gap, via_tuple):
    """`r = a..b` used as a key, `gap` distinct other ranges evaluated, then `a..b` evaluated again: the same entry
    exactly when gap <= 7 (the box is still cached)"""
    stmts = [["decl", ["rng", 0, 3]], ["ins", ["ref", 0], 1]]
    for i in range(gap):
        stmts.append(["decl", ["rng", 100 + i, 200 + i]])
    k = ["rng", 0, 3]
    if via_tuple:
        stmts[1] = ["ins", ["tup", [["ref", 0], N("1", 1.0)]], 1]
        k = ["tup", [k, N("1.0", 1.0)]]
    stmts += [["has", k], ["has", ["ref", 0] if not via_tuple else ["tup", [["ref", 0], N("2 - 1", 1.0)]]], ["ins", k, 2], ["len"], ["keys"]]
    return {"style": "boundary%d%s" % (gap, "t" if via_tuple else ""), "stmts": stmts}


def range_evals(prog):
    """number of range expressions a program evaluates (each goes through the 8-entry cache)"""
    def cnt(k):
        if k[0] == "rng":
            return 1
        if k[0] == "tup":
            return sum(cnt(e) for e in k[1])
        return 0
    n = 0
    for s in prog["stmts"]:
        if s[0] in ("decl", "ins", "get", "has", "rem"):
            n += cnt(s[1])
        elif s[0] in ("lit", "flit"):
            n += sum(cnt(k) for k, _ in s[1])
    return n


# values that compare == but print differently: what an entry holds after insert(k, v) is v itself
SIGNED_ZEROS = [["sv", 900001, "0", "0"], ["sv", 900002, "-0", "-0"], ["sv", 900003, "(0 * -1)", "-0"], ["sv", 900004, "0.0", "0"]]


def gen_value_identity_programs():
    """insert(k, v2) over an entry holding v1 with v2 == v1 but another object / another representation: the entry
    must hold v2 afterwards (seen by mutating v2, or by the sign of zero), and insert must hand back v1"""
    ab, one = S('"ab"', "ab"), N("1", 1.0)
    pz, nz = SIGNED_ZEROS[0], SIGNED_ZEROS[1]
    k = S('"k"', "k")
    progs = []
    progs.append([["vdecl", 0, "[1]", "[1]"], ["vdecl", 1, "[1]", "[1]"], ["ins", k, ["w", 0]], ["ins", k, ["w", 1]],
                  ["vmut", 1, "push(2)", "[1, 2]"], ["get", k], ["vmut", 0, "push(7)", "[1, 7]"], ["get", k], ["vals"],
                  ["ins", k, ["w", 0]], ["get", k], ["rem", k], ["len"]])
    progs.append([["ins", N("0", 0.0), pz], ["ins", N("-0", -0.0), nz], ["get", N("0.0", 0.0)], ["ins", N("1 - 1", 0.0), pz],
                  ["get", N("-0.0", -0.0)], ["items"], ["lit", [[N("0", 0.0), nz], [N("-0", -0.0), pz]]], ["items"],
                  ["ins", N("0", 0.0), SIGNED_ZEROS[2]], ["vals"]])
    progs.append([["vdecl", 0, "{}", "{}"], ["vdecl", 1, "{}", "{}"], ["ins", ["tup", [one, ab]], ["w", 0]],
                  ["ins", ["tup", [N("1.0", 1.0), S('"a" + "b"', "ab")]], ["w", 1]], ["vmut", 1, "insert(1, 2)", "{1: 2}"],
                  ["get", ["tup", [one, ab]]], ["items"], ["vmut", 0, "insert(1, 5)", "{1: 5}"], ["vals"], ["len"]])
    progs.append([["vdecl", 0, "[]", "[]"], ["vdecl", 1, "[]", "[]"], ["lit", [[one, ["w", 0]], [N("2 - 1", 1.0), ["w", 1]]]],
                  ["vmut", 1, "push(3)", "[3]"], ["get", one], ["ins", N("1.0", 1.0), ["w", 0]], ["vmut", 0, "push(4)", "[4]"],
                  ["get", one], ["ins", one, 0], ["ins", one, 0], ["get", one], ["has", one], ["items"]])
    return [{"style": "value-identity%d" % i, "stmts": p} for i, p in enumerate(progs)]


def gen_biglit_program(rng, n):
    """a literal of n entries (the operand of BuildHashMap is one byte; 255 is the compiler's limit, 256 a compile
    error) with ==-equal duplicate keys sprinkled in, evaluated inside a function between two locals, then the
    usual operations"""
    pairs = []
    used = []
    for i in range(n):
        c = rng.random()
        if used and c < 0.08:
            j = rng.choice(used)
            key = rng.choice([N("%d.0" % j, float(j)), N("(%d + %d)" % (j - 1, 1), float(j))])     # == an earlier key
        elif c < 0.14:
            key = ["tup", [N(str(i), float(i)), rng.choice(STR_GROUPS["s_ab"])]]
        elif c < 0.18:
            key = S('"s%d"' % i, "s%d" % i)
        else:
            key = N(str(i), float(i))
            used.append(i)
        pairs.append([key, 1000 + i])
    stmts = [["flit", pairs], ["len"]]
    probe = sorted(set([0, 1, n - 1, n - 2, n // 2, max(n - 128, 0), max(n - 129, 0), 126, 127, 128] + [rng.randrange(max(n, 1)) for _ in range(6)]))
    for j in probe:
        if 0 <= j < n + 2:
            stmts.append([rng.choice(["get", "has"]), N(rng.choice(["%d", "%d.0"]) % j, float(j))])
    stmts += [["ins", N(str(n + 5), float(n + 5)), 7], ["rem", N("0", 0.0)], ["ins", N("1.0", 1.0), 8], ["len"], ["vals"], ["items"],
              ["flit", pairs[:3]], ["items"]]
    return {"style": "biglit%d" % n, "stmts": stmts}


def gen_alias_program(key):
    """every entry point with one unhashable key that aliases the receiver, on an empty and on a filled map; the
    sequence goes on after each rejection and ends with the contents (unchanged by the failed operations)"""
    one, ab = N("1", 1.0), S('"ab"', "ab")
    stmts = [["ins", key, 1], ["len"], ["ins", one, 2], ["ins", ["tup", [one, ab]], 3], ["ins", key, 4], ["get", key], ["has", key],
             ["rem", key], ["lit", [[ab, 5], [key, 6]]], ["len"], ["items"], ["ins", one, 0], ["ins", key, 7], ["lit", [[key, 8]]],
             ["rem", one], ["get", key], ["len"], ["keys"], ["vals"], ["items"]]
    return {"style": "alias:" + k_src(key), "stmts": stmts}


def decls_of(prog):
    return [s[1] for s in prog["stmts"] if s[0] == "decl"]


def prog_source(prog):
    decls = decls_of(prog)
    lines = [PRELUDE.rstrip("\n"), "var m = {};"]
    nd = 0
    for i, s in enumerate(prog["stmts"]):
        t = s[0]
        if t == "decl":
            lines.append("var k%d = %s;" % (nd, k_src(s[1])))
            nd += 1
            continue
        if t == "vdecl":
            lines.append("var w%d = %s;" % (s[1], s[2]))
            continue
        if t == "vmut":
            lines.append("w%d.%s;" % (s[1], s[2]))
            continue
        lines.append('print("#%d");' % i)
        if t in ("ins", "get", "has", "rem"):
            call = {"ins": "m.insert(%s, %s)", "get": "m.get(%s)", "has": "m.has_key(%s)", "rem": "m.remove(%s)"}[t]
            args = (k_arg(s[1]), v_src(s[2])) if t == "ins" else (k_arg(s[1]),)
            stmt = "print(%s);" % (call % args)
            if not k_hashable(s[1], decls):
                stmt = 'try { %s } catch e { print("E"); print(e.context); }' % stmt
            lines.append(stmt)
        elif t == "clr":
            lines.append("print(m.clear());")
        elif t == "len":
            lines.append("print(m.len());")
        elif t == "keys":
            lines.append("for k in m.keys() { print(k); }")
        elif t == "vals":
            lines.append("for v in m.values() { print(v); }")
        elif t == "items":
            lines.append("for it in m.items() { print(it); }")
        elif t == "flit":
            # the literal is evaluated inside a function, between two locals that must survive it
            body = ", ".join("%s: %s" % (k_arg(k), v_src(v)) for k, v in s[1])
            lines.append('fn mk%d() { var a = "L"; var t = {%s}; var b = "R"; print(a + b); return t; }' % (i, body))
            lines.append('m = mk%d(); print("ok");' % i)
        elif t == "lit":
            body = ", ".join("%s: %s" % (k_arg(k), v_src(v)) for k, v in s[1])
            stmt = 'm = {%s}; print("ok");' % body
            if not all(k_hashable(k, decls) for k, _ in s[1]):
                stmt = 'try { %s } catch e { print("E"); print(e.context); }' % stmt
            lines.append(stmt)
    lines.append('print("#end");')
    return "\n".join(lines)


def prog_wire(prog):
    ws = WireState()
    groups = []
    for s in prog["stmts"]:
        t = s[0]
        if t in ("vdecl", "vmut"):
            continue
        if t == "decl":
            g = [11] + k_wire(s[1], ws)
        elif t == "ins":
            g = [0, v_id(s[2])] + k_wire(s[1], ws)
        elif t in ("get", "has", "rem"):
            g = [{"get": 1, "has": 2, "rem": 3}[t]] + k_wire(s[1], ws)
        elif t in ("lit", "flit"):
            g = [9, len(s[1])]
            for k, v in s[1]:
                g += [v_id(v)] + k_wire(k, ws)
        else:
            g = [{"clr": 4, "len": 5, "keys": 6, "vals": 7, "items": 8}[t]]
        groups.append(" ".join(str(x) for x in g))
    return ";".join(groups)


def expected_of(tok, stmt, decls, vtab=None):
    """(lines, is_multiset, loose) the program should print for a statement, given the model's result token"""
    if tok in ("-",) or tok.startswith("v"):
        return [val_disp(tok, vtab)], False
    if tok in ("T", "F"):
        return ["true" if tok == "T" else "false"], False
    if tok.startswith("L"):
        return [tok[1:]], False
    if tok == "N":
        return (["nil"] if stmt[0] == "clr" else ["LR", "ok"] if stmt[0] == "flit" else ["ok"]), False
    if tok.startswith("K["):
        return sorted(str(ser_to_disp(x)) for x in split_top(tok[2:-1])), True
    if tok.startswith("W["):
        return sorted(val_disp(x, vtab) for x in split_top(tok[2:-1])), True
    if tok.startswith("I["):
        out = []
        for x in split_top(tok[2:-1]):
            i = x.rindex("=")
            out.append("(%s, %s)" % (ser_to_disp(x[:i]), val_disp(x[i + 1:], vtab)))
        return sorted(out), True
    if tok.startswith("E"):
        # which key was rejected: the statement's (first unhashable) key
        keys = [stmt[1]] if stmt[0] not in ("lit", "flit") else [k for k, _ in stmt[1]]
        bad = next((k for k in keys if not k_hashable(k, decls)), None)
        d = k_first_unhashable_display(bad, decls) if bad is not None else None
        return ["E", None if d is None else ERR_PREFIX + d + ERR_SUFFIX], False
    return ["?" + tok], False


def lines_match(exp, got, multiset):
    if multiset:
        got = sorted(got)
    if len(exp) != len(got):
        return False
    for e, g in zip(exp, got):
        if e is None:
            if not (g.startswith(ERR_PREFIX) and g.endswith(ERR_SUFFIX)):
                return False
        elif e != g:
            return False
    return True


def split_output(rec, prog):
    """program output per statement index, or None when the run did not finish normally"""
    out = {}
    cur = None
    for l in rec.output:
        if l.startswith("#"):
            cur = l[1:]
            out[cur] = []
        elif cur is not None:
            out[cur].append(l)
    return out


def nontrivial_of(prog, info):
    """rule: >= 2 differently-built == keys met the same entry, or an entry was removed and re-inserted"""
    ops = [s for s in prog["stmts"] if s[0] not in NONOPS]
    texts = {}
    removed = set()
    multi = False
    reins = False
    for s, inf in zip(ops, info):
        if s[0] not in ("ins", "get", "has", "rem") or inf in ("-", "m"):
            continue
        src = k_src(s[1])
        ser = inf[1:]
        if inf[0] == "n":
            if ser in removed:
                reins = True
            texts[ser] = {src}
        else:
            texts.setdefault(ser, set()).add(src)
            if len(texts[ser]) >= 2:
                multi = True
            if s[0] == "rem":
                removed.add(ser)
                texts.pop(ser, None)
    return multi or reins


def gen_params():
    with open(os.path.join(yvlib.COQ, "gen", "manifest.json")) as fh:
        man = json.load(fh)
    return man.get("value_arms", {}), man.get("consts", {})


def coq_env():
    va, consts = gen_params()
    size = consts.get("RANGE_CACHE_SIZE", 8)
    if not isinstance(size, int):
        size = 8
    return "%d (ValueArms.hash_number_normalises_neg_zero) (mkH ValueArms.bool_hash_true ValueArms.bool_hash_false ValueArms.none_hash ValueArms.tuple_fold_seed ValueArms.tuple_fold_add)" % size


IMPORTS = ["YV:ValueEq", "YV:HashMapRun", "YVGen:ValueArms"]


def check_programs(ctx, progs, tag, record=True):
    binary = ctx.harness("debug")
    srcs = [prog_source(p) for p in progs]
    wires = [prog_wire(p) for p in progs]
    recs = yvlib.run_harness(binary, ["run - " + hx(s) for s in srcs], case_timeout_ms=20000)
    env = coq_env()
    vals = yvlib.coq_eval(IMPORTS, ['run_prog_w %s "%s"%%string' % (env, w) for w in wires], shard_size=60, tag="C12" + tag)
    nontriv = set()
    stats = {"hits": 0, "ops": 0, "errors": 0}
    for prog, src, wire, rec, val in zip(progs, srcs, wires, recs, vals):
        if val is None or "BAD" in val:
            ctx.corr_broken.append("model evaluation failed for a program (coq_eval): " + wire[:200])
            continue
        mtoks, stoks, info = [x.split(" ") if x else [] for x in val.split("|")]
        ops = [(i, s) for i, s in enumerate(prog["stmts"]) if s[0] not in NONOPS]
        vtabs = value_tables(prog)
        decls = decls_of(prog)
        if nontrivial_of(prog, info):
            nontriv.add(wire)
        stats["ops"] += len(ops)
        stats["hits"] += sum(1 for x in info if x.startswith("h"))
        stats["errors"] += sum(1 for x in stoks if x.startswith("E"))
        if mtoks != stoks:
            # enumeration order may differ between M and S: compare as the program would print
            for (i, s), a, b in zip(ops, mtoks, stoks):
                ea, ma = expected_of(a, s, decls, vtabs.get(i))
                eb, mb = expected_of(b, s, decls, vtabs.get(i))
                if (sorted(map(str, ea)) if ma else ea) != (sorted(map(str, eb)) if mb else eb):
                    ctx.broken.append("M != S on a program (contradicts C12_buckets_refine_assoc): stmt %d %s | M %s | S %s | %s" % (
                        i, json.dumps(s), a[:100], b[:100], wire[:300]))
                    break
        def judge(rec):
            finished = rec.result[0] == "ok" and not rec.crashed
            out = split_output(rec, prog)
            for (i, s), mt, st in zip(ops, mtoks, stoks):
                got = out.get(str(i))
                exp, multi = expected_of(st, s, decls, vtabs.get(i))
                if got is None or not lines_match(exp, got, multi):
                    return (i, s, exp, got, "S")
                expm, multim = expected_of(mt, s, decls, vtabs.get(i))
                if not lines_match(expm, got, multim):
                    return (i, s, expm, got, "M")
            if not finished:
                return (-1, None, "program runs to completion", str(rec.result) + " " + " | ".join(rec.messages)[:300], "S")
            return None

        bad = judge(rec)
        if bad is not None and range_evals(prog) > 8:
            # more than 8 range expressions: an eviction may have happened, and the victim is chosen by comparing
            # `Instant::elapsed()` values taken one after the other -- under heavy machine load the order of two young
            # entries can flip.  A genuine defect is deterministic: the case counts only if it fails three times.
            for _ in range(2):
                again = judge(yvlib.run_harness(binary, ["run - " + hx(src)], shards=1, case_timeout_ms=20000)[0])
                if again is None:
                    ctx.notes.append("a program with > 8 range evaluations differed once and passed when re-run "
                                     "(timing-dependent choice of the evicted range): " + wire[:200])
                    bad = None
                    break
        if bad is None:
            continue
        i, s, exp, got, which = bad
        if got is None:
            got = "no output for this statement; run ended with %s %s" % (str(rec.result), " | ".join(rec.messages)[:300])
        if which == "S":
            if record:
                ctx.violation("HashMap operation result differs from the association list under == (Spec)",
                              input=src, expected={"stmt": i, "op": s, "lines": exp}, actual=got,
                              case={"kind": "prog", "prog": prog}, style=prog.get("style"))
            else:
                return False
        else:
            ctx.corr_broken.append("impl != M (HashMapModel.v) although impl == S: stmt %d %s expected %s got %s | %s" % (
                i, json.dumps(s), exp, got, wire[:300]))
    return (len(progs), nontriv, stats) if record else True


def shrink_first_violation(ctx):
    """delta debugging on the statements of the first failing program (at most ~30 re-runs)"""
    pv = [v for v in ctx.violations if v.get("case", {}).get("kind") == "prog"]
    if not pv:
        return
    v = pv[0]
    prog = v["case"]["prog"]
    budget = [30]

    def used_refs(k, acc):
        if k[0] == "ref":
            acc.add(k[1])
        elif k[0] == "tup":
            for e in k[1]:
                used_refs(e, acc)

    def fails(stmts):
        if budget[0] <= 0:
            return False
        budget[0] -= 1

        class Sub:
            pass
        sub = Sub()
        sub.__dict__.update(ctx.__dict__)
        sub.harness = ctx.harness
        sub.broken, sub.corr_broken, sub.violations = [], [], []
        return check_programs(sub, [{"style": prog.get("style"), "stmts": stmts}], "shrink", record=False) is False

    cur = list(prog["stmts"])
    # removing a decl would renumber the variables: only non-decl statements are candidates
    idx = [i for i, s in enumerate(cur) if s[0] not in ("decl", "vdecl")]
    n = 2
    while len(idx) >= 2 and budget[0] > 0:
        size = max(1, len(idx) // n)
        reduced = False
        for a in range(0, len(idx), size):
            drop = set(idx[a:a + size])
            cand = [s for i, s in enumerate(cur) if i not in drop]
            if any(s[0] not in NONOPS for s in cand) and fails(cand):
                cur = cand
                idx = [i for i, s in enumerate(cur) if s[0] not in ("decl", "vdecl")]
                n = max(n - 1, 2)
                reduced = True
                break
        if not reduced:
            if size == 1:
                break
            n = min(n * 2, len(idx))
    small = {"style": prog.get("style"), "stmts": cur}
    sub_v = []

    class Sub2:
        pass
    sub = Sub2()
    sub.__dict__.update(ctx.__dict__)
    sub.harness = ctx.harness
    sub.broken, sub.corr_broken, sub.violations = [], [], sub_v
    sub.violation = lambda what, **kw: sub_v.append(dict(kw, what=what))
    check_programs(sub, [small], "shrunk")
    if sub_v:
        v.update(sub_v[0])


# ------------------------------------------------------------------------------------------------------------
# SCALE families (round 9): every size dimension of a key / a map / a history pushed through a ladder far beyond any
# plausible hidden threshold, one dimension at a time.  The oracle is an ABSTRACT MAP IN PYTHON (a dict over canonical
# keys: Python's == on floats / strs / tuples of those is the language's == on the keys used here: no booleans, no NaN)
# run on the same loop the yarel program runs, so no model evaluation of a huge program is needed; the answers are
# closed-form in the size (len = n, hits = n, misses = 0, sum = n(n-1)/2 ...) and the same at every rung.
# A case = {"name", "family", "size", "src", "expected": {marker: [lines]}, "profile"}; the program prints "#<marker>"
# before every observation, the lines of one marker are compared as a multiset (enumeration order is free).

DEPTHS = (1, 2, 3, 17, 31, 32, 33, 34, 65, 129, 300)
WIDTHS = (1, 2, 3, 17, 33, 64, 65, 128, 129, 200, 254, 255)
ENTRY_SIZES = (1, 2, 3, 4, 7, 8, 14, 15, 28, 29, 56, 57, 112, 113, 224, 225, 448, 449, 896, 897, 1100, 1792, 1793, 3584, 3585, 5000)
HISTORY_SIZES = (17, 33, 129, 300, 1100, 5000, 20000)
STRLENS = (1, 2, 17, 31, 32, 33, 64, 65, 129, 300, 1100, 5000)
TREE_DEPTHS = (1, 2, 5, 8, 10, 12)
DEBUG_MAX = {"literals": 129, "fat": 34, "depth": 65, "prefix": 34, "width": 255, "entries": 57, "history": 129, "strlen": 129, "tree": 5}


class VecKey:
    """an unhashable leaf ([1]) inside an otherwise hashable key"""
    def __init__(self, disp):
        self.disp = disp


def py_disp(k):
    if k is None:
        return "nil"
    if isinstance(k, VecKey):
        return k.disp
    if isinstance(k, str):
        return k
    if isinstance(k, tuple):
        ds = [py_disp(e) for e in k]
        return "(%s,)" % ds[0] if len(ds) == 1 else "(%s)" % ", ".join(ds)
    return num_display(bits_of(float(k)))


def py_hashable(k):
    if isinstance(k, VecKey):
        return False
    if isinstance(k, tuple):
        return all(py_hashable(e) for e in k)
    return True


class ScaleProg:
    """builds the yarel text and the expected output side by side; `m` is the abstract map"""

    def __init__(self, name, family, size):
        self.name, self.family, self.size = name, family, size
        self.lines = ["var m = {};"]
        self.exp = {}
        self.n = 0
        self.m = {}

    def raw(self, text):
        self.lines.append(text)

    def obs(self, text, expected):
        """`text` prints the observation; expected = list of lines (multiset)"""
        self.n += 1
        self.lines.append('print("#%d");' % self.n)
        self.lines.append(text)
        self.exp[str(self.n)] = sorted(expected)

    # the natives on a key held by a variable `var` whose abstract value is `k`
    def insert(self, var, k, vsrc, v):
        if not py_hashable(k):
            return self.rejected("m.insert(%s, %s)" % (var, vsrc), k)
        old = self.m.get(k)
        self.m[k] = v
        self.obs("print(m.insert(%s, %s));" % (var, vsrc), [py_disp(old)])

    def get(self, var, k):
        if not py_hashable(k):
            return self.rejected("m.get(%s)" % var, k)
        self.obs("print(m.get(%s));" % var, [py_disp(self.m.get(k))])

    def has(self, var, k):
        if not py_hashable(k):
            return self.rejected("m.has_key(%s)" % var, k)
        self.obs("print(m.has_key(%s));" % var, ["true" if k in self.m else "false"])

    def remove(self, var, k):
        if not py_hashable(k):
            return self.rejected("m.remove(%s)" % var, k)
        self.obs("print(m.remove(%s));" % var, [py_disp(self.m.pop(k, None))])

    def rejected(self, call, k):
        self.obs('try { print(%s); } catch e { print("E"); print(e.context); }' % call, ["E", ERR_PREFIX + py_disp(k) + ERR_SUFFIX])

    def literal(self, pairs):
        """m = {var: v, ...}"""
        body = ", ".join("%s: %s" % (var, vsrc) for var, _, vsrc, _ in pairs)
        bad = next((k for _, k, _, _ in pairs if not py_hashable(k)), None)
        if bad is not None:
            return self.rejected("{%s}" % body, bad)
        self.m = {}
        for _, k, _, v in pairs:
            self.m[k] = v
        self.obs('m = {%s}; print("ok");' % body, ["ok"])

    def length(self):
        self.obs("print(m.len());", [str(len(self.m))])

    def contents(self):
        self.obs("for it in m.items() { print(it); }", [py_disp((k, v)) for k, v in self.m.items()])
        self.obs("for k in m.keys() { print(k); }", [py_disp(k) for k in self.m])
        self.obs("for v in m.values() { print(v); }", [py_disp(v) for v in self.m.values()])

    def case(self, profile):
        return {"kind": "scale", "name": self.name, "family": self.family, "size": self.size, "profile": profile,
                "src": "\n".join(self.lines + ['print("#end");']), "expected": self.exp}


def key_session(sp, p, q, others, unh):
    """the same session for every key shape: p and q are == but built separately, `others` are near misses that
    must stay different entries, `unh` is the same shape holding a vector"""
    (pv, pk), (qv, qk) = p, q
    sp.insert(pv, pk, "1", 1)
    sp.has(qv, qk)
    sp.get(qv, qk)
    for ov, ok in others:
        sp.has(ov, ok)
        sp.get(ov, ok)
    for j, (ov, ok) in enumerate(others):
        sp.insert(ov, ok, str(10 + j), 10 + j)
    sp.length()
    sp.insert(qv, qk, "3", 3)
    sp.get(pv, pk)
    sp.obs("print(%s == %s);" % (pv, qv), ["true"])
    for ov, ok in others:
        sp.obs("print(%s == %s);" % (pv, ov), ["false"])
    if unh is not None:
        uv, uk = unh
        sp.insert(uv, uk, "99", 99)
        sp.get(uv, uk)
        sp.has(uv, uk)
        sp.remove(uv, uk)
        sp.literal([(pv, pk, "5", 5), (uv, uk, "6", 6)])
        sp.length()
    sp.contents()
    sp.remove(qv, qk)
    sp.length()
    sp.has(pv, pk)
    for ov, ok in others[:1]:
        sp.get(ov, ok)
    sp.literal([(pv, pk, "1", 1), (qv, qk, "2", 2)] + [(ov, ok, "3", 3) for ov, ok in others])
    sp.length()
    sp.get(pv, pk)
    sp.contents()


def nest(d, leaf, f=lambda i: i):
    k = leaf
    for i in range(d):
        k = (f(i), k)
    return k


def scale_depth(d):
    """a cons-list path (node, rest) with d links"""
    sp = ScaleProg("depth%d" % d, "depth", d)
    sp.raw("var p = nil; for i in 0..%d { p = (i, p); }" % d)
    sp.raw("var q = nil; for i in 0..%d { q = (i + 1 - 1.0, q); }" % d)
    sp.raw("var o1 = 7; for i in 0..%d { o1 = (i, o1); }" % d)                      # differs at the innermost position only
    sp.raw("var o2 = nil; for i in 0..%d { o2 = (i, o2); }" % (d - 1))              # one link shorter
    sp.raw("var o3 = nil; for i in 0..%d { o3 = (i, o3); }" % (d + 1))              # one link longer
    sp.raw("var u = [1]; for i in 0..%d { u = (i, u); }" % d)
    key_session(sp, ("p", nest(d, None)), ("q", nest(d, None)),
                [("o1", nest(d, 7)), ("o2", nest(d - 1, None)), ("o3", nest(d + 1, None))], ("u", nest(d, VecKey("[1]"))))
    return sp


def scale_fat(d):
    """a d-link path whose links are 5 elements wide with a small tuple inside: 6 d elements in all"""
    sp = ScaleProg("fat%d" % d, "fat", d)

    def fat(leaf, d=d):
        k = leaf
        for i in range(d):
            k = (i, i + 1, "n", (i,), k)
        return k
    sp.raw('var p = nil; for i in 0..%d { p = (i, i + 1, "n", (i,), p); }' % d)
    sp.raw('var q = nil; for i in 0..%d { q = (i * 1, 1 + i, "" + "n", (i + 0,), q); }' % d)
    sp.raw('var o1 = (nil,); for i in 0..%d { o1 = (i, i + 1, "n", (i,), o1); }' % d)
    sp.raw('var o2 = nil; for i in 0..%d { o2 = (i, i + 1, "n", (i,), o2); }' % (d + 1))
    sp.raw('var u = {}; for i in 0..%d { u = (i, i + 1, "n", (i,), u); }' % d)
    key_session(sp, ("p", fat(None)), ("q", fat(None)), [("o1", fat((None,))), ("o2", fat(None, d + 1))], ("u", fat(VecKey("{}"))))
    return sp


def scale_prefix(d):
    """every prefix of a d-link path is a key of the same map (paths sharing structure)"""
    sp = ScaleProg("prefix%d" % d, "prefix", d)
    sp.raw("var path = nil; var olds = 0;")
    sp.obs("for node in 0..%d { path = (node, path); if m.insert(path, node) != nil { olds = olds + 1; } }\nprint(olds);" % d, ["0"])
    for i in range(d):
        sp.m[nest(i + 1, None)] = i
    sp.length()
    sp.obs("var again = nil; var hits = 0; var sum = 0;\nfor node in 0..%d { again = (node, again); if m.has_key(again) { hits = hits + 1; sum = sum + m.get(again); } }\n"
           "print(hits); print(sum);" % d, [str(d), str(d * (d - 1) // 2)])
    sp.obs("print(again == path); print(m.get(again));", ["true", str(d - 1)])
    sp.obs("var cnt = 0; for it in m.items() { if m.get(it[0]) == it[1] { cnt = cnt + 1; } } print(cnt);", [str(d)])
    sp.obs("var gone = 0; again = nil; for node in 0..%d { again = (node, again); if node %% 2 == 0 { gone = gone + m.remove(again); } }\nprint(gone);" % d,
           [str(sum(i for i in range(d) if i % 2 == 0))])
    sp.m = {k: v for k, v in sp.m.items() if v % 2 == 1}
    sp.length()
    sp.has("path", nest(d, None))
    return sp


def tup_src(parts):
    return "(%s,)" % parts[0] if len(parts) == 1 else "(%s)" % ", ".join(parts)


def scale_width(w):
    """a flat tuple of w elements (255 is the compiler's limit for a tuple literal)"""
    sp = ScaleProg("width%d" % w, "width", w)
    el = list(range(w))
    sp.raw("var p = %s;" % tup_src([str(i) for i in el]))
    sp.raw("var q = %s;" % tup_src(["(%d + 1)" % (i - 1) if i % 2 else "%d.0" % i for i in el]))
    others = []
    sp.raw("var o1 = %s;" % tup_src([str(i) for i in el[:-1] + [w + 7]]))           # last element differs
    others.append(("o1", tuple(el[:-1] + [w + 7])))
    if w < 255:
        sp.raw("var o3 = %s;" % tup_src([str(i) for i in el + [w]]))                # one element more
        others.append(("o3", tuple(el + [w])))
    if w >= 2:
        sp.raw("var o2 = %s;" % tup_src([str(i) for i in el[:-1]]))                 # one element fewer
        others.append(("o2", tuple(el[:-1])))
        sw = [el[1], el[0]] + el[2:]                                                    # a permutation: the SAME hash (xor fold), not ==
        sp.raw("var o4 = %s;" % tup_src([str(i) for i in sw]))
        others.append(("o4", tuple(sw)))
    sp.raw("var u = %s;" % tup_src([str(i) for i in el[:-1]] + ["[1]"]))
    key_session(sp, ("p", tuple(el)), ("q", tuple(el)), others, ("u", tuple(el[:-1] + [VecKey("[1]")])))
    return sp


def scale_tree(d):
    """p = (p, p) d times: a key of 2^d leaves that shares all of its structure"""
    sp = ScaleProg("tree%d" % d, "tree", d)

    def tree(leaf):
        k = (leaf,)
        for _ in range(d):
            k = (k, k)
        return k
    sp.raw("var p = (1,); for i in 0..%d { p = (p, p); }" % d)
    sp.raw("var q = (1.0,); for i in 0..%d { q = (q, q); }" % d)
    sp.raw("var o1 = (2,); for i in 0..%d { o1 = (o1, o1); }" % d)      # same hash as p (xor of equal halves), not ==
    sp.raw("var u = ([1],); for i in 0..%d { u = (u, u); }" % d)
    sp.insert("p", "P", "1", 1)
    sp.has("q", "P")
    sp.get("q", "P")
    sp.has("o1", "O")
    sp.insert("o1", "O", "2", 2)
    sp.length()
    sp.insert("q", "P", "3", 3)
    sp.get("p", "P")
    sp.obs('try { print(m.insert(u, 1)); } catch e { print("E"); print(e.context.len()); }',
           ["E", str(len(ERR_PREFIX + ERR_SUFFIX) + len(py_disp(tree(VecKey("[1]")))))])
    sp.length()
    sp.remove("q", "P")
    sp.has("p", "P")
    sp.get("o1", "O")
    sp.length()
    return sp


ENTRY_KINDS = {
    # name: (yarel key of i, the same key built another way, python key)
    "num": ("i", "(i + 1 - 1.0)", lambda i: i),
    "neg": ("(0 - i)", "(-i)", lambda i: -i),                               # i = 0: 0 and -0
    "frac": ("(i / 4)", "(i * 0.25)", lambda i: i / 4.0),
    "str": ('"k${i}"', '("k" + "${i}")', lambda i: "k%d" % i),
    "tup": ('(i, "s")', '(i * 1, "" + "s")', lambda i: (i, "s")),
    "nested": ("((i,), i % 3)", "((i + 0,), i % 3 + 0)", lambda i: ((i,), i % 3)),
    "collide": ("(i, i)", "(i + 0, i * 1)", lambda i: (i, i)),              # every key has the SAME hash (seed ^ h ^ h)
    "swap": ("(i, i + 1)", "(i + 0, 1 + i)", lambda i: (i, i + 1)),         # (i, i+1) and (i+1, i) collide pairwise
}


def scale_entries(kind, n):
    """n entries: insert all, find all through separately built keys, miss the neighbours, enumerate once each,
    overwrite all, remove every third, find the rest, clear, fill again"""
    ka, kb, pk = ENTRY_KINDS[kind]
    sp = ScaleProg("entries-%s%d" % (kind, n), "entries", n)
    sp.obs("var olds = 0; for i in 0..%d { if m.insert(%s, i) != nil { olds = olds + 1; } }\nprint(olds); print(m.len());" % (n, ka), ["0", str(n)])
    if kind == "swap":
        sp.obs("for i in 0..%d { if m.insert((i + 1, i), 0 - i) != nil { olds = olds + 1; } }\nprint(olds); print(m.len());" % n, ["0", str(2 * n)])
    sp.obs("var hits = 0; var sum = 0; for i in 0..%d { if m.has_key(%s) { hits = hits + 1; sum = sum + m.get(%s); } }\nprint(hits); print(sum);" % (n, kb, kb),
           [str(n), str(n * (n - 1) // 2)])
    sp.obs("var miss = 0; for i in %d..%d { if !m.has_key(%s) && m.get(%s) == nil { miss = miss + 1; } }\nprint(miss);" % (n, 2 * n + 3, ka, kb), [str(n + 3)])
    total = 2 * n if kind == "swap" else n
    sp.obs("var cnt = 0; var vs = 0; for it in m.items() { if m.get(it[0]) == it[1] { cnt = cnt + 1; } vs = vs + it[1]; }\nprint(cnt); print(vs);",
           [str(total), str(0 if kind == "swap" else n * (n - 1) // 2)])
    sp.obs("cnt = 0; for k in m.keys() { if m.has_key(k) { cnt = cnt + 1; } } for v in m.values() { cnt = cnt + 1; }\nprint(cnt);", [str(2 * total)])
    sp.obs("sum = 0; for i in 0..%d { sum = sum + m.insert(%s, i + 1000); }\nprint(sum); print(m.len());" % (n, kb), [str(n * (n - 1) // 2), str(total)])
    sp.obs("sum = 0; for i in 0..%d { if i %% 3 == 0 { sum = sum + m.remove(%s); } }\nprint(sum); print(m.len());" % (n, ka),
           [str(sum(i + 1000 for i in range(n) if i % 3 == 0)), str(total - len(range(0, n, 3)))])
    sp.obs("hits = 0; sum = 0; for i in 0..%d { if m.has_key(%s) { hits = hits + 1; sum = sum + m.get(%s); } if m.remove(%s) != nil && i %% 3 == 0 { hits = hits + 100000; } }\n"
           "print(hits); print(sum);" % (n, ka, kb, "(\"absent\", i)"), [str(n - len(range(0, n, 3))), str(sum(i + 1000 for i in range(n) if i % 3))])
    sp.obs("for i in 0..%d { if i %% 3 == 0 { m.insert(%s, i); } }\nprint(m.len());" % (n, kb), [str(total)])
    sp.obs("print(m.clear()); print(m.len());", ["nil", "0"])
    sp.obs("for i in 0..%d { m.insert(%s, i); m.insert(%s, i + 1); }\nprint(m.len());" % (n, ka, kb), [str(n)])
    small = min(n, 5)
    sp.obs("for i in 0..%d { print(m.get(%s)); }" % (small, ka), [str(i + 1) for i in range(small)])
    if n <= 40:
        sp.obs("for it in m.items() { print(it); }", [py_disp((pk(i), i + 1)) for i in range(n)])
    return sp


def scale_history(N):
    """N operations over 7 keys: insert / remove / clear interleaved; the running sum of everything the natives handed back"""
    sp = ScaleProg("history%d" % N, "history", N)
    clear_at = 1009
    sp.obs("var acc = 0; var r = nil;\nfor i in 0..%d {\n  r = m.insert((i %% 7, \"x\"), i); if r != nil { acc = acc + r; }\n"
           "  if i %% 3 == 0 { r = m.remove(((i + 1) %% 7 + 0, \"\" + \"x\")); if r != nil { acc = acc + r; } }\n"
           "  if m.has_key(((i + 2) %% 7, \"x\")) { acc = acc + 1; }\n"
           "  if i %% %d == %d { m.clear(); }\n}\nprint(acc);" % (N, clear_at, clear_at - 1), [])
    acc = 0
    m = {}
    for i in range(N):
        k = (i % 7, "x")
        if k in m:
            acc += m[k]
        m[k] = i
        if i % 3 == 0:
            r = m.pop(((i + 1) % 7, "x"), None)
            if r is not None:
                acc += r
        if ((i + 2) % 7, "x") in m:
            acc += 1
        if i % clear_at == clear_at - 1:
            m = {}
    sp.exp[str(sp.n)] = [str(acc)]
    sp.m = m
    sp.length()
    sp.contents()
    return sp


def scale_literals(N):
    """the N-th evaluation of a map literal (with a duplicate key) and of a rejected literal / rejected insert"""
    sp = ScaleProg("literals%d" % N, "literals", N)
    rej = len(range(0, N, 7))
    sp.obs("var acc = 0; var rej = 0;\nfor i in 0..%d {\n  var t = {i: 1, (i, \"a\"): 2, (i + 0): 3};\n  acc = acc + t.len() + t.get(i * 1);\n"
           "  if i %% 7 == 0 {\n    try { t = {i: 1, [i]: 2}; } catch e { rej = rej + 1; }\n    try { t.insert((i, [t]), 1); } catch e { rej = rej + 1; }\n"
           "    acc = acc + t.len();\n  }\n}\nprint(acc); print(rej);" % N, [str(5 * N + 2 * rej), str(2 * rej)])
    return sp


def scale_strlen(L):
    """string keys of length L built three ways"""
    sp = ScaleProg("strlen%d" % L, "strlen", L)
    s = "a" * L
    sp.raw('var p = ""; for i in 0..%d { p = p + "a"; }' % L)
    sp.raw('var q = "%s";' % s)
    sp.raw('var h = ""; for i in 0..%d { h = h + "a"; } var q2 = "${h}%s";' % (L // 2, "a" * (L - L // 2)))
    sp.raw('var o1 = "%sb";' % s[:-1])
    sp.raw('var o2 = "%s";' % s[:-1])
    sp.raw('var o3 = "%sa";' % s)
    sp.raw('var u = [p];')
    sp.obs("print(p.len()); print(p == q2);", [str(L), "true"])
    key_session(sp, ("p", s), ("q", s), [("o1", s[:-1] + "b"), ("o2", s[:-1]), ("o3", s + "a")], ("u", VecKey("[%s]" % s)))
    sp.get("q2", s)
    sp.insert("q2", s, "8", 8)
    sp.length()
    return sp


def scale_cases(ctx, big):
    """(case list) the ladders; `big` = every rung (thorough / search), else every rung too but fewer entry kinds at the top"""
    rng = ctx.rng
    sps = [scale_depth(d) for d in DEPTHS] + [scale_fat(d) for d in DEPTHS] + [scale_prefix(d) for d in DEPTHS if d > 1] + [scale_width(w) for w in WIDTHS]
    sps += [scale_tree(d) for d in TREE_DEPTHS] + [scale_history(n) for n in HISTORY_SIZES] + [scale_literals(n) for n in HISTORY_SIZES] + [scale_strlen(n) for n in STRLENS]
    kinds = sorted(ENTRY_KINDS)
    for n in ENTRY_SIZES:
        for kind in (kinds if big else rng.sample(kinds, 3)):
            if kind == "collide" and n > 1100:
                continue          # one bucket: quadratic
            sps.append(scale_entries(kind, n))
    if big:
        sps += [scale_depth(rng.randint(35, 300)) for _ in range(6)] + [scale_width(rng.randint(4, 255)) for _ in range(6)]
        sps += [scale_entries(rng.choice(kinds[1:]), rng.randint(100, 5000)) for _ in range(10)]
        sps += [scale_history(rng.randint(1000, 30000)) for _ in range(4)] + [scale_strlen(rng.randint(100, 5000)) for _ in range(4)]
    cases = []
    for sp in sps:
        cases.append(sp.case("release"))
        if sp.size <= DEBUG_MAX[sp.family] and not (sp.family == "entries" and "collide" in sp.name and sp.size > 29):
            cases.append(sp.case("debug"))
    return cases


def judge_scale(rec, case):
    """None when the output is the expected one, else (marker, expected, got)"""
    out = {}
    cur = None
    for l in rec.output:
        if l.startswith("#"):
            cur = l[1:]
            out[cur] = []
        elif cur is not None:
            out[cur].append(l)
    for mk in sorted(case["expected"], key=int):
        got = out.get(mk)
        if got is None:
            return (mk, case["expected"][mk], "no output for this observation; run ended with %s %s" % (str(rec.result), " | ".join(rec.messages)[:300]))
        if sorted(got) != case["expected"][mk]:
            return (mk, case["expected"][mk], got)
    if rec.result[0] != "ok" or rec.crashed or "end" not in out:
        return ("end", "program runs to completion", "%s %s" % (str(rec.result), " | ".join(rec.messages)[:300]))
    return None


def clip(x, n=600):
    if isinstance(x, list):
        return [clip(e, n) for e in x[:12]]
    x = str(x)
    return x if len(x) <= n else x[:n // 2] + " ...[%d chars]... " % (len(x) - n) + x[-n // 2:]


def check_scale(ctx, cases, tag="scale"):
    """runs the cases; a timed-out / crashed case is re-run alone before it counts; reports the SMALLEST failing rung of
    each family first"""
    bad = []
    for profile in ("debug", "release"):
        sel = [c for c in cases if c["profile"] == profile]
        if not sel:
            continue
        binary = ctx.harness(profile)
        recs = yvlib.run_harness(binary, ["run - " + hx(c["src"]) for c in sel], case_timeout_ms=60000)
        for c, rec in zip(sel, recs):
            j = judge_scale(rec, c)
            if j is not None and (rec.crashed or rec.result[0] == "crash"):
                rec = yvlib.run_harness(binary, ["run - " + hx(c["src"])], shards=1, case_timeout_ms=120000)[0]
                j = judge_scale(rec, c)
            if j is not None:
                bad.append((c, j))
    bad.sort(key=lambda cj: (cj[0]["size"], cj[0]["profile"]))
    seen = {}
    for c, (mk, exp, got) in bad:
        seen.setdefault(c["family"], []).append((c, mk, exp, got))
    nviol = 0
    for fam in sorted(seen):
        c, mk, exp, got = seen[fam][0]
        if nviol >= 5:
            break
        nviol += 1
        stmt = c["src"].split('print("#%s");\n' % mk)[1].split('\nprint("#')[0] if mk != "end" else "(whole program)"
        ctx.violation("HashMap at scale differs from the abstract map (smallest failing rung of family `%s`; %d rung(s) of the family fail: %s)" % (
            fam, len(seen[fam]), ", ".join("%s/%s" % (x[0]["name"], x[0]["profile"]) for x in seen[fam][:12])),
            input=c["src"] if len(c["src"]) < 20000 else clip(c["src"], 20000), expected={"observation": mk, "stmt": clip(stmt, 1500), "lines": clip(exp)},
            actual=clip(got), case=c, style="scale:" + fam)
    return len(cases), len(bad)


# ------------------------------------------------------------------------------------------------------------
# value level
#   value AST: ["z"] ["f"] ["t"] ["n", bits] ["s", hex] ["c", global, class name] ["r", b, e] ["T", [..]] ["v"] ["m"] ["@", i]

def v_item(v):
    t = v[0]
    if t in "zftvm":
        return t
    if t == "n":
        return "n%d" % v[1]
    if t == "s":
        return "s" + ("" if v[1] == "-" else v[1])
    if t == "c":
        return "c" + hx(v[1])
    if t == "r":
        return "r%d:%d" % (v[1], v[2])
    if t == "T":
        return "(%s)" % ",".join(v_item(e) for e in v[1])
    if t == "@":
        return "@%d" % v[1]
    raise ValueError(v)


def v_wire(v, ws):
    t = v[0]
    if t == "z":
        return [0]
    if t == "f":
        return [1]
    if t == "t":
        return [2]
    if t == "n":
        return [3, v[1]]
    if t == "s":
        bs = yvlib.unhx(v[1])
        return [4, len(bs)] + list(bs)
    if t == "c":
        bs = v[2].encode()
        return [5, ws.cls_id(v[2]), len(bs)] + list(bs)
    if t == "r":
        return [6, v[1] + OFF40, v[2] + OFF40]
    if t == "T":
        r = [7, len(v[1])]
        for e in v[1]:
            r += v_wire(e, ws)
        return r
    if t in "vm":
        ws.tag += 1
        return [8, ws.tag]
    if t == "@":
        return [9, v[1]]
    raise ValueError(v)


def v_has_nan(v, items):
    t = v[0]
    if t == "n":
        return math.isnan(float_of(v[1]))
    if t == "T":
        return any(v_has_nan(e, items) for e in v[1])
    if t == "@":
        return v_has_nan(items[v[1]], items)
    return False


SPECIAL_BITS = [0, 1 << 63, 1, (1 << 63) | 1, (1 << 52) - 1, 1 << 52, 0x3FF0000000000000, 0xBFF0000000000000,
                bits_of(2.0 ** 53), bits_of(2.0 ** 53 - 1), bits_of(2.0 ** 53 + 2), 0x7FF0000000000000, 0xFFF0000000000000,
                0x7FF8000000000000, 0xFFF8000000000000, 0x7FF8000000000001, 0x7FF0000000000001, 0x7FEFFFFFFFFFFFFF,
                bits_of(0.5), bits_of(3.0), bits_of(0.1), bits_of(2.0), 0x0008000000000000, 0x8000000000000001]
VAL_PRELUDE = PRELUDE + "var kVec = Vec; var kString = String; var kA = A; var kB = B; var kHashMap = HashMap;"
VCLASSES = [["c", "kVec", "Vec"], ["c", "kString", "String"], ["c", "kA", "A"], ["c", "kB", "B"], ["c", "kHashMap", "HashMap"]]


def gen_vals(rng, n):
    items = []

    def atom():
        c = rng.random()
        if c < 0.45:
            return ["n", rng.choice(SPECIAL_BITS) if rng.random() < 0.8 else rng.getrandbits(64)]
        if c < 0.62:
            return ["s", hx(rng.choice(["ab", "", "a", "b", "ba", "é", "1", "nil", "abc", "x" * 20]))]
        if c < 0.70:
            return [rng.choice("zft")]
        if c < 0.78:
            return list(rng.choice(VCLASSES))
        if c < 0.90:
            b, e = rng.choice(RANGES)
            return ["r", b, e]
        return [rng.choice("vm")]

    def value(depth):
        c = rng.random()
        if items and c < 0.12:
            return ["@", rng.randrange(len(items))]
        if c < 0.35 and depth < 3:
            return ["T", [value(depth + 1) for _ in range(rng.choice([0, 1, 1, 2, 2, 3]))]]
        return atom()
    for _ in range(n):
        items.append(value(0))
    return items


def curated_vals():
    one = 0x3FF0000000000000
    lists = []
    # zeros, alone and inside (nested) tuples; false / 0 / -0 share hash 0
    lists.append([["n", 0], ["n", 1 << 63], ["f"], ["T", [["n", 0]]], ["T", [["n", 1 << 63]]], ["T", [["T", [["n", 0]]], ["z"]]],
                  ["T", [["T", [["n", 1 << 63]]], ["z"]]], ["T", []], ["T", [["n", one], ["n", one]]], ["T", [["n", bits_of(2.0)], ["n", bits_of(2.0)]]],
                  ["T", [["n", one], ["n", bits_of(2.0)]]], ["T", [["n", bits_of(2.0)], ["n", one]]], ["z"], ["t"]])
    # NaNs: payloads, in tuples, the same tuple object twice
    lists.append([["n", 0x7FF8000000000000], ["n", 0xFFF8000000000000], ["n", 0x7FF8000000000001], ["@", 0], ["T", [["@", 0]]], ["@", 4],
                  ["T", [["n", 0x7FF8000000000000]]], ["T", [["@", 4], ["n", one]]], ["T", [["@", 4], ["n", one]]]])
    # strings and tuples built separately; 1 vs "1"; classes
    lists.append([["s", hx("ab")], ["s", hx("ab")], ["T", [["n", one], ["s", hx("ab")]]], ["T", [["n", one], ["s", hx("ab")]]], ["s", hx("1")], ["n", one],
                  ["s", "-"], ["T", []], ["T", [["T", []]]]] + [list(c) for c in VCLASSES] + [["c", "kVec", "Vec"], ["T", [["c", "kA", "A"]]], ["T", [["c", "kA", "A"]]]])
    # unhashable values, alone and nested
    lists.append([["v"], ["m"], ["T", [["v"]]], ["T", [["n", one], ["T", [["m"]]]]], ["@", 0], ["T", [["@", 0]]], ["v"], ["T", [["n", one]]]])
    # ranges: within and beyond the 8-entry cache, both sides of the boundary
    for gap in (0, 1, 6, 7, 8, 9, 15):
        lists.append([["r", 0, 3]] + [["r", 100 + i, 200 + i] for i in range(gap)] + [["r", 0, 3], ["T", [["@", 0]]], ["T", [["r", 0, 3]]], ["@", 0]])
    # a re-used range in the middle keeps its box while others rotate
    lists.append([["r", i % 9, 50] for i in range(30)])
    lists.append([["r", 1, 2]] + [["r", i, i + 1] for i in range(10, 17)] + [["r", 1, 2], ["r", 20, 21], ["r", 1, 2], ["r", 10, 11]])
    return lists


def check_vals(ctx, lists, tag):
    binary = ctx.harness("debug")
    lines = ["c12vals p%s %s" % (hx(VAL_PRELUDE), " ".join(v_item(v) for v in l)) for l in lists]
    recs = yvlib.run_harness(binary, lines, case_timeout_ms=20000)
    env = coq_env()
    terms = []
    for l in lists:
        ws = WireState()
        terms.append('run_vals_w %s "%s"%%string' % (env, ";".join(" ".join(str(x) for x in v_wire(v, ws)) for v in l)))
    vals = yvlib.coq_eval(IMPORTS, terms, shard_size=40, tag="C12" + tag)
    pairs_eq = 0
    for l, line, rec, val in zip(lists, lines, recs, vals):
        if val is None or val == "BAD":
            ctx.corr_broken.append("model evaluation failed for a value list: " + line[:200])
            continue
        if rec.crashed or rec.result[0] == "panic" or len(rec.tagged("V")) != len(l):
            ctx.corr_broken.append("c12vals failed: %s on %s" % (str(rec.result), line[:300]))
            continue
        per, rows = val.split("|")
        per = per.split(" ")
        rows = rows.split(" ")
        V = rec.tagged("V")
        H = rec.tagged("H")
        E = rec.tagged("E")
        n = len(l)
        for i in range(n):
            mh, mhash = per[i].split(":")
            ih = H[i][1]
            disp = yvlib.unhx(V[i][2]).decode("utf-8", "replace") if len(V[i]) > 2 else ""
            if ih != ("1" if mh == "T" else "0"):
                ctx.corr_broken.append("has_hash differs: value %d `%s` (%s): impl %s model %s | %s" % (i, v_item(l[i]), disp, ih, mh, line[:200]))
            if mh == "T":
                if not v_has_nan(l[i], l) and V[i][1] != mhash:
                    ctx.corr_broken.append("hash differs: value %d `%s` (%s): impl %s model %s | %s" % (i, v_item(l[i]), disp, V[i][1], mhash, line[:200]))
            else:
                if V[i][1] != "P":
                    ctx.notes.append("Hash::hash does not panic on a value the model calls unhashable: `%s`" % v_item(l[i]))
                msg = yvlib.unhx(H[i][2]).decode("utf-8", "replace") if ih == "0" and len(H[i]) > 2 else ""
                if ih == "0" and (ERR_PREFIX + disp + ERR_SUFFIX) not in msg:
                    ctx.violation("unhashable key rejected with a different message", input=line, expected=ERR_PREFIX + disp + ERR_SUFFIX,
                                  actual=msg, case={"kind": "vals", "items": l})
            irow = E[i][1]
            mrow = "".join("1" if c == "T" else "0" for c in rows[i])
            # == between two values that hold a vector / map is structural in the code and by tag in the model
            # (KUnhashable): never reached through a map, not compared
            hashable = [p.split(":")[0] == "T" for p in per]
            diff = [j for j in range(n) if irow[j] != mrow[j] and (hashable[i] or hashable[j])]
            if diff:
                j = diff[0]
                ctx.corr_broken.append("== differs: `%s` == `%s`: impl %s model %s | %s" % (v_item(l[i]), v_item(l[j]), irow[j], mrow[j], line[:300]))
            # the property's premise, directly on the implementation: == values (both hashable) hash equally
            for j in range(n):
                if irow[j] == "1" and i != j:
                    pairs_eq += 1
                    if H[i][1] == "1" and H[j][1] == "1" and V[i][1] != V[j][1]:
                        ctx.violation("two == values hash differently (they would be two entries of one HashMap)",
                                      input=line, expected="hash(%s) == hash(%s)" % (v_item(l[i]), v_item(l[j])),
                                      actual="%s vs %s" % (V[i][1], V[j][1]), case={"kind": "vals", "items": [l[i], l[j]] if not any(
                                          "@" in v_item(x) or "r" in v_item(x) for x in (l[i], l[j])) else l})
    return len(lists), pairs_eq


def obligations_tables(ctx):
    va, _ = gen_params()
    if not va:
        ctx.broken.append("translator produced no value_arms entry (gen/manifest.json)")
        return
    for k in ("has_hash_arms", "hash_arms", "eq_arms"):
        for a, b in va.get(k, []):
            if str(b).startswith("unknown") or str(a).startswith("?"):
                ctx.notes.append("translator: unrecognised arm %s.%s = %s" % (k, a, b))


def run(ctx):
    quick = ctx.quick()
    rng = ctx.rng
    obligations_tables(ctx)
    if ctx.replay_only:
        case = ctx.replay_only.get("case", {})
        if case.get("kind") == "prog":
            check_programs(ctx, [case["prog"]], "replay")
        elif case.get("kind") == "vals":
            check_vals(ctx, [case["items"]], "replay")
        elif case.get("kind") == "scale":
            check_scale(ctx, [case], "replay")
        return
    # scale families first (cheap: no model evaluation; Python abstract map / closed forms)
    ns, nsbad = check_scale(ctx, scale_cases(ctx, not quick))
    scale_viol = list(ctx.violations)
    # corpus
    corpus = []
    cdir = os.path.join(yvlib.VERIF, "corpus", "C12")
    if os.path.isdir(cdir):
        for f in sorted(os.listdir(cdir)):
            with open(os.path.join(cdir, f)) as fh:
                corpus.append(json.load(fh))
    # value level
    vlists = curated_vals() + [c["items"] for c in corpus if c.get("kind") == "vals"]
    vlists += [gen_vals(rng, rng.randint(4, 22)) for _ in range(40 if quick else 700)]
    nv, pairs_eq = check_vals(ctx, vlists, "vals")
    # programs
    progs = [c["prog"] for c in corpus if c.get("kind") == "prog"]
    for gap in (0, 6, 7, 8, 9):
        for via_tuple in (False, True):
            progs.append(gen_boundary_program(gap, via_tuple))
    progs += [gen_alias_program(k) for k in ALIAS]
    progs += gen_value_identity_programs()
    progs += [gen_biglit_program(rng, n) for n in (0, 1, 2, 127, 128, 129, 200, 254, 255)]
    if not quick:
        progs += [gen_biglit_program(rng, rng.randint(100, 255)) for _ in range(20)]
    nprog = 260 if quick else 4000
    progs += [gen_program(rng, 30 if rng.random() < 0.9 else 80) for _ in range(nprog)]
    np_, nontriv, stats = check_programs(ctx, progs, "prog")
    shrink_first_violation(ctx)
    pv = [v for v in ctx.violations if v.get("case", {}).get("kind") == "prog"]
    ov = [v for v in ctx.violations if v.get("case", {}).get("kind") != "prog"]
    ov = [v for v in ov if v not in scale_viol]
    ctx.violations[:] = scale_viol[:3] + pv[:(5 if not scale_viol else 3)] + ov[:(5 if not scale_viol else 2)]
    styles = {}
    for p in progs:
        styles[p.get("style")] = styles.get(p.get("style"), 0) + 1
    ctx.cov.update({
        "evaluations": nv + np_ + ns,
        "scale_cases": ns, "scale_cases_failing": nsbad,
        "scale_ladders": {"key nesting depth (2-element links, 5-element links, all prefixes in one map)": list(DEPTHS), "key width": list(WIDTHS), "entries": list(ENTRY_SIZES), "history length": list(HISTORY_SIZES),
                          "string key length": list(STRLENS), "shared-structure tree depth (2^d leaves)": list(TREE_DEPTHS), "entry key kinds": sorted(ENTRY_KINDS)},
        "distinct_nontrivial": len(nontriv),
        "rule": "yarel programs = operation sequences (literal, insert, remove, get, has_key, clear, len, keys/values/items) over key pools of "
                "equal-but-differently-built keys (0/-0/0*-1, 1/1.0/2-1, 2^53/2^53+1, \"ab\"/\"a\"+\"b\"/interpolation, tuples and nested tuples built "
                "separately, classes, ranges through the 8-entry cache incl. both sides of the eviction boundary, colliding hashes false/0/()/(1,1)/(1,2)/(2,1)), "
                "NaN and unhashable values (vector, map, instance, closure, native, tuples holding a vector, and keys that ALIAS the receiver: the map itself, "
                "vectors/tuples of depth 1-3 holding it, a map holding it as a value, a self-containing vector); every program is run on the implementation "
                "and on M and S (coqc). Non-trivial = a program in which >= 2 differently-written == keys met the same entry, or an entry was removed and "
                "inserted again (measured from S's trace; distinct programs counted). Plus value lists (hash / has_hash / == matrix vs the model).",
        "traces_validated_against_impl": np_,
        "programs": np_, "value_lists": nv, "equal_value_pairs_checked": pairs_eq,
        "ops_total": stats["ops"], "ops_hitting_an_entry": stats["hits"], "ops_rejected_unhashable": stats["errors"],
        "program_styles": styles,
        "samples": [prog_source(progs[-1]), prog_wire(progs[-1]), "c12vals " + " ".join(v_item(v) for v in vlists[0])],
    })


def search(ctx):
    """obligations or correspondences broken: look for a failing input with the thorough generators (Spec oracle)"""
    old = ctx.tier
    ctx.tier = "thorough"
    keep_b, keep_c = list(ctx.broken), list(ctx.corr_broken)
    try:
        # run() starts with the scale families on every rung (directed, seconds) and goes on with the thorough generators
        run(ctx)
    finally:
        ctx.tier = old
        # the second pass repeats the same diagnostics: keep one copy
        ctx.broken[:] = keep_b + [b for b in ctx.broken[len(keep_b):] if b not in keep_b][:5]
        ctx.corr_broken[:] = keep_c + [c for c in ctx.corr_broken[len(keep_c):] if c not in keep_c][:5]
