"""C12 - HashMap behaves as a map keyed by value equality.

Theorems (coq/props/C12.v over ValueEq.v / HashMapModel.v / HashMapProofs.v / RangeCacheModel.v): the bucket
mechanism of std::HashMap driven by Value's hash and == (M) refines an association list under == (S) for EVERY
operation sequence, because == values hash equally (coherent_hashable: all values, needs hash_number to normalise
-0); enumeration is a permutation of S's entries without == duplicates; unhashable keys are rejected and leave
the map unchanged; NaN keys always add an entry and never hit.
Tie: (a) translator (translate_c12.py): arms of has_hash / Hash / PartialEq, tuple hash fold, key-check message and
whether hash_number normalises -0, regenerated from the source and compared with the tables ValueEq.v hard-wires;
(b) value level impl == M: harness `c12vals` builds values (numbers by bit pattern, strings, nested tuples, classes,
ranges through the range cache, vectors/maps) and reports Hash::hash, has_hash (through `{x: 1}`) and the == matrix,
compared with vhash / has_hash / veq evaluated by coqc; (c) property level impl == S: generated yarel programs
(literal, insert, remove, get, has_key, clear, len, keys/values/items as multisets) against the association list
evaluated by coqc on the same operation sequence."""
import json
import math
import os
import struct

import yvlib
from yvlib import hx, log

LEVEL = "proof"
TRUSTED = [
    "Coq 8.16.1 kernel (coqc), vm_compute; no native_compute, no extraction",
    "translator/translate_c12.py + rustlex.py (token-level reading of value.rs, object.rs, memory.rs, utils.rs, core.rs, vm.rs)",
    "harness `yv` (Rust: c12vals, run), tools/*.py (Python); yarel's print()/Display to observe results",
    "modelled, not verified: std::HashMap finds a key among the stored keys with the SAME hash by `==` (its documented "
    "contract); u64 arithmetic as Z mod 2^64; Num.v (hash_number, f64) and RangeCache.v (owners C19/C16)",
]
ASSUMPTIONS = [
    "strings are interned (C11): address equality of ObjString = byte equality",
    "the range cache evicts first-in first-out (Instant stamps strictly increase between two misses)",
    "a NaN's hash is not modelled bit-exactly (all NaNs are one value in Num.v); irrelevant: NaN equals nothing",
]

OFF40 = 1 << 40
ERR_PREFIX = "Cannot use unhashable value '"
ERR_SUFFIX = "' as HashMap key."

# ------------------------------------------------------------------------------------------------------------
# numbers


def bits_of(x):
    return struct.unpack("<Q", struct.pack("<d", x))[0]


def float_of(bits):
    return struct.unpack("<d", struct.pack("<Q", bits))[0]


def num_display(bits):
    x = float_of(bits)
    if math.isnan(x):
        return "NaN"
    if math.isinf(x):
        return "inf" if x > 0 else "-inf"
    if x == 0:
        return "-0" if bits >> 63 else "0"
    if x == int(x) and abs(x) < 1e17:
        return str(int(x))
    return repr(x)


NAN_BITS = 0x7FF8000000000000
INF = float("inf")

# ------------------------------------------------------------------------------------------------------------
# key expressions (JSON-able lists):
#   ["nil"] ["bool", b] ["num", src, bits] ["str", src, hex] ["cls", name] ["rng", b, e] ["tup", [k..]]
#   ["unh", src, display|None] ["ref", i]   (i-th declared variable kI)


def k_src(k):
    t = k[0]
    if t == "nil":
        return "nil"
    if t == "bool":
        return "true" if k[1] else "false"
    if t in ("num", "str", "unh"):
        return k[1]
    if t == "cls":
        return k[1]
    if t == "rng":
        return "%d..%d" % (k[1], k[2])
    if t == "tup":
        if len(k[1]) == 1:
            return "(%s,)" % k_arg(k[1][0])
        return "(%s)" % ", ".join(k_arg(e) for e in k[1])
    if t == "ref":
        return "k%d" % k[1]
    raise ValueError(k)


def k_arg(k):
    """source usable as an argument / tuple element / literal key: compound expressions are parenthesised"""
    s = k_src(k)
    if k[0] in ("nil", "bool", "cls", "ref", "tup") or (k[0] in ("num", "str") and " " not in s and not s.startswith("-")):
        return s
    return "(%s)" % s


class WireState:
    def __init__(self):
        self.tag = 0
        self.cls = {}

    def cls_id(self, name):
        return self.cls.setdefault(name, len(self.cls) + 1)


def k_wire(k, ws):
    t = k[0]
    if t == "nil":
        return [0]
    if t == "bool":
        return [2 if k[1] else 1]
    if t == "num":
        b = k[2]
        return [3, NAN_BITS if math.isnan(float_of(b)) else b]
    if t == "str":
        bs = yvlib.unhx(k[2])
        return [4, len(bs)] + list(bs)
    if t == "cls":
        bs = k[1].encode()
        return [5, ws.cls_id(k[1]), len(bs)] + list(bs)
    if t == "rng":
        return [6, k[1] + OFF40, k[2] + OFF40]
    if t == "tup":
        r = [7, len(k[1])]
        for e in k[1]:
            r += k_wire(e, ws)
        return r
    if t == "unh":
        ws.tag += 1
        return [8, ws.tag]
    if t == "ref":
        return [9, k[1]]
    raise ValueError(k)


def k_hashable(k, decls):
    t = k[0]
    if t == "unh":
        return False
    if t == "tup":
        return all(k_hashable(e, decls) for e in k[1])
    if t == "ref":
        return k_hashable(decls[k[1]], decls)
    return True


def k_first_unhashable_display(k, decls):
    """display of the key as the error message shows it (None where it holds an address)"""
    t = k[0]
    if t == "nil":
        return "nil"
    if t == "bool":
        return "true" if k[1] else "false"
    if t == "num":
        return num_display(k[2])
    if t == "str":
        return yvlib.unhx(k[2]).decode()
    if t == "cls":
        return "<class %s>" % k[1]
    if t == "rng":
        return "Range(%d, %d)" % (k[1], k[2])
    if t == "unh":
        return k[2]
    if t == "ref":
        return k_first_unhashable_display(decls[k[1]], decls)
    if t == "tup":
        ds = [k_first_unhashable_display(e, decls) for e in k[1]]
        if any(d is None for d in ds):
            return None
        return "(%s,)" % ds[0] if len(ds) == 1 else "(%s)" % ", ".join(ds)
    raise ValueError(k)


def ser_to_disp(s):
    """display (as yarel prints it) of a key in the model's serialisation (HashMapRun.show_kv)"""
    pos = [0]

    def item():
        c = s[pos[0]]
        pos[0] += 1
        if c == "z":
            return "nil"
        if c == "t":
            return "true"
        if c == "f":
            return "false"
        st = pos[0]
        if c == "n":
            while pos[0] < len(s) and s[pos[0]].isdigit():
                pos[0] += 1
            return num_display(int(s[st:pos[0]]))
        if c in "sc":
            while pos[0] < len(s) and s[pos[0]] in "0123456789abcdef":
                pos[0] += 1
            text = bytes.fromhex(s[st:pos[0]]).decode()
            return text if c == "s" else "<class %s>" % text
        if c == "r":
            while pos[0] < len(s) and (s[pos[0]].isdigit() or s[pos[0]] in "-_"):
                pos[0] += 1
            b, e = s[st:pos[0]].split("_")
            return "Range(%s, %s)" % (b, e)
        if c == "(":
            elems = []
            if s[pos[0]] == ")":
                pos[0] += 1
                return "()"
            while True:
                elems.append(item())
                d = s[pos[0]]
                pos[0] += 1
                if d == ")":
                    break
            return "(%s,)" % elems[0] if len(elems) == 1 else "(%s)" % ", ".join(elems)
        if c == "u":
            while pos[0] < len(s) and s[pos[0]].isdigit():
                pos[0] += 1
            return None
        raise ValueError(s)
    return item()


def split_top(s, sep=";"):
    out, depth, cur = [], 0, ""
    for c in s:
        if c == "(":
            depth += 1
        elif c == ")":
            depth -= 1
        if c == sep and depth == 0:
            out.append(cur)
            cur = ""
        else:
            cur += c
    if cur or out:
        out.append(cur)
    return out


# map values: an int (0 = nil, n = the number n) | ["sv", id, src, display] (a value with its own printed form, e.g. -0)
# | ["w", i] (the container held by variable wI, declared by ['vdecl', i, src, display] and changed by
# ['vmut', i, call, display]: what an entry holds is the OBJECT, so its printed form follows later mutations)
W_BASE = 500000
NONOPS = ("decl", "vdecl", "vmut")


def v_id(v):
    if isinstance(v, int):
        return v
    return v[1] if v[0] == "sv" else W_BASE + v[1]


def v_src(v):
    if isinstance(v, int):
        return "nil" if v == 0 else str(v)
    return v[2] if v[0] == "sv" else "w%d" % v[1]


def value_tables(prog):
    """printed form of every non-plain value id at the time of each statement"""
    static = {}
    for s in prog["stmts"]:
        vs = [s[2]] if s[0] == "ins" else [v for _, v in s[1]] if s[0] in ("lit", "flit") else []
        for v in vs:
            if not isinstance(v, int) and v[0] == "sv":
                static[v[1]] = v[3]
    cur = dict(static)
    tabs = {}
    for i, s in enumerate(prog["stmts"]):
        if s[0] in ("vdecl", "vmut"):
            cur[W_BASE + s[1]] = s[3]
        else:
            tabs[i] = dict(cur)
    return tabs


def val_disp(v, vtab=None):
    """v0 / - = nil, vN = the number N unless N names a special value or a container"""
    if v in ("-", "v0"):
        return "nil"
    return (vtab or {}).get(int(v[1:]), v[1:])


# ------------------------------------------------------------------------------------------------------------
# key pool: groups of equal-but-differently-built keys

def N(src, x):
    return ["num", src, bits_of(x)]


def S(src, text):
    return ["str", src, hx(text)]


NUM_GROUPS = {
    "zero": [N("0", 0.0), N("-0", -0.0), N("0 * -1", -0.0), N("0.0", 0.0), N("1 - 1", 0.0), N("-0.0", -0.0)],
    "one": [N("1", 1.0), N("1.0", 1.0), N("2 - 1", 1.0), N("3 / 3", 1.0)],
    "two": [N("2", 2.0), N("1 + 1", 2.0)],
    "three": [N("3", 3.0)],
    "half": [N("0.5", 0.5), N("1 / 2", 0.5)],
    "neg1": [N("-1", -1.0), N("0 - 1", -1.0)],
    "big": [N("9007199254740992", 2.0 ** 53), N("9007199254740993", 2.0 ** 53), N("9007199254740991 + 1", 2.0 ** 53)],
    "bigm1": [N("9007199254740991", 2.0 ** 53 - 1)],
    "inf": [N("1 / 0", INF), N("2 / 0", INF)],
    "ninf": [N("-1 / 0", -INF)],
    "nan": [["num", "0 / 0", NAN_BITS], ["num", "-(0 / 0)", NAN_BITS]],
    "p3sum": [N("0.1 + 0.2", 0.1 + 0.2)],
    "p3": [N("0.3", 0.3)],
}
STR_GROUPS = {
    "s_ab": [S('"ab"', "ab"), S('"a" + "b"', "ab"), S('"${"a"}b"', "ab")],
    "s_empty": [S('""', ""), S('"" + ""', "")],
    "s_1": [S('"1"', "1"), S('"${1}"', "1")],
    "s_nil": [S('"nil"', "nil")],
    "s_e": [S('"é"', "é"), S('"${"é"}"', "é")],
}
ATOM_GROUPS = {"nil": [["nil"]], "true": [["bool", True]], "false": [["bool", False]],
               "Vec": [["cls", "Vec"]], "String": [["cls", "String"]], "A": [["cls", "A"]], "B": [["cls", "B"]]}
RANGES = [(0, 3), (1, 2), (0, 0), (3, 0), (2, 5), (0, 1), (5, 9), (7, 8), (10, 20), (4, 4), (6, 2), (11, 12)]
UNHASHABLE = [["unh", "[1]", "[1]"], ["unh", "[]", "[]"], ["unh", "{}", "{}"], ["unh", "{1: 2}", "{1: 2}"],
              ["unh", "A.new()", None], ["unh", "|x| x", None], ["unh", "print", "<built-in fn print>"],
              ["tup", [N("1", 1.0), ["unh", "[2]", "[2]"]]], ["tup", [["tup", [N("1", 1.0), ["unh", "[2]", "[2]"]]], N("3", 3.0)]],
              ["tup", [["unh", "{}", "{}"]]]]
# unhashable keys that ALIAS the receiving map `m` (or themselves): formatting the ValueError message walks into the
# map while the native is running -- the rejection must still be a catchable ValueError that leaves the map unchanged.
# `sv` is a vector that contains itself (prelude).  HashMap has no `[]` / `[]=` (GetItem/SetItem handle strings,
# tuples and vectors only), so the natives and the literal are all the entry points there are.
ALIAS = [["unh", "m", None], ["unh", "[m]", None], ["unh", "[[m]]", None], ["unh", "[[[m]]]", None],
         ["tup", [["unh", "m", None]]], ["tup", [N("1", 1.0), ["unh", "[m]", None]]],
         ["tup", [["tup", [["unh", "[m]", None]]], N("2", 2.0)]], ["tup", [["tup", [["tup", [["unh", "m", None]]]]]]],
         ["unh", "{1: m}", None], ["unh", "{1: [m]}", None], ["unh", "sv", "[[...]]"], ["tup", [["unh", "sv", "[[...]]"], ["unh", "m", None]]]]
# tuples: element groups (names of the groups above, or nested lists)
TUPLE_SHAPES = [["one", "s_ab"], ["zero"], [], ["one", "one"], ["two", "two"], ["one", "two"], ["two", "one"],
                [["one", "two"], "three"], ["nil", "true"], ["nan"], ["Vec"], [["zero"], "nil"], ["s_empty", "false"],
                ["big", ["half"]], ["rng03"], [[]]]
PRELUDE = "#[constructor(new)] class A {}\n#[constructor(new)] class B {}\nvar sv = []; sv.push(sv);\n"


def gen_from_group(rng, g):
    if isinstance(g, list):
        return ["tup", [gen_from_group(rng, e) for e in g]]
    if g == "rng03":
        return ["rng", 0, 3]
    for d in (NUM_GROUPS, STR_GROUPS, ATOM_GROUPS):
        if g in d:
            return rng.choice(d[g])
    raise ValueError(g)


ALL_GROUPS = list(NUM_GROUPS) + list(STR_GROUPS) + list(ATOM_GROUPS)


def gen_program(rng, maxops):
    """{'decls': n, 'stmts': [...]}; statements: ['decl', key] | ['ins', key, v] | ['get'|'has'|'rem', key] |
    ['clr'] ['len'] ['keys'] ['vals'] ['items'] | ['lit', [[key, v]..]]"""
    style = rng.choice(["mixed", "mixed", "mixed", "numeric", "tuples", "ranges", "collide", "churn", "alias", "values"])
    if style == "numeric":
        groups = rng.sample(list(NUM_GROUPS), rng.randint(3, 6)) + ["false", "nil"]
    elif style == "tuples":
        groups = [rng.choice(TUPLE_SHAPES) for _ in range(rng.randint(3, 7))] + ["one", "s_ab"]
    elif style == "collide":
        # keys whose hashes collide: false / 0 / -0 (hash 0), () (1,1) (2,2) (hash = seed), (1,2) (2,1)
        groups = ["zero", "false", [], ["one", "one"], ["two", "two"], ["one", "two"], ["two", "one"], "nil", "two"]
    elif style == "churn":
        groups = rng.sample(ALL_GROUPS, 3) + [rng.choice(TUPLE_SHAPES)]
    else:
        groups = rng.sample(ALL_GROUPS, rng.randint(3, 7)) + [rng.choice(TUPLE_SHAPES) for _ in range(rng.randint(0, 3))]
    if style != "ranges" and rng.random() < 0.3:
        groups.append("nan")
    ranges = rng.sample(RANGES, rng.randint(2, 5)) if style in ("ranges", "mixed") and rng.random() < 0.8 else []
    if style == "ranges":
        ranges = rng.sample(RANGES, rng.randint(3, len(RANGES)))
    stmts = []
    decls = []

    def declare(k):
        decls.append(k)
        stmts.append(["decl", k])
        return ["ref", len(decls) - 1]

    # some keys live in variables (identity matters for tuples holding NaN and for ranges)
    refs = []
    for _ in range(rng.randint(0, 3)):
        c = rng.random()
        if c < 0.3:
            refs.append(declare(["tup", [rng.choice(NUM_GROUPS["nan"]), gen_from_group(rng, rng.choice(["one", "s_ab", "nil"]))]]))
        elif c < 0.6 and ranges:
            b, e = rng.choice(ranges)
            refs.append(declare(["rng", b, e]))
        else:
            refs.append(declare(gen_from_group(rng, rng.choice(groups))))

    def key():
        c = rng.random()
        if refs and c < 0.12:
            return rng.choice(refs)
        if ranges and c < (0.6 if style == "ranges" else 0.25):
            b, e = rng.choice(ranges)
            k = ["rng", b, e]
            return ["tup", [k, gen_from_group(rng, "one")]] if rng.random() < 0.15 else k
        if c > (0.80 if style == "alias" else 0.92):
            return rng.choice(ALIAS) if rng.random() < (0.8 if style == "alias" else 0.4) else rng.choice(UNHASHABLE)
        return gen_from_group(rng, rng.choice(groups))

    vcount = [0]
    wstate = {}     # container variables: i -> ["vec", [..]] | ["map", x | None]

    def w_disp(i):
        kind, c = wstate[i]
        if kind == "vec":
            return "[%s]" % ", ".join(str(x) for x in c)
        return "{}" if c is None else "{1: %d}" % c

    if style == "values":
        # containers in pairs with equal contents: separately built, so == but not the same object
        groups = groups[:3]
        for i, init in enumerate([["vec", [1]], ["vec", [1]], ["map", None], ["map", None], ["vec", []], ["vec", []]]):
            wstate[i] = [init[0], list(init[1]) if init[0] == "vec" else init[1]]
            stmts.append(["vdecl", i, w_disp(i), w_disp(i)])

    def mutate():
        i = rng.choice(sorted(wstate))
        x = rng.randint(2, 9)
        if wstate[i][0] == "vec":
            wstate[i][1].append(x)
            stmts.append(["vmut", i, "push(%d)" % x, w_disp(i)])
        else:
            wstate[i][1] = x
            stmts.append(["vmut", i, "insert(1, %d)" % x, w_disp(i)])

    def val():
        c = rng.random()
        if wstate and c < 0.6:
            return ["w", rng.choice(sorted(wstate))]
        if c < (0.8 if style == "values" else 0.06):
            return rng.choice(SIGNED_ZEROS)
        if rng.random() < 0.15:
            return 0
        vcount[0] += 1
        return vcount[0]

    n = rng.randint(4, maxops)
    if rng.random() < 0.4:
        stmts.append(["lit", [[key(), val()] for _ in range(rng.randint(0, 6))]])
    for _ in range(n):
        c = rng.random()
        if style == "churn":
            c = c * 0.8
        if wstate and rng.random() < 0.2:
            mutate()
        if style == "values":
            c = c * 0.7 if c > 0.3 else c        # insert / get heavy, few removes
        if c < 0.36:
            stmts.append(["ins", key(), val()])
        elif c < 0.44:
            stmts.append(["rem", key()])
        elif c < 0.56:
            stmts.append(["get", key()])
        elif c < 0.70:
            stmts.append(["has", key()])
        elif c < 0.76:
            stmts.append(["len"])
        elif c < 0.81:
            stmts.append(["keys"])
        elif c < 0.85:
            stmts.append(["items"])
        elif c < 0.88:
            stmts.append(["vals"])
        elif c < 0.90:
            stmts.append(["clr"])
        elif c < 0.94:
            stmts.append(["lit", [[key(), val()] for _ in range(rng.randint(0, 5))]])
        elif ranges or style == "ranges":
            b, e = rng.choice(ranges or RANGES)
            refs.append(declare(["rng", b, e]))
        else:
            stmts.append(["len"])
    stmts += [["len"], ["items"]]
    return {"style": style, "stmts": stmts}


def gen_boundary_program(gap, via_tuple):
    """`r = a..b` used as a key, `gap` distinct other ranges evaluated, then `a..b` evaluated again: the same entry
    exactly when gap <= 7 (the box is still cached)"""
    stmts = [["decl", ["rng", 0, 3]], ["ins", ["ref", 0], 1]]
    for i in range(gap):
        stmts.append(["decl", ["rng", 100 + i, 200 + i]])
    k = ["rng", 0, 3]
    if via_tuple:
        stmts[1] = ["ins", ["tup", [["ref", 0], N("1", 1.0)]], 1]
        k = ["tup", [k, N("1.0", 1.0)]]
    stmts += [["has", k], ["has", ["ref", 0] if not via_tuple else ["tup", [["ref", 0], N("2 - 1", 1.0)]]], ["ins", k, 2], ["len"], ["keys"]]
    return {"style": "boundary%d%s" % (gap, "t" if via_tuple else ""), "stmts": stmts}


def range_evals(prog):
    """number of range expressions a program evaluates (each goes through the 8-entry cache)"""
    def cnt(k):
        if k[0] == "rng":
            return 1
        if k[0] == "tup":
            return sum(cnt(e) for e in k[1])
        return 0
    n = 0
    for s in prog["stmts"]:
        if s[0] in ("decl", "ins", "get", "has", "rem"):
            n += cnt(s[1])
        elif s[0] in ("lit", "flit"):
            n += sum(cnt(k) for k, _ in s[1])
    return n


# values that compare == but print differently: what an entry holds after insert(k, v) is v itself
SIGNED_ZEROS = [["sv", 900001, "0", "0"], ["sv", 900002, "-0", "-0"], ["sv", 900003, "(0 * -1)", "-0"], ["sv", 900004, "0.0", "0"]]


def gen_value_identity_programs():
    """insert(k, v2) over an entry holding v1 with v2 == v1 but another object / another representation: the entry
    must hold v2 afterwards (seen by mutating v2, or by the sign of zero), and insert must hand back v1"""
    ab, one = S('"ab"', "ab"), N("1", 1.0)
    pz, nz = SIGNED_ZEROS[0], SIGNED_ZEROS[1]
    k = S('"k"', "k")
    progs = []
    progs.append([["vdecl", 0, "[1]", "[1]"], ["vdecl", 1, "[1]", "[1]"], ["ins", k, ["w", 0]], ["ins", k, ["w", 1]],
                  ["vmut", 1, "push(2)", "[1, 2]"], ["get", k], ["vmut", 0, "push(7)", "[1, 7]"], ["get", k], ["vals"],
                  ["ins", k, ["w", 0]], ["get", k], ["rem", k], ["len"]])
    progs.append([["ins", N("0", 0.0), pz], ["ins", N("-0", -0.0), nz], ["get", N("0.0", 0.0)], ["ins", N("1 - 1", 0.0), pz],
                  ["get", N("-0.0", -0.0)], ["items"], ["lit", [[N("0", 0.0), nz], [N("-0", -0.0), pz]]], ["items"],
                  ["ins", N("0", 0.0), SIGNED_ZEROS[2]], ["vals"]])
    progs.append([["vdecl", 0, "{}", "{}"], ["vdecl", 1, "{}", "{}"], ["ins", ["tup", [one, ab]], ["w", 0]],
                  ["ins", ["tup", [N("1.0", 1.0), S('"a" + "b"', "ab")]], ["w", 1]], ["vmut", 1, "insert(1, 2)", "{1: 2}"],
                  ["get", ["tup", [one, ab]]], ["items"], ["vmut", 0, "insert(1, 5)", "{1: 5}"], ["vals"], ["len"]])
    progs.append([["vdecl", 0, "[]", "[]"], ["vdecl", 1, "[]", "[]"], ["lit", [[one, ["w", 0]], [N("2 - 1", 1.0), ["w", 1]]]],
                  ["vmut", 1, "push(3)", "[3]"], ["get", one], ["ins", N("1.0", 1.0), ["w", 0]], ["vmut", 0, "push(4)", "[4]"],
                  ["get", one], ["ins", one, 0], ["ins", one, 0], ["get", one], ["has", one], ["items"]])
    return [{"style": "value-identity%d" % i, "stmts": p} for i, p in enumerate(progs)]


def gen_biglit_program(rng, n):
    """a literal of n entries (the operand of BuildHashMap is one byte; 255 is the compiler's limit, 256 a compile
    error) with ==-equal duplicate keys sprinkled in, evaluated inside a function between two locals, then the
    usual operations"""
    pairs = []
    used = []
    for i in range(n):
        c = rng.random()
        if used and c < 0.08:
            j = rng.choice(used)
            key = rng.choice([N("%d.0" % j, float(j)), N("(%d + %d)" % (j - 1, 1), float(j))])     # == an earlier key
        elif c < 0.14:
            key = ["tup", [N(str(i), float(i)), rng.choice(STR_GROUPS["s_ab"])]]
        elif c < 0.18:
            key = S('"s%d"' % i, "s%d" % i)
        else:
            key = N(str(i), float(i))
            used.append(i)
        pairs.append([key, 1000 + i])
    stmts = [["flit", pairs], ["len"]]
    probe = sorted(set([0, 1, n - 1, n - 2, n // 2, max(n - 128, 0), max(n - 129, 0), 126, 127, 128] + [rng.randrange(max(n, 1)) for _ in range(6)]))
    for j in probe:
        if 0 <= j < n + 2:
            stmts.append([rng.choice(["get", "has"]), N(rng.choice(["%d", "%d.0"]) % j, float(j))])
    stmts += [["ins", N(str(n + 5), float(n + 5)), 7], ["rem", N("0", 0.0)], ["ins", N("1.0", 1.0), 8], ["len"], ["vals"], ["items"],
              ["flit", pairs[:3]], ["items"]]
    return {"style": "biglit%d" % n, "stmts": stmts}


def gen_alias_program(key):
    """every entry point with one unhashable key that aliases the receiver, on an empty and on a filled map; the
    sequence goes on after each rejection and ends with the contents (unchanged by the failed operations)"""
    one, ab = N("1", 1.0), S('"ab"', "ab")
    stmts = [["ins", key, 1], ["len"], ["ins", one, 2], ["ins", ["tup", [one, ab]], 3], ["ins", key, 4], ["get", key], ["has", key],
             ["rem", key], ["lit", [[ab, 5], [key, 6]]], ["len"], ["items"], ["ins", one, 0], ["ins", key, 7], ["lit", [[key, 8]]],
             ["rem", one], ["get", key], ["len"], ["keys"], ["vals"], ["items"]]
    return {"style": "alias:" + k_src(key), "stmts": stmts}


def decls_of(prog):
    return [s[1] for s in prog["stmts"] if s[0] == "decl"]


def prog_source(prog):
    decls = decls_of(prog)
    lines = [PRELUDE.rstrip("\n"), "var m = {};"]
    nd = 0
    for i, s in enumerate(prog["stmts"]):
        t = s[0]
        if t == "decl":
            lines.append("var k%d = %s;" % (nd, k_src(s[1])))
            nd += 1
            continue
        if t == "vdecl":
            lines.append("var w%d = %s;" % (s[1], s[2]))
            continue
        if t == "vmut":
            lines.append("w%d.%s;" % (s[1], s[2]))
            continue
        lines.append('print("#%d");' % i)
        if t in ("ins", "get", "has", "rem"):
            call = {"ins": "m.insert(%s, %s)", "get": "m.get(%s)", "has": "m.has_key(%s)", "rem": "m.remove(%s)"}[t]
            args = (k_arg(s[1]), v_src(s[2])) if t == "ins" else (k_arg(s[1]),)
            stmt = "print(%s);" % (call % args)
            if not k_hashable(s[1], decls):
                stmt = 'try { %s } catch e { print("E"); print(e.context); }' % stmt
            lines.append(stmt)
        elif t == "clr":
            lines.append("print(m.clear());")
        elif t == "len":
            lines.append("print(m.len());")
        elif t == "keys":
            lines.append("for k in m.keys() { print(k); }")
        elif t == "vals":
            lines.append("for v in m.values() { print(v); }")
        elif t == "items":
            lines.append("for it in m.items() { print(it); }")
        elif t == "flit":
            # the literal is evaluated inside a function, between two locals that must survive it
            body = ", ".join("%s: %s" % (k_arg(k), v_src(v)) for k, v in s[1])
            lines.append('fn mk%d() { var a = "L"; var t = {%s}; var b = "R"; print(a + b); return t; }' % (i, body))
            lines.append('m = mk%d(); print("ok");' % i)
        elif t == "lit":
            body = ", ".join("%s: %s" % (k_arg(k), v_src(v)) for k, v in s[1])
            stmt = 'm = {%s}; print("ok");' % body
            if not all(k_hashable(k, decls) for k, _ in s[1]):
                stmt = 'try { %s } catch e { print("E"); print(e.context); }' % stmt
            lines.append(stmt)
    lines.append('print("#end");')
    return "\n".join(lines)


def prog_wire(prog):
    ws = WireState()
    groups = []
    for s in prog["stmts"]:
        t = s[0]
        if t in ("vdecl", "vmut"):
            continue
        if t == "decl":
            g = [11] + k_wire(s[1], ws)
        elif t == "ins":
            g = [0, v_id(s[2])] + k_wire(s[1], ws)
        elif t in ("get", "has", "rem"):
            g = [{"get": 1, "has": 2, "rem": 3}[t]] + k_wire(s[1], ws)
        elif t in ("lit", "flit"):
            g = [9, len(s[1])]
            for k, v in s[1]:
                g += [v_id(v)] + k_wire(k, ws)
        else:
            g = [{"clr": 4, "len": 5, "keys": 6, "vals": 7, "items": 8}[t]]
        groups.append(" ".join(str(x) for x in g))
    return ";".join(groups)


def expected_of(tok, stmt, decls, vtab=None):
    """(lines, is_multiset, loose) the program should print for a statement, given the model's result token"""
    if tok in ("-",) or tok.startswith("v"):
        return [val_disp(tok, vtab)], False
    if tok in ("T", "F"):
        return ["true" if tok == "T" else "false"], False
    if tok.startswith("L"):
        return [tok[1:]], False
    if tok == "N":
        return (["nil"] if stmt[0] == "clr" else ["LR", "ok"] if stmt[0] == "flit" else ["ok"]), False
    if tok.startswith("K["):
        return sorted(str(ser_to_disp(x)) for x in split_top(tok[2:-1])), True
    if tok.startswith("W["):
        return sorted(val_disp(x, vtab) for x in split_top(tok[2:-1])), True
    if tok.startswith("I["):
        out = []
        for x in split_top(tok[2:-1]):
            i = x.rindex("=")
            out.append("(%s, %s)" % (ser_to_disp(x[:i]), val_disp(x[i + 1:], vtab)))
        return sorted(out), True
    if tok.startswith("E"):
        # which key was rejected: the statement's (first unhashable) key
        keys = [stmt[1]] if stmt[0] not in ("lit", "flit") else [k for k, _ in stmt[1]]
        bad = next((k for k in keys if not k_hashable(k, decls)), None)
        d = k_first_unhashable_display(bad, decls) if bad is not None else None
        return ["E", None if d is None else ERR_PREFIX + d + ERR_SUFFIX], False
    return ["?" + tok], False


def lines_match(exp, got, multiset):
    if multiset:
        got = sorted(got)
    if len(exp) != len(got):
        return False
    for e, g in zip(exp, got):
        if e is None:
            if not (g.startswith(ERR_PREFIX) and g.endswith(ERR_SUFFIX)):
                return False
        elif e != g:
            return False
    return True


def split_output(rec, prog):
    """program output per statement index, or None when the run did not finish normally"""
    out = {}
    cur = None
    for l in rec.output:
        if l.startswith("#"):
            cur = l[1:]
            out[cur] = []
        elif cur is not None:
            out[cur].append(l)
    return out


def nontrivial_of(prog, info):
    """rule: >= 2 differently-built == keys met the same entry, or an entry was removed and re-inserted"""
    ops = [s for s in prog["stmts"] if s[0] not in NONOPS]
    texts = {}
    removed = set()
    multi = False
    reins = False
    for s, inf in zip(ops, info):
        if s[0] not in ("ins", "get", "has", "rem") or inf in ("-", "m"):
            continue
        src = k_src(s[1])
        ser = inf[1:]
        if inf[0] == "n":
            if ser in removed:
                reins = True
            texts[ser] = {src}
        else:
            texts.setdefault(ser, set()).add(src)
            if len(texts[ser]) >= 2:
                multi = True
            if s[0] == "rem":
                removed.add(ser)
                texts.pop(ser, None)
    return multi or reins


def gen_params():
    with open(os.path.join(yvlib.COQ, "gen", "manifest.json")) as fh:
        man = json.load(fh)
    return man.get("value_arms", {}), man.get("consts", {})


def coq_env():
    va, consts = gen_params()
    size = consts.get("RANGE_CACHE_SIZE", 8)
    if not isinstance(size, int):
        size = 8
    return "%d (ValueArms.hash_number_normalises_neg_zero) (mkH ValueArms.bool_hash_true ValueArms.bool_hash_false ValueArms.none_hash ValueArms.tuple_fold_seed ValueArms.tuple_fold_add)" % size


IMPORTS = ["YV:ValueEq", "YV:HashMapRun", "YVGen:ValueArms"]


def check_programs(ctx, progs, tag, record=True):
    binary = ctx.harness("debug")
    srcs = [prog_source(p) for p in progs]
    wires = [prog_wire(p) for p in progs]
    recs = yvlib.run_harness(binary, ["run - " + hx(s) for s in srcs], case_timeout_ms=20000)
    env = coq_env()
    vals = yvlib.coq_eval(IMPORTS, ['run_prog_w %s "%s"%%string' % (env, w) for w in wires], shard_size=60, tag="C12" + tag)
    nontriv = set()
    stats = {"hits": 0, "ops": 0, "errors": 0}
    for prog, src, wire, rec, val in zip(progs, srcs, wires, recs, vals):
        if val is None or "BAD" in val:
            ctx.corr_broken.append("model evaluation failed for a program (coq_eval): " + wire[:200])
            continue
        mtoks, stoks, info = [x.split(" ") if x else [] for x in val.split("|")]
        ops = [(i, s) for i, s in enumerate(prog["stmts"]) if s[0] not in NONOPS]
        vtabs = value_tables(prog)
        decls = decls_of(prog)
        if nontrivial_of(prog, info):
            nontriv.add(wire)
        stats["ops"] += len(ops)
        stats["hits"] += sum(1 for x in info if x.startswith("h"))
        stats["errors"] += sum(1 for x in stoks if x.startswith("E"))
        if mtoks != stoks:
            # enumeration order may differ between M and S: compare as the program would print
            for (i, s), a, b in zip(ops, mtoks, stoks):
                ea, ma = expected_of(a, s, decls, vtabs.get(i))
                eb, mb = expected_of(b, s, decls, vtabs.get(i))
                if (sorted(map(str, ea)) if ma else ea) != (sorted(map(str, eb)) if mb else eb):
                    ctx.broken.append("M != S on a program (contradicts C12_buckets_refine_assoc): stmt %d %s | M %s | S %s | %s" % (
                        i, json.dumps(s), a[:100], b[:100], wire[:300]))
                    break
        def judge(rec):
            finished = rec.result[0] == "ok" and not rec.crashed
            out = split_output(rec, prog)
            for (i, s), mt, st in zip(ops, mtoks, stoks):
                got = out.get(str(i))
                exp, multi = expected_of(st, s, decls, vtabs.get(i))
                if got is None or not lines_match(exp, got, multi):
                    return (i, s, exp, got, "S")
                expm, multim = expected_of(mt, s, decls, vtabs.get(i))
                if not lines_match(expm, got, multim):
                    return (i, s, expm, got, "M")
            if not finished:
                return (-1, None, "program runs to completion", str(rec.result) + " " + " | ".join(rec.messages)[:300], "S")
            return None

        bad = judge(rec)
        if bad is not None and range_evals(prog) > 8:
            # more than 8 range expressions: an eviction may have happened, and the victim is chosen by comparing
            # `Instant::elapsed()` values taken one after the other -- under heavy machine load the order of two young
            # entries can flip.  A genuine defect is deterministic: the case counts only if it fails three times.
            for _ in range(2):
                again = judge(yvlib.run_harness(binary, ["run - " + hx(src)], shards=1, case_timeout_ms=20000)[0])
                if again is None:
                    ctx.notes.append("a program with > 8 range evaluations differed once and passed when re-run "
                                     "(timing-dependent choice of the evicted range): " + wire[:200])
                    bad = None
                    break
        if bad is None:
            continue
        i, s, exp, got, which = bad
        if got is None:
            got = "no output for this statement; run ended with %s %s" % (str(rec.result), " | ".join(rec.messages)[:300])
        if which == "S":
            if record:
                ctx.violation("HashMap operation result differs from the association list under == (Spec)",
                              input=src, expected={"stmt": i, "op": s, "lines": exp}, actual=got,
                              case={"kind": "prog", "prog": prog}, style=prog.get("style"))
            else:
                return False
        else:
            ctx.corr_broken.append("impl != M (HashMapModel.v) although impl == S: stmt %d %s expected %s got %s | %s" % (
                i, json.dumps(s), exp, got, wire[:300]))
    return (len(progs), nontriv, stats) if record else True


def shrink_first_violation(ctx):
    """delta debugging on the statements of the first failing program (at most ~30 re-runs)"""
    pv = [v for v in ctx.violations if v.get("case", {}).get("kind") == "prog"]
    if not pv:
        return
    v = pv[0]
    prog = v["case"]["prog"]
    budget = [30]

    def used_refs(k, acc):
        if k[0] == "ref":
            acc.add(k[1])
        elif k[0] == "tup":
            for e in k[1]:
                used_refs(e, acc)

    def fails(stmts):
        if budget[0] <= 0:
            return False
        budget[0] -= 1

        class Sub:
            pass
        sub = Sub()
        sub.__dict__.update(ctx.__dict__)
        sub.harness = ctx.harness
        sub.broken, sub.corr_broken, sub.violations = [], [], []
        return check_programs(sub, [{"style": prog.get("style"), "stmts": stmts}], "shrink", record=False) is False

    cur = list(prog["stmts"])
    # removing a decl would renumber the variables: only non-decl statements are candidates
    idx = [i for i, s in enumerate(cur) if s[0] not in ("decl", "vdecl")]
    n = 2
    while len(idx) >= 2 and budget[0] > 0:
        size = max(1, len(idx) // n)
        reduced = False
        for a in range(0, len(idx), size):
            drop = set(idx[a:a + size])
            cand = [s for i, s in enumerate(cur) if i not in drop]
            if any(s[0] not in NONOPS for s in cand) and fails(cand):
                cur = cand
                idx = [i for i, s in enumerate(cur) if s[0] not in ("decl", "vdecl")]
                n = max(n - 1, 2)
                reduced = True
                break
        if not reduced:
            if size == 1:
                break
            n = min(n * 2, len(idx))
    small = {"style": prog.get("style"), "stmts": cur}
    sub_v = []

    class Sub2:
        pass
    sub = Sub2()
    sub.__dict__.update(ctx.__dict__)
    sub.harness = ctx.harness
    sub.broken, sub.corr_broken, sub.violations = [], [], sub_v
    sub.violation = lambda what, **kw: sub_v.append(dict(kw, what=what))
    check_programs(sub, [small], "shrunk")
    if sub_v:
        v.update(sub_v[0])


# ------------------------------------------------------------------------------------------------------------
# value level
#   value AST: ["z"] ["f"] ["t"] ["n", bits] ["s", hex] ["c", global, class name] ["r", b, e] ["T", [..]] ["v"] ["m"] ["@", i]

def v_item(v):
    t = v[0]
    if t in "zftvm":
        return t
    if t == "n":
        return "n%d" % v[1]
    if t == "s":
        return "s" + ("" if v[1] == "-" else v[1])
    if t == "c":
        return "c" + hx(v[1])
    if t == "r":
        return "r%d:%d" % (v[1], v[2])
    if t == "T":
        return "(%s)" % ",".join(v_item(e) for e in v[1])
    if t == "@":
        return "@%d" % v[1]
    raise ValueError(v)


def v_wire(v, ws):
    t = v[0]
    if t == "z":
        return [0]
    if t == "f":
        return [1]
    if t == "t":
        return [2]
    if t == "n":
        return [3, v[1]]
    if t == "s":
        bs = yvlib.unhx(v[1])
        return [4, len(bs)] + list(bs)
    if t == "c":
        bs = v[2].encode()
        return [5, ws.cls_id(v[2]), len(bs)] + list(bs)
    if t == "r":
        return [6, v[1] + OFF40, v[2] + OFF40]
    if t == "T":
        r = [7, len(v[1])]
        for e in v[1]:
            r += v_wire(e, ws)
        return r
    if t in "vm":
        ws.tag += 1
        return [8, ws.tag]
    if t == "@":
        return [9, v[1]]
    raise ValueError(v)


def v_has_nan(v, items):
    t = v[0]
    if t == "n":
        return math.isnan(float_of(v[1]))
    if t == "T":
        return any(v_has_nan(e, items) for e in v[1])
    if t == "@":
        return v_has_nan(items[v[1]], items)
    return False


SPECIAL_BITS = [0, 1 << 63, 1, (1 << 63) | 1, (1 << 52) - 1, 1 << 52, 0x3FF0000000000000, 0xBFF0000000000000,
                bits_of(2.0 ** 53), bits_of(2.0 ** 53 - 1), bits_of(2.0 ** 53 + 2), 0x7FF0000000000000, 0xFFF0000000000000,
                0x7FF8000000000000, 0xFFF8000000000000, 0x7FF8000000000001, 0x7FF0000000000001, 0x7FEFFFFFFFFFFFFF,
                bits_of(0.5), bits_of(3.0), bits_of(0.1), bits_of(2.0), 0x0008000000000000, 0x8000000000000001]
VAL_PRELUDE = PRELUDE + "var kVec = Vec; var kString = String; var kA = A; var kB = B; var kHashMap = HashMap;"
VCLASSES = [["c", "kVec", "Vec"], ["c", "kString", "String"], ["c", "kA", "A"], ["c", "kB", "B"], ["c", "kHashMap", "HashMap"]]


def gen_vals(rng, n):
    items = []

    def atom():
        c = rng.random()
        if c < 0.45:
            return ["n", rng.choice(SPECIAL_BITS) if rng.random() < 0.8 else rng.getrandbits(64)]
        if c < 0.62:
            return ["s", hx(rng.choice(["ab", "", "a", "b", "ba", "é", "1", "nil", "abc", "x" * 20]))]
        if c < 0.70:
            return [rng.choice("zft")]
        if c < 0.78:
            return list(rng.choice(VCLASSES))
        if c < 0.90:
            b, e = rng.choice(RANGES)
            return ["r", b, e]
        return [rng.choice("vm")]

    def value(depth):
        c = rng.random()
        if items and c < 0.12:
            return ["@", rng.randrange(len(items))]
        if c < 0.35 and depth < 3:
            return ["T", [value(depth + 1) for _ in range(rng.choice([0, 1, 1, 2, 2, 3]))]]
        return atom()
    for _ in range(n):
        items.append(value(0))
    return items


def curated_vals():
    one = 0x3FF0000000000000
    lists = []
    # zeros, alone and inside (nested) tuples; false / 0 / -0 share hash 0
    lists.append([["n", 0], ["n", 1 << 63], ["f"], ["T", [["n", 0]]], ["T", [["n", 1 << 63]]], ["T", [["T", [["n", 0]]], ["z"]]],
                  ["T", [["T", [["n", 1 << 63]]], ["z"]]], ["T", []], ["T", [["n", one], ["n", one]]], ["T", [["n", bits_of(2.0)], ["n", bits_of(2.0)]]],
                  ["T", [["n", one], ["n", bits_of(2.0)]]], ["T", [["n", bits_of(2.0)], ["n", one]]], ["z"], ["t"]])
    # NaNs: payloads, in tuples, the same tuple object twice
    lists.append([["n", 0x7FF8000000000000], ["n", 0xFFF8000000000000], ["n", 0x7FF8000000000001], ["@", 0], ["T", [["@", 0]]], ["@", 4],
                  ["T", [["n", 0x7FF8000000000000]]], ["T", [["@", 4], ["n", one]]], ["T", [["@", 4], ["n", one]]]])
    # strings and tuples built separately; 1 vs "1"; classes
    lists.append([["s", hx("ab")], ["s", hx("ab")], ["T", [["n", one], ["s", hx("ab")]]], ["T", [["n", one], ["s", hx("ab")]]], ["s", hx("1")], ["n", one],
                  ["s", "-"], ["T", []], ["T", [["T", []]]]] + [list(c) for c in VCLASSES] + [["c", "kVec", "Vec"], ["T", [["c", "kA", "A"]]], ["T", [["c", "kA", "A"]]]])
    # unhashable values, alone and nested
    lists.append([["v"], ["m"], ["T", [["v"]]], ["T", [["n", one], ["T", [["m"]]]]], ["@", 0], ["T", [["@", 0]]], ["v"], ["T", [["n", one]]]])
    # ranges: within and beyond the 8-entry cache, both sides of the boundary
    for gap in (0, 1, 6, 7, 8, 9, 15):
        lists.append([["r", 0, 3]] + [["r", 100 + i, 200 + i] for i in range(gap)] + [["r", 0, 3], ["T", [["@", 0]]], ["T", [["r", 0, 3]]], ["@", 0]])
    # a re-used range in the middle keeps its box while others rotate
    lists.append([["r", i % 9, 50] for i in range(30)])
    lists.append([["r", 1, 2]] + [["r", i, i + 1] for i in range(10, 17)] + [["r", 1, 2], ["r", 20, 21], ["r", 1, 2], ["r", 10, 11]])
    return lists


def check_vals(ctx, lists, tag):
    binary = ctx.harness("debug")
    lines = ["c12vals p%s %s" % (hx(VAL_PRELUDE), " ".join(v_item(v) for v in l)) for l in lists]
    recs = yvlib.run_harness(binary, lines, case_timeout_ms=20000)
    env = coq_env()
    terms = []
    for l in lists:
        ws = WireState()
        terms.append('run_vals_w %s "%s"%%string' % (env, ";".join(" ".join(str(x) for x in v_wire(v, ws)) for v in l)))
    vals = yvlib.coq_eval(IMPORTS, terms, shard_size=40, tag="C12" + tag)
    pairs_eq = 0
    for l, line, rec, val in zip(lists, lines, recs, vals):
        if val is None or val == "BAD":
            ctx.corr_broken.append("model evaluation failed for a value list: " + line[:200])
            continue
        if rec.crashed or rec.result[0] == "panic" or len(rec.tagged("V")) != len(l):
            ctx.corr_broken.append("c12vals failed: %s on %s" % (str(rec.result), line[:300]))
            continue
        per, rows = val.split("|")
        per = per.split(" ")
        rows = rows.split(" ")
        V = rec.tagged("V")
        H = rec.tagged("H")
        E = rec.tagged("E")
        n = len(l)
        for i in range(n):
            mh, mhash = per[i].split(":")
            ih = H[i][1]
            disp = yvlib.unhx(V[i][2]).decode("utf-8", "replace") if len(V[i]) > 2 else ""
            if ih != ("1" if mh == "T" else "0"):
                ctx.corr_broken.append("has_hash differs: value %d `%s` (%s): impl %s model %s | %s" % (i, v_item(l[i]), disp, ih, mh, line[:200]))
            if mh == "T":
                if not v_has_nan(l[i], l) and V[i][1] != mhash:
                    ctx.corr_broken.append("hash differs: value %d `%s` (%s): impl %s model %s | %s" % (i, v_item(l[i]), disp, V[i][1], mhash, line[:200]))
            else:
                if V[i][1] != "P":
                    ctx.notes.append("Hash::hash does not panic on a value the model calls unhashable: `%s`" % v_item(l[i]))
                msg = yvlib.unhx(H[i][2]).decode("utf-8", "replace") if ih == "0" and len(H[i]) > 2 else ""
                if ih == "0" and (ERR_PREFIX + disp + ERR_SUFFIX) not in msg:
                    ctx.violation("unhashable key rejected with a different message", input=line, expected=ERR_PREFIX + disp + ERR_SUFFIX,
                                  actual=msg, case={"kind": "vals", "items": l})
            irow = E[i][1]
            mrow = "".join("1" if c == "T" else "0" for c in rows[i])
            # == between two values that hold a vector / map is structural in the code and by tag in the model
            # (KUnhashable): never reached through a map, not compared
            hashable = [p.split(":")[0] == "T" for p in per]
            diff = [j for j in range(n) if irow[j] != mrow[j] and (hashable[i] or hashable[j])]
            if diff:
                j = diff[0]
                ctx.corr_broken.append("== differs: `%s` == `%s`: impl %s model %s | %s" % (v_item(l[i]), v_item(l[j]), irow[j], mrow[j], line[:300]))
            # the property's premise, directly on the implementation: == values (both hashable) hash equally
            for j in range(n):
                if irow[j] == "1" and i != j:
                    pairs_eq += 1
                    if H[i][1] == "1" and H[j][1] == "1" and V[i][1] != V[j][1]:
                        ctx.violation("two == values hash differently (they would be two entries of one HashMap)",
                                      input=line, expected="hash(%s) == hash(%s)" % (v_item(l[i]), v_item(l[j])),
                                      actual="%s vs %s" % (V[i][1], V[j][1]), case={"kind": "vals", "items": [l[i], l[j]] if not any(
                                          "@" in v_item(x) or "r" in v_item(x) for x in (l[i], l[j])) else l})
    return len(lists), pairs_eq


def obligations_tables(ctx):
    va, _ = gen_params()
    if not va:
        ctx.broken.append("translator produced no value_arms entry (gen/manifest.json)")
        return
    for k in ("has_hash_arms", "hash_arms", "eq_arms"):
        for a, b in va.get(k, []):
            if str(b).startswith("unknown") or str(a).startswith("?"):
                ctx.notes.append("translator: unrecognised arm %s.%s = %s" % (k, a, b))


def run(ctx):
    quick = ctx.quick()
    rng = ctx.rng
    obligations_tables(ctx)
    if ctx.replay_only:
        case = ctx.replay_only.get("case", {})
        if case.get("kind") == "prog":
            check_programs(ctx, [case["prog"]], "replay")
        elif case.get("kind") == "vals":
            check_vals(ctx, [case["items"]], "replay")
        return
    # corpus
    corpus = []
    cdir = os.path.join(yvlib.VERIF, "corpus", "C12")
    if os.path.isdir(cdir):
        for f in sorted(os.listdir(cdir)):
            with open(os.path.join(cdir, f)) as fh:
                corpus.append(json.load(fh))
    # value level
    vlists = curated_vals() + [c["items"] for c in corpus if c.get("kind") == "vals"]
    vlists += [gen_vals(rng, rng.randint(4, 22)) for _ in range(40 if quick else 700)]
    nv, pairs_eq = check_vals(ctx, vlists, "vals")
    # programs
    progs = [c["prog"] for c in corpus if c.get("kind") == "prog"]
    for gap in (0, 6, 7, 8, 9):
        for via_tuple in (False, True):
            progs.append(gen_boundary_program(gap, via_tuple))
    progs += [gen_alias_program(k) for k in ALIAS]
    progs += gen_value_identity_programs()
    progs += [gen_biglit_program(rng, n) for n in (0, 1, 2, 127, 128, 129, 200, 254, 255)]
    if not quick:
        progs += [gen_biglit_program(rng, rng.randint(100, 255)) for _ in range(20)]
    nprog = 260 if quick else 4000
    progs += [gen_program(rng, 30 if rng.random() < 0.9 else 80) for _ in range(nprog)]
    np_, nontriv, stats = check_programs(ctx, progs, "prog")
    shrink_first_violation(ctx)
    pv = [v for v in ctx.violations if v.get("case", {}).get("kind") == "prog"]
    ov = [v for v in ctx.violations if v.get("case", {}).get("kind") != "prog"]
    ctx.violations[:] = pv[:5] + ov[:5]
    styles = {}
    for p in progs:
        styles[p.get("style")] = styles.get(p.get("style"), 0) + 1
    ctx.cov.update({
        "evaluations": nv + np_,
        "distinct_nontrivial": len(nontriv),
        "rule": "yarel programs = operation sequences (literal, insert, remove, get, has_key, clear, len, keys/values/items) over key pools of "
                "equal-but-differently-built keys (0/-0/0*-1, 1/1.0/2-1, 2^53/2^53+1, \"ab\"/\"a\"+\"b\"/interpolation, tuples and nested tuples built "
                "separately, classes, ranges through the 8-entry cache incl. both sides of the eviction boundary, colliding hashes false/0/()/(1,1)/(1,2)/(2,1)), "
                "NaN and unhashable values (vector, map, instance, closure, native, tuples holding a vector, and keys that ALIAS the receiver: the map itself, "
                "vectors/tuples of depth 1-3 holding it, a map holding it as a value, a self-containing vector); every program is run on the implementation "
                "and on M and S (coqc). Non-trivial = a program in which >= 2 differently-written == keys met the same entry, or an entry was removed and "
                "inserted again (measured from S's trace; distinct programs counted). Plus value lists (hash / has_hash / == matrix vs the model).",
        "traces_validated_against_impl": np_,
        "programs": np_, "value_lists": nv, "equal_value_pairs_checked": pairs_eq,
        "ops_total": stats["ops"], "ops_hitting_an_entry": stats["hits"], "ops_rejected_unhashable": stats["errors"],
        "program_styles": styles,
        "samples": [prog_source(progs[-1]), prog_wire(progs[-1]), "c12vals " + " ".join(v_item(v) for v in vlists[0])],
    })


def search(ctx):
    """obligations or correspondences broken: look for a failing input with the thorough generators (Spec oracle)"""
    old = ctx.tier
    ctx.tier = "thorough"
    keep_b, keep_c = list(ctx.broken), list(ctx.corr_broken)
    try:
        run(ctx)
    finally:
        ctx.tier = old
        # the second pass repeats the same diagnostics: keep one copy
        ctx.broken[:] = keep_b + [b for b in ctx.broken[len(keep_b):] if b not in keep_b][:5]
        ctx.corr_broken[:] = keep_c + [c for c in ctx.corr_broken[len(keep_c):] if c not in keep_c][:5]
