"""C13 - indexing, slicing and string functions match a byte-exact model.

Theorems (coq/props/C13.v over Utf8/Index/StrFns/StrSpec + *Proofs.v): for ALL valid UTF-8 strings, all
lengths and all numbers, the Mechanism model M (byte cursors, boundary re-establishment, exact error
messages) equals the Spec S defined on characters; every produced string is valid UTF-8; no Rust panic.
Tie, re-established on every run:
 (a) translator/translate_c13.py regenerates the (ErrorKind, message) literals of every string native and
     indexing helper into coq/gen/StrMsgs.v; props/C13.v proves they are the messages M raises;
 (b) impl == M and impl == S on an exhaustive small-alphabet sweep: every probe is run as a yarel snippet
     through the harness and as `StrRun.run_mech_w` / `run_spec_w` under vm_compute; printed result or error
     class + message must agree byte for byte;
 (c) every line the sweep prints is validated as UTF-8 (Python strict decoder for all, Utf8.valid_utf8 for a sample)."""
import itertools
import math
import re
import struct

import yvlib
from yvlib import hx, log

LEVEL = "proof"
TRUSTED = [
    "Coq 8.16.1 kernel (coqc), vm_compute; no native_compute, no extraction",
    "translator/translate_c13.py + rustlex.py (error kinds / message literals read from core.rs, vm.rs, value.rs, object.rs, utils.rs)",
    "the harness `yv` (Rust, `run` command) and tools/*.py: probe generation, rendering of harness records, comparison",
    "Python float()/struct for the binary64 bit pattern of a decimal literal (must agree with Rust's str::parse::<f64>)",
    "modelled by documented contract, not verified against the Rust std source: str::replace/split/starts_with/ends_with/"
    "is_char_boundary/chars, String::from_utf8 + Utf8Error::valid_up_to, char::from_u32, f64 Display/parse (NumText.v)",
]
ASSUMPTIONS = [
    "strings reach the natives only as valid UTF-8 (Rust String invariant; proved preserved by every native)",
    "sequence lengths <= isize::MAX (Rust allocation limit) - hypothesis len_ok of the theorems",
    "print() shows a value through fmt::Display exactly as error messages embed it",
]

ALPHA = ["a", "\u00e9", "\u20ac", "\U0001F600"]            # 1-, 2-, 3-, 4-byte characters
# boundary-byte characters: continuation bytes 0x80 / 0xBF, extremes of each encoding length
BALPHA = ["a", "\u0080", "\u00bf", "\u00c0", "\u00ff", "\u07ff",                          # C2 80, C2 BF, C3 80, C3 BF, DF BF
          "\u0800", "\u1000", "\ud7ff", "\ue000", "\ufffd", "\uffff",                     # E0 A0 80, E1 80 80, ED 9F BF, EE 80 80, EF BF BD, EF BF BF
          "\U00010000", "\U0001F43F", "\U0003FFFF", "\U00040000", "\U0010FFFF"]           # F0 90 80 80, F0 9F 90 BF, F0 BF BF BF, F1 80 80 80, F4 8F BF BF
BALPHA3 = ["a", "\u00bf", "\u07ff", "\u0800", "\ufffd", "\U00010000", "\U0001F43F", "\U0010FFFF"]
FN = {"index": 0, "len": 3, "is_alpha": 4, "is_digit": 5, "is_hexdigit": 6, "count_chars": 7, "char_byte_index": 8,
      "find": 9, "replace": 10, "split": 11, "starts_with": 12, "ends_with": 13, "to_num": 14, "to_bytes": 15,
      "to_code_points": 16, "from_ascii": 17, "from_utf8": 18, "from_code_points": 19, "iter_manual": 20,
      "iter_next_args": 21, "for": 22, "set_item": 23, "from": 24, "value": 25}
PRE = "Open Scope string_scope.\n"
STATIC = ("from_ascii", "from_utf8", "from_code_points", "from")


# ------------------------------------------------------------------------------------------
# values: ("nil",) ("bool", b) ("num", src, float) ("str", text) ("vec", [atoms]) ("tup", [atoms]) ("rng", atom, atom)

NIL = ("nil",)


def num(v, src=None):
    if src is None:
        if isinstance(v, int) or (isinstance(v, float) and v == int(v) and abs(v) < 2 ** 53):
            src = str(int(v)) if v >= 0 else "(-%d)" % -int(v)
        else:
            src = repr(v) if v >= 0 else "(-%r)" % -v
    return ("num", src, float(v))


def st(t):
    return ("str", t)


def vec(*a):
    return ("vec", list(a))


def tup(*a):
    return ("tup", list(a))


def rng(b, e):
    return ("rng", b, e)


NAN = ("num", "(0/0)", float("nan"))
PINF = ("num", "(1/0)", float("inf"))
NINF = ("num", "(-1/0)", float("-inf"))
NEG0 = ("num", "(-0)", -0.0)
P63 = ("num", "9223372036854775808", 2.0 ** 63)
N63 = ("num", "(-9223372036854775808)", -2.0 ** 63)
B63 = ("num", "9223372036854774784", 2.0 ** 63 - 1024)          # the largest double below 2^63
NB63 = ("num", "(-9223372036854777856)", -(2.0 ** 63) - 2048)   # the next double below -2^63
E30 = ("num", "1000000000000000019884624838656", 1e30)
NE30 = ("num", "(-1000000000000000019884624838656)", -1e30)
HALF = ("num", "0.5", 0.5)
NHALF = ("num", "(-0.5)", -0.5)
# (value, shape label)
NUM_SPECIALS = [(HALF, "0.5"), (NHALF, "-0.5"), (NAN, "NaN"), (PINF, "+inf"), (NINF, "-inf"), (P63, "2^63"), (N63, "-2^63"),
                (B63, "2^63-1024"), (NB63, "-2^63-2048"), (E30, "1e30"), (NE30, "-1e30"), (NEG0, "-0")]
NON_NUMBERS = [(NIL, "nil"), (st("a"), "str"), (("bool", True), "bool"), (vec(num(0)), "vec"), (tup(num(0)), "tuple")]


def src_of(v):
    k = v[0]
    if k == "nil":
        return "nil"
    if k == "bool":
        return "true" if v[1] else "false"
    if k == "num":
        return v[1]
    if k == "str":
        assert not set(v[1]) & set('"\\$\n'), v
        return '"%s"' % v[1]
    if k == "vec":
        return "[%s]" % ", ".join(src_of(a) for a in v[1])
    if k == "tup":
        if len(v[1]) == 1:
            return "(%s,)" % src_of(v[1][0])
        return "(%s)" % ", ".join(src_of(a) for a in v[1])
    if k == "rng":
        return "((%s)..(%s))" % (src_of(v[1]), src_of(v[2]))
    raise ValueError(v)


def bits(x):
    if math.isnan(x):
        return 0x7ff8000000000000
    return struct.unpack("<Q", struct.pack("<d", x))[0]


def atom_wire(a):
    k = a[0]
    if k == "nil":
        return "0"
    if k == "bool":
        return "3 %d" % int(a[1])
    if k == "num":
        return "1 %d" % bits(a[2])
    if k == "str":
        return " ".join(["2"] + [str(c) for c in a[1].encode("utf-8")])
    raise ValueError(a)


def wire_of(v):
    k = v[0]
    if k == "vec" or k == "tup":
        return ";".join(["%d %d" % (4 if k == "vec" else 5, len(v[1]))] + [atom_wire(a) for a in v[1]])
    if k == "rng":
        return "6;%s;%s" % (atom_wire(v[1]), atom_wire(v[2]))
    return atom_wire(v)


class Probe:
    __slots__ = ("fn", "extra", "recv", "args", "shape", "ascii_only")

    def __init__(self, fn, recv, args, shape, extra=0):
        self.fn, self.recv, self.args, self.shape, self.extra = fn, recv, list(args), shape, extra
        self.ascii_only = all(ord(c) < 128 for c in src_of(recv) + "".join(src_of(a) for a in args))

    def group(self):
        return Group(self.fn, self.recv, [[(a, None)] for a in self.args], self.shape, self.extra)

    def wire(self):
        return batch_wire([self.group()])

    def body(self):
        r = src_of(self.recv)
        a = ", ".join(src_of(x) for x in self.args)
        f = self.fn
        if f == "index":
            return "print(%s[%s]);" % (r, a)
        if f == "set_item":
            return "var v = %s; v[%s] = %s; print(v);" % (r, src_of(self.args[0]), src_of(self.args[1]))
        if f in STATIC:
            return "print(String.%s(%s));" % (f, a)
        if f == "iter_manual":
            return "var it = %s.iter(); %s" % (r, " ".join("print(it.next());" for _ in range(self.extra)))
        if f == "iter_next_args":
            return "print(%s.iter().next(%s));" % (r, a)
        if f == "for":
            return "for c in %s { print(c); }" % r
        if f == "value":
            return "print(%s);" % r
        return "print(%s.%s(%s));" % (r, f, a)

    def snippet(self):
        return 'print("@@probe"); try { %s } catch e { print("!!error"); print(type(e)); print(e.context); }' % self.body()

    def to_json(self):
        return {"fn": self.fn, "extra": self.extra, "recv": self.recv, "args": self.args, "shape": self.shape}

    @staticmethod
    def from_json(d):
        fix = lambda v: tuple(fix(x) for x in v) if isinstance(v, (list, tuple)) and v and isinstance(v[0], str) and v[0] in (
            "nil", "bool", "num", "str", "vec", "tup", "rng") else ([fix(x) for x in v] if isinstance(v, list) else v)
        return Probe(d["fn"], fix(d["recv"]), [fix(a) for a in d["args"]], d["shape"], d.get("extra", 0))


# ------------------------------------------------------------------------------------------
# pools


def strings(maxchars, alpha=ALPHA):
    out = []
    for n in range(maxchars + 1):
        out += ["".join(t) for t in itertools.product(alpha, repeat=n)]
    return out


def boundaries(t):
    b, pos = [0], 0
    for c in t:
        pos += len(c.encode("utf-8"))
        b.append(pos)
    return b


def int_label(k, length, bounds):
    if k == 0:
        return "0"
    if k == length:
        return "len"
    if k == -length:
        return "-len"
    if k == length + 1:
        return "len+1"
    if k == -length - 1:
        return "-len-1"
    if 0 < k < length:
        return ("in" if k in bounds else "mid") + ("(1)" if k == 1 else "")
    if -length < k < 0:
        return ("-in" if k + length in bounds else "-mid") + ("(-1)" if k == -1 else "")
    return "beyond" if k > 0 else "-beyond"


def int_pool(length, bounds, full):
    """integers to try against a sequence of `length` units whose legal cut points are `bounds`"""
    ks = {0, 1, -1, length, -length, length + 1, -length - 1, length - 1, 1 - length}
    for m in range(length + 1):
        if full or m not in bounds or m == bounds[-2 if len(bounds) > 1 else 0]:
            ks.add(m)
            ks.add(m - length)
    return sorted(ks)


def index_pool(length, bounds, full):
    out = [(num(k), int_label(k, length, bounds)) for k in int_pool(length, bounds, full)]
    return out + NUM_SPECIALS + NON_NUMBERS


ODD_LABELS = {l for _, l in NUM_SPECIALS + NON_NUMBERS}


SEQ_ELEMS = [num(1), st("\u00e9"), NIL]


def sequences(maxlen):
    out = []
    for n in range(maxlen + 1):
        out += [list(t) for t in itertools.product(SEQ_ELEMS, repeat=n)]
    return out


class Group:
    """one row of the wire format: fn/receiver plus the cartesian product of argument lists of (value, label)"""

    def __init__(self, fn, recv, lists, prefix, extra=0, as_range=False):
        self.fn, self.recv, self.lists, self.prefix, self.extra, self.as_range = fn, recv, lists, tuple(prefix), extra, as_range

    def size(self):
        n = 1
        for l in self.lists:
            n *= len(l)
        return n

    def probes(self):
        for combo in itertools.product(*self.lists):
            args = [v for v, _ in combo]
            if self.as_range:
                args = [rng(args[0], args[1])]
            yield Probe(self.fn, self.recv, args, self.prefix + tuple(l for _, l in combo if l is not None), self.extra)


def one(fn, recv, args, shape, extra=0):
    return Group(fn, recv, [[(a, None)] for a in args], shape, extra)


def gen_groups(quick):
    """the sweep, exhaustive over the stated pools (no sampling)"""
    G = []
    maxc = 3 if quick else 4
    strs = strings(maxc)
    short = strings(2)
    core_subs = ("a", "\u00e9\u20ac", "\U0001F600")
    for t in strs:
        s = st(t)
        L = len(t.encode("utf-8"))
        bd = boundaries(t)
        nch = len(t)
        big = len(t) > 3
        ipool = index_pool(L, bd, True)
        G.append(Group("index", s, [ipool], ("str",)))
        # ranges: every pair of integer endpoints + saturating ends; non-integral / non-number ends
        ends = [(num(k), int_label(k, L, bd)) for k in int_pool(L, bd, L <= 4 or not (quick or big))]
        ends += [(P63, "2^63"), (N63, "-2^63"), (PINF, "+inf"), (NINF, "-inf")]
        G.append(Group("index", s, [ends, ends], ("str-range",), as_range=True))
        bad = [(HALF, "0.5"), (NAN, "NaN"), (NIL, "nil"), (st("a"), "str")]
        G.append(Group("index", s, [bad, [(num(1), "+1")]], ("str-range",), as_range=True))
        G.append(Group("index", s, [[(num(0), "0")], bad], ("str-range",), as_range=True))
        G.append(Group("index", s, [[(HALF, "0.5")], [(NIL, "nil")]], ("str-range",), as_range=True))
        # char_byte_index: the bound is the number of characters
        G.append(Group("char_byte_index", s, [index_pool(nch, list(range(nch + 1)), True)], ("cbi",)))
        # find
        subs = [(st(u), "%d-char %s" % (len(u), "hit" if u in t else "miss")) for u in short[1:]]
        ints = [x for x in ipool if x[1] not in ODD_LABELS]
        if quick or big:
            G.append(Group("find", s, [[x for x in subs if x[0][1] in core_subs], ipool], ("find",)))
            G.append(Group("find", s, [[x for x in subs if x[0][1] not in core_subs], ints], ("find",)))
        else:
            G.append(Group("find", s, [subs, ipool], ("find",)))
        G.append(Group("find", s, [[(st(""), "empty"), (NIL, "nil"), (num(1), "num"), (vec(st("a")), "vec")],
                                   [(num(0), "0"), (NIL, "nil"), (num(L), "len"), (HALF, "0.5")]], ("find",)))
        # iteration
        G.append(one("iter_manual", s, [], ("iter", "%d chars" % nch), extra=nch + 2))
        G.append(one("for", s, [], ("for", "%d chars" % nch)))
        for f in ("len", "count_chars", "to_bytes", "to_code_points", "is_alpha", "is_digit", "is_hexdigit", "to_num"):
            G.append(one(f, s, [], (f, "%d chars" % nch)))
        # replace / split / starts_with / ends_with
        olds = [(st(u), "old %d-char %s" % (len(u), "hit" if u and u in t else "miss")) for u in short]
        G.append(Group("replace", s, [olds[1:], [(st(""), "new 0"), (st("a"), "new 1"), (st("\u00e9\u20ac"), "new 2")]], ("replace",)))
        G.append(Group("replace", s, [olds[:1], [(st("a"), "new 1")]], ("replace",)))
        G.append(Group("split", s, [olds], ("split",)))
        rel = lambda p: "eq" if p == t else ("affix" if t.startswith(p) or t.endswith(p) else ("longer" if len(p) > len(t) else "other"))
        pre = [(st(p), rel(p)) for p in (short if quick or big else strings(3))]
        G.append(Group("starts_with", s, [pre], ("starts_with",)))
        G.append(Group("ends_with", s, [pre], ("ends_with",)))
    # --- BOUNDARY-BYTE alphabet: characters whose continuation bytes are 0x80 / 0xBF and the extremes of every
    # encoding length (a hand-written continuation test `0x80..0xBF`, an off-by-one lead-byte class, ... only show
    # on these); every function that walks bytes sees every string of <= 2 of them
    for t in strings(2, BALPHA) + ([] if quick else strings(3, BALPHA3)[1 + len(BALPHA3) + len(BALPHA3) ** 2:]):
        s = st(t)
        L = len(t.encode("utf-8"))
        bd = boundaries(t)
        nch = len(t)
        offs = [(num(k), int_label(k, L, bd)) for k in range(0, L + 2)]
        negs = [(num(k), int_label(k, L, bd)) for k in range(-L - 1, 0)]
        G.append(Group("index", s, [offs + negs + [(HALF, "0.5"), (P63, "2^63"), (NIL, "nil")]], ("str", "bb")))
        G.append(one("iter_manual", s, [], ("iter", "bb %d chars" % nch), extra=nch + 2))
        G.append(one("for", s, [], ("for", "bb %d chars" % nch)))
        for f in ("len", "count_chars", "to_bytes", "to_code_points"):
            G.append(one(f, s, [], (f, "bb %d chars" % nch)))
        cbi = list(range(nch + 1))
        G.append(Group("char_byte_index", s, [[(num(k), int_label(k, nch, cbi)) for k in range(-nch - 1, nch + 2)]], ("cbi", "bb")))
        G.append(one("from_code_points", NIL, [vec(*[num(ord(c)) for c in t])], ("from_code_points", "bb round trip")))
        G.append(one("from_utf8", NIL, [vec(*[num(b) for b in t.encode("utf-8")])], ("from_utf8", "bb round trip")))
        if nch > 2:
            continue
        ends = offs[:-1] if nch == 2 else offs + negs
        G.append(Group("index", s, [ends, ends], ("str-range", "bb"), as_range=True))
        subs = [(st(c), "1-char %s" % ("hit" if c in t else "miss")) for c in BALPHA]
        G.append(Group("find", s, [subs, [(num(k), int_label(k, L, bd)) for k in bd[:-1]] or [(num(0), "0")]], ("find", "bb")))
        if nch == 2:
            G.append(Group("find", s, [[(s, "2-char hit")], [(num(0), "0"), (num(bd[1]), "in"), (num(1), "+1")]], ("find", "bb")))
        # the Rust-std calls: the characters of the receiver and four fixed near misses
        fewer = [x for x in subs if x[0][1] in t or x[0][1] in ("\u0080", "\u00bf", "\uffff", "\U0010FFFF")] if quick else subs
        G.append(Group("split", s, [fewer], ("split", "bb")))
        G.append(Group("replace", s, [fewer, [(st("a"), "new 1")]], ("replace", "bb")))
        G.append(Group("starts_with", s, [fewer], ("starts_with", "bb")))
        G.append(Group("ends_with", s, [fewer], ("ends_with", "bb")))
    # byte-level near misses: same lead byte, different continuation
    for a, b in [("\u00e9", "\u00e8"), ("\u20ac", "\u20ad"), ("\U0001F600", "\U0001F601"), ("a\u00e9", "a\u00e8")]:
        for f in ("starts_with", "ends_with"):
            G.append(one(f, st(a + "x" + a), [st(b)], (f, "near miss")))
        G.append(one("find", st(a + b), [st(b), num(0)], ("find", "near miss", "0")))
        G.append(one("replace", st(a + b + a), [st(b), st("-")], ("replace", "near miss", "new 1")))
        G.append(one("split", st(a + b + a), [st(b)], ("split", "near miss")))
    # wrong arity / wrong types for every method (receiver fixed)
    r0 = st("a\u00e9")
    argpool = [(num(0), "num"), (st("a"), "str"), (NIL, "nil"), (vec(num(97)), "vec")]
    for f, arity in [("len", 0), ("is_alpha", 0), ("is_digit", 0), ("is_hexdigit", 0), ("count_chars", 0), ("char_byte_index", 1),
                     ("find", 2), ("replace", 2), ("split", 1), ("starts_with", 1), ("ends_with", 1), ("to_num", 0),
                     ("to_bytes", 0), ("to_code_points", 0), ("iter_next_args", 0),
                     ("from_ascii", 1), ("from_utf8", 1), ("from_code_points", 1), ("from", 1)]:
        recv = NIL if f in STATIC else r0
        for n in range(0, 3):
            G.append(Group(f, recv, [argpool] * n, (f, "arity %d/%d" % (n, arity))))
        for a in argpool:
            G.append(Group(f, recv, [[a], [a], argpool], (f, "arity 3/%d" % arity)))
    # classification: boundaries of the ASCII classes
    cls = ["/", "0", "9", ":", "@", "A", "F", "G", "Z", "[", "`", "a", "f", "g", "z", "{", "\u00e9", "\uff11"]
    for t in strings(2 if quick else 3, cls):
        for f in ("is_alpha", "is_digit", "is_hexdigit"):
            G.append(one(f, st(t), [], (f, "class-boundary", "%d chars" % len(t))))
    # to_num (String::parse::<f64>)
    for t in ["", "0", "-0", "1", "1.5", "-1.5", "+2", ".5", "5.", "1e3", "1E-2", "1e400", "-1e400", "1e-400", "inf", "-inf", "Infinity",
              "nan", "NaN", "-nan", " 1", "1 ", "1_0", "0x10", "abc", "1e", "e5", ".", "+", "-", "\uff11", "1\u00e9", "9007199254740993",
              "0.1", "0.30000000000000004", "123456789012345678901234567890", "4.9e-324", "1.7976931348623157e308", "2.5e-324"]:
        G.append(one("to_num", st(t), [], ("to_num", "text")))
    # vec / tuple indexing, slicing, set_item
    for elems in sequences(3 if quick else 4):
        n = len(elems)
        bd = list(range(n + 1))
        ipool = index_pool(n, bd, True)
        ends = [(num(k), int_label(k, n, bd)) for k in int_pool(n, bd, True)] + [(P63, "2^63"), (N63, "-2^63")]
        for mk, kind in ((vec, "vec"), (tup, "tuple")):
            G.append(Group("index", mk(*elems), [ipool], (kind,)))
            G.append(Group("index", mk(*elems), [ends, ends], (kind + "-range",), as_range=True))
        G.append(Group("set_item", vec(*elems), [ipool + [(rng(num(0), num(1)), "range")], [(st("X"), "str")]], ("set_item",)))
    for recv, lab in [(NIL, "nil"), (num(1), "num"), (("bool", True), "bool"), (rng(num(0), num(2)), "range")]:
        G.append(one("index", recv, [num(0)], ("not-indexable", lab)))
    # range construction and Display of the values used as arguments
    for (b, lb), (e, le) in itertools.product(NUM_SPECIALS + NON_NUMBERS[:2] + [(num(3), "int")], repeat=2):
        G.append(one("value", rng(b, e), [], ("range-construction", lb, le)))
    disp = NUM_SPECIALS + NON_NUMBERS + [
        (num(1.25), "1.25"), (num(2.0 ** 53, "9007199254740992"), "2^53"), (num(1e21, "1000000000000000000000"), "1e21"),
        (num(1e-7, "0.0000001"), "1e-7"), (num(123456789.125), "frac9"), (vec(), "empty vec"), (tup(), "empty tuple"),
        (vec(num(1), st("x"), NIL), "mixed vec"), (tup(num(1), st("x")), "pair")]
    G.append(Group("from", NIL, [disp], ("from",)))
    # from_utf8 over a byte alphabet of lead / continuation / illegal bytes
    balpha = [0x61, 0x7f, 0x80, 0xa9, 0xbf, 0xc0, 0xc2, 0xc3, 0xe0, 0xe2, 0x82, 0xac, 0xed, 0xa0, 0xf0, 0x9f, 0x98, 0xf4, 0x90, 0xf5, 0xff, 0x00]
    seqs = []
    for n in range(0, 3 if quick else 4):
        seqs += [list(t) for t in itertools.product(balpha, repeat=n)]
    wellformed = [list(c.encode("utf-8")) for c in ALPHA + ["\u0080", "\u07ff", "\u0800", "\ud7ff", "\ue000", "\uffff", "\U00010000", "\U0010ffff"]]
    illformed = [[0xe0, 0x9f, 0xbf], [0xed, 0xa0, 0x80], [0xf0, 0x8f, 0xbf, 0xbf], [0xf4, 0x90, 0x80, 0x80], [0xc1, 0xbf], [0xe2, 0x82], [0xf0, 0x9f, 0x98]]
    for w in wellformed + illformed:
        seqs.append(w)
        seqs.append([0x61] + w)
        seqs.append(w + [0x61])
        seqs.append(w[:-1] + [0x61])
        seqs.append(w + w[:1])
        for i in range(len(w)):
            seqs.append(w[:i] + [w[i] ^ 0x40] + w[i + 1:])
    G.append(Group("from_utf8", NIL, [[(vec(*[num(x) for x in b]), "%d bytes %s" % (len(b), valid_kind(bytes(b)))) for b in seqs]], ("from_utf8",)))
    badel = [(num(256), "256"), (num(-1), "-1"), (HALF, "0.5"), (NAN, "NaN"), (PINF, "+inf"), (NIL, "nil"), (st("a"), "str"), (NEG0, "-0"),
             (num(255), "255"), (num(4294967295), "u32max"), (num(4294967296), "u32max+1")]
    for f, good in (("from_utf8", 0x61), ("from_ascii", 0x61), ("from_code_points", 0x20ac)):
        G.append(Group(f, NIL, [[(vec(v), lab) for v, lab in badel]], (f, "element")))
        G.append(Group(f, NIL, [[(vec(num(good), v), lab) for v, lab in badel]], (f, "element after good")))
        G.append(Group(f, NIL, [[(vec(v, NIL), lab) for v, lab in badel]], (f, "element before nil")))
        G.append(Group(f, NIL, [[(NIL, "nil"), (st("a"), "str"), (num(97), "num"), (tup(num(97)), "tuple"), (vec(), "empty vec")]], (f, "argument")))
    # from_ascii: every byte, and pairs around 127/128
    G.append(Group("from_ascii", NIL, [[(vec(num(b)), "byte>=128" if b > 127 else "byte<128") for b in range(256)]], ("from_ascii",)))
    edge = [0, 0x41, 127, 128, 169, 191, 192, 233, 255]
    G.append(Group("from_ascii", NIL, [[(vec(num(a), num(b)), "%d%d" % (a > 127, b > 127)) for a, b in itertools.product(edge, repeat=2)]], ("from_ascii", "pair")))
    # from_code_points: boundaries of the encoding lengths, surrogates, beyond 10FFFF
    cps = [0, 0x41, 0x7f, 0x80, 0x7ff, 0x800, 0xd7ff, 0xd800, 0xdfff, 0xe000, 0xffff, 0x10000, 0x10ffff, 0x110000, 0x1f600]
    items = []
    for n in range(0, 3):
        for t in itertools.product(cps, repeat=n):
            ok = all(not (0xd800 <= c <= 0xdfff) and c <= 0x10ffff for c in t)
            items.append((vec(*[num(c) for c in t]), "%d cps %s" % (n, "ok" if ok else "bad")))
    G.append(Group("from_code_points", NIL, [items], ("from_code_points",)))
    G += quoted_groups()
    return G


def quoted_groups():
    """round 9, error path: the offending value quoted in a message is LONG and NON-ASCII (every alignment of 2-/3-/4-byte
    characters against byte offsets 61/70/130).  These tie the embedding of Display into the messages to M and S; the full
    ladder of lengths, containers and sites is in C13_scale.py (closed-form oracle)."""
    G = []
    for w, ch in ((2, "\u00e9"), (3, "\u20ac"), (4, "\U0001F600")):
        for off in range(w):
            for T in (61, 70, 130):
                t = "a" * off + ch * ((T - off) // w + 1)
                keys = [(st(t), "long str"), (vec(st(t)), "vec of long str"), (tup(num(1), st(t)), "tuple with long str")]
                G.append(Group("set_item", vec(num(1), num(2)), [keys, [(num(0), "0")]], ("set_item", "quoted")))
                G.append(Group("find", st("abc"), [[(st("b"), "1-char hit")], keys], ("find", "quoted")))
                G.append(Group("char_byte_index", st("abc"), [keys], ("cbi", "quoted")))
                G.append(Group("index", st("abc"), [keys[:1], [(num(1), "+1")]], ("str-range", "quoted"), as_range=True))
                G.append(Group("find", st("abc"), [keys[1:], [(num(0), "0")]], ("find", "quoted sub")))
                G.append(Group("from_utf8", NIL, [[(vec(num(97), st(t)), "long str element"), (st(t), "long str"), (tup(st(t)), "tuple")]],
                               ("from_utf8", "quoted")))
                G.append(one("to_num", st(t), [], ("to_num", "quoted")))
    return G


def valid_kind(b):
    try:
        b.decode("utf-8")
        return "valid"
    except UnicodeDecodeError as e:
        return "invalid@%d" % e.start


# ------------------------------------------------------------------------------------------
# running

MARK, EMARK = b"@@probe", b"!!error"
REDO_MAX = 400          # programs that did not finish are re-run probe by probe (at most this many programs)
UNKNOWN = "ABNORMAL:a probe sharing its program crashed it (not re-run individually)"
STOP_RE = re.compile(rb"<StopIter instance @ 0x[0-9a-f]+>")


def fnv(h, data):
    for c in data:
        h = ((h ^ c) * 1099511628211) & 0x7FFFFFFFFFFFFFFF
    return h


FNV0 = 2166136261


class Out:
    """outcome of one probe on the implementation: rendered like StrRun.show_outcome, canonical bytes like StrRun.canon"""
    __slots__ = ("text", "canon")

    def __init__(self, text, canon):
        self.text, self.canon = text, canon

    def digest(self):
        return fnv(FNV0, self.canon)


def out_of_chunk(c):
    c = [STOP_RE.sub(b"<StopIter instance @ A>", l) for l in c]
    if EMARK in c:
        i = c.index(EMARK)
        rest = c[i + 1:]
        m = re.match(rb"<class (\w+)>$", rest[0]) if rest else None
        if i == 0 and m and len(rest) == 2:
            return Out("E%s:%s" % (m.group(1).decode(), rest[1].hex()), m.group(1) + b":" + rest[1])
        return Out("MIXED:" + ",".join(l.hex() for l in c), b"MIXED\x00" + b"\n".join(c))
    return Out("O" + ",".join("=" + l.hex() for l in c), b"O" + b"".join(l + b"\n" for l in c))


def parse_program_output(rec, n):
    """splits the O lines of one program at the markers; returns (list of Out, printed lines) or None"""
    if rec.crashed or rec.result[0] != "ok":
        return None
    raw = [yvlib.unhx(x[0]) if x and x[0] else b"" for x in rec.tagged("O")]
    chunks = []
    for l in raw:
        if l == MARK:
            chunks.append([])
        elif not chunks:
            return None
        else:
            chunks[-1].append(l)
    if len(chunks) != n:
        return None
    return [out_of_chunk(c) for c in chunks], [l for c in chunks for l in c]


def run_impl(binary, probes, per_program=60):
    """returns (list of Out per probe, set of all printed byte lines)"""
    progs = [probes[i:i + per_program] for i in range(0, len(probes), per_program)]
    recs = yvlib.run_harness(binary, ["run - " + hx("\n".join(p.snippet() for p in g)) for g in progs], case_timeout_ms=60000)
    out = []
    printed = set()
    redo = []
    for g, r in zip(progs, recs):
        res = parse_program_output(r, len(g))
        if res is None:
            redo.append((len(out), g))
            out.extend([None] * len(g))
        else:
            out.extend(res[0])
            printed.update(res[1])
    for base, g in redo[:REDO_MAX]:
        recs1 = yvlib.run_harness(binary, ["run - " + hx(p.snippet()) for p in g], case_timeout_ms=10000)
        for k, (p, r) in enumerate(zip(g, recs1)):
            res = parse_program_output(r, 1)
            if res is None:
                kind, detail = r.result
                text = "%s:%s" % ("PANIC" if kind == "panic" else kind.upper(), detail if isinstance(detail, str) else "")
                out[base + k] = Out(text, b"ABNORMAL\x00" + text.encode())
                printed.update(yvlib.unhx(x[0]) if x and x[0] else b"" for x in r.tagged("O"))
            else:
                out[base + k] = res[0][0]
                printed.update(res[1])
    for base, g in redo[REDO_MAX:]:
        for k in range(len(g)):
            out[base + k] = Out(UNKNOWN, b"ABNORMAL\x00")
    return out, printed


def batch_wire(groups):
    """value table (each distinct value once) + rows (header group + one index group per argument list)"""
    table = {}

    def ref(v):
        w = wire_of(v)
        if w not in table:
            table[w] = len(table)
        return table[w]

    rows = []
    for g in groups:
        rows.append("%d %d %d %d %d" % (FN[g.fn], g.extra, ref(g.recv), len(g.lists), int(g.as_range)))
        for l in g.lists:
            rows.append(" ".join(str(ref(v)) for v, _ in l))
    # table indices count VALUES (a vec is one value spanning several groups)
    return '"%s|%s"' % (";".join(table.keys()), ";".join(rows))


def make_batches(groups, batch):
    batches, cur, n = [], [], 0
    for g in groups:
        cur.append(g)
        n += g.size()
        if n >= batch:
            batches.append(cur)
            cur, n = [], 0
    if cur:
        batches.append(cur)
    return batches


def coq_terms(terms, tag):
    if not terms:
        return []
    nshard = max(1, min(3 * yvlib.NPROC, len(terms)))
    shard = max(1, (len(terms) + nshard - 1) // nshard)
    return yvlib.coq_eval(["YV:StrRun"], terms, shard_size=shard, tag="C13" + tag, preamble=PRE)


def compare(ctx, groups, impl, tag, batch=900, max_full=60):
    """impl == M and impl == S, by batch digests first, per-probe digests for differing batches, full rendering
    for the probes that have to be shown.  Returns list of (index, impl Out, M text, S text) for differing probes."""
    batches = make_batches(groups, batch)
    wires = [batch_wire(b) for b in batches]
    vals = coq_terms(["run_digest_w %s" % w for w in wires], tag + "dg")
    suspects = []        # (batch index, offset of its first probe)
    off = 0
    n_mdiff = 0
    for bi, (b, v) in enumerate(zip(batches, vals)):
        size = sum(g.size() for g in b)
        h = FNV0
        for o in impl[off:off + size]:
            h = fnv(fnv(h, o.canon), b"\xff")
        f = v.split(",") if v else []
        if len(f) != 4 or int(f[0]) != size:
            ctx.corr_broken.append("model evaluation failed (coq_eval run_digest_w) on a batch starting with `%s`" % next(b[0].probes()).body())
        else:
            n_mdiff += int(f[3])
            if int(f[1]) != h or int(f[2]) != h or int(f[3]) != 0:
                suspects.append((bi, off))
        off += size
    diffs = []           # (probe index, dM, dS)
    if suspects:
        log("[C13] %d of %d batches differ -> per-probe digests" % (len(suspects), len(batches)))
        dv = coq_terms(["run_detail_w %s" % wires[bi] for bi, _ in suspects], tag + "dt")
        for (bi, off), v in zip(suspects, dv):
            size = sum(g.size() for g in batches[bi])
            parts = v.split("|") if v else []
            if len(parts) != size:
                ctx.corr_broken.append("model evaluation failed (coq_eval run_detail_w)")
                continue
            for k, part in enumerate(parts):
                dm, _, ds = part.partition("!")
                dm = int(dm)
                ds = int(ds) if ds else dm
                di = impl[off + k].digest()
                if di != dm or di != ds:
                    diffs.append((off + k, dm, ds))
    return diffs, n_mdiff


def outcome_kind(rendered):
    if rendered is None:
        return "none"
    if rendered.startswith("O"):
        return "ok"
    if rendered.startswith("E"):
        kind, _, msg = rendered[1:].partition(":")
        try:
            text = bytes.fromhex(msg).decode("utf-8", "replace")
        except ValueError:
            text = msg
        text = re.sub(r"'[^']*'", "'_'", text)
        text = re.sub(r"\d+", "#", text)
        return "%s: %s" % (kind, text)
    return rendered.split(":")[0]


def human(rendered):
    if rendered is None:
        return None
    try:
        if rendered.startswith("O"):
            return [bytes.fromhex(x[1:]).decode("utf-8", "replace") for x in rendered[1:].split(",") if x]
        if rendered.startswith("E"):
            kind, _, msg = rendered[1:].partition(":")
            return "%s: %s" % (kind, bytes.fromhex(msg).decode("utf-8", "replace"))
    except ValueError:
        pass
    return rendered


def check(ctx, groups, tag):
    binary = ctx.harness("debug")
    probes = [p for g in groups for p in g.probes()]
    impl, printed = run_impl(binary, probes)
    diffs, n_mdiff = compare(ctx, groups, impl, tag)
    if n_mdiff:
        ctx.broken.append("M != S on %d probes (contradicts the refinement theorems)" % n_mdiff)
    # classify the differing probes: impl != S is a violation, impl == S but != M a broken correspondence
    unknown = sum(1 for i, _, _ in diffs if impl[i].text == UNKNOWN)
    if unknown:
        ctx.notes.append("%d probes were not re-run individually after their program crashed; they are not counted as failing" % unknown)
    diffs = [d for d in diffs if impl[d[0]].text != UNKNOWN]
    viol = [(i, dm, ds) for i, dm, ds in diffs if impl[i].digest() != ds]
    corr = [(i, dm, ds) for i, dm, ds in diffs if impl[i].digest() == ds]
    viol.sort(key=lambda d: (len(probes[d[0]].body()), probes[d[0]].body()))
    show = viol[:5] + corr[:5] + [d for d in diffs if d[1] != d[2]][:5]
    full = {}
    if show:
        idx = sorted({d[0] for d in show})
        terms = []
        for i in idx:
            w = batch_wire([probes[i].group()])
            terms += ["run_mech_w %s" % w, "run_spec_w %s" % w]
        vals = coq_terms(terms, tag + "full")
        for k, i in enumerate(idx):
            full[i] = (vals[2 * k], vals[2 * k + 1])
    by_fn = {}
    for i, _, _ in viol:
        by_fn[probes[i].fn] = by_fn.get(probes[i].fn, 0) + 1
    for i, dm, ds in viol[:5]:
        p = probes[i]
        m, s = full.get(i, (None, None))
        ctx.violation("yarel differs from the reference model of %s (shape %s)" % (p.fn, "/".join(map(str, p.shape))),
                      input=p.snippet(), expected=human(s), actual=human(impl[i].text), model_M=human(m), probe=p.to_json(),
                      failing_probes_in_sweep=len(viol), failing_probes_per_function=by_fn)
    for i, dm, ds in corr[:5]:
        p = probes[i]
        m, s = full.get(i, (None, None))
        ctx.corr_broken.append("impl != M (StrFns.v/Index.v) but == S on `%s`: impl %r, M %r (%d such probes)" % (
            p.body(), human(impl[i].text), human(m), len(corr)))
    for i, dm, ds in [d for d in diffs if d[1] != d[2]][:5]:
        m, s = full.get(i, (None, None))
        ctx.broken.append("M != S on `%s`: M %r, S %r" % (probes[i].body(), human(m), human(s)))
    combos = set()
    for p, o in zip(probes, impl):
        k = outcome_kind(o.text)
        if not (p.ascii_only and k == "ok"):
            combos.add((p.fn,) + tuple(str(x) for x in p.shape) + (k,))
    # every printed line must be valid UTF-8
    bad = []
    for l in printed:
        try:
            l.decode("utf-8")
        except UnicodeDecodeError:
            bad.append(l)
    for l in bad[:3]:
        ctx.violation("the language printed a string that is not valid UTF-8", input="(see the probes of this run)", expected="valid UTF-8",
                      actual=l.hex())
    sample = sorted(printed)
    ctx.rng.shuffle(sample)
    sample = [l for l in sample if l][:300]
    if sample:
        v = coq_terms(['run_valid_w "%s"' % ";".join(" ".join(str(c) for c in l) for l in sample)], tag + "utf8")[0]
        if v is None or len(v) != len(sample):
            ctx.corr_broken.append("Utf8.valid_utf8 could not be evaluated on the printed sample")
        else:
            for l, c in zip(sample, v):
                if (c == "T") != (l not in bad):
                    ctx.corr_broken.append("Utf8.valid_utf8 disagrees with the Python decoder on %s" % l.hex())
                    break
    return combos, len(printed), len(sample), len(viol)


def check_escapes(ctx, binary):
    """string-literal escapes that build bytes (scanner.rs read_escaped_bytes): \\xHH (the from_ascii mapping), \\uHHHH and
    \\UHHHHHHHH (raw UTF-8 bytes, rejected at compile time when ill-formed).  Oracle: Python (no Coq model)."""
    cases = []
    for b in range(256):
        exp = [b] if b < 128 else [195, b & 0xBF]
        cases.append(("\\x%02x" % b, exp))
    for hx4 in ["c3a9", "c2a0", "dfbf", "0041", "4142", "c328", "a9c3", "c0af", "e282", "ffff", "7f7f", "c3", "c3a", "zz00"]:
        cases.append(("\\u" + hx4, raw_bytes(hx4, 2)))
    for hx8 in ["f09f9880", "e282ac41", "41e282ac", "00000041", "c3a9c3a9", "f0908080", "f08f8080", "f4908080", "eda08041", "e282ac", "f09f98", "e2828041",
                "ffffffff", "c3a941"]:
        cases.append(("\\U" + hx8, raw_bytes(hx8, 4)))
    recs = yvlib.run_harness(binary, ["run - " + hx('print("%s".to_bytes());' % e) for e, _ in cases], case_timeout_ms=10000)
    n_bad = 0
    for (esc, exp), r in zip(cases, recs):
        if exp is None:
            ok = r.result == ("err", "CompileError") and any("Invalid" in m for m in r.messages)
            shown = "CompileError: Invalid Unicode/hexadecimal sequence."
        else:
            shown = "[%s]" % ", ".join(str(x) for x in exp)
            ok = r.result[0] == "ok" and r.output == [shown]
        if not ok:
            n_bad += 1
            if n_bad <= 2:
                ctx.violation("string literal escape decodes differently from the byte model", input='print("%s".to_bytes());' % esc,
                              expected=shown, actual=r.output + [str(r.result)] + r.messages[:1], escape=esc)
    return len(cases)


def raw_bytes(hexs, n):
    if len(hexs) != 2 * n:
        return None
    try:
        b = bytes.fromhex(hexs)
        b.decode("utf-8")
        return list(b)
    except ValueError:
        return None


# ------------------------------------------------------------------------------------------
# round 9: LENGTH-SCALE family and ERROR-PATH (quoted value) family, see tools/props/C13_scale.py

def _scale_mod():
    """tools/props/C13_scale.py, whatever way this plug-in was loaded"""
    import importlib.util
    import os
    import sys
    if "C13_scale" in sys.modules:
        return sys.modules["C13_scale"]
    spec = importlib.util.spec_from_file_location("C13_scale", os.path.join(os.path.dirname(os.path.abspath(__file__)), "C13_scale.py"))
    mod = importlib.util.module_from_spec(spec)
    sys.modules["C13_scale"] = mod
    spec.loader.exec_module(mod)
    return mod


DEBUG_MAX_N = 256          # the debug build (collects at every allocation) runs the ladder up to this size; release runs all of it


def debug_selected(case, n, quick):
    """the debug build is ~100x slower: thorough runs the whole ladder up to DEBUG_MAX_N on it, quick all of n <= 32 and, for
    64..DEBUG_MAX_N, the dense strings, the totals n and n+1 and the straddling start n-1 (release runs everything in both tiers)"""
    if n > DEBUG_MAX_N:
        return False
    if not quick or n <= 32:
        return True
    lab = case["label"]
    return lab.startswith("dense") or (lab.startswith("total") and ("%d+0 " % n in lab or "%d+1 " % n in lab)) or "start=%d" % (n - 1) in lab


def r9_run_believed(SC, binary, cases):
    """judges the cases; a case that differs is re-run ALONE (machine load / a time-out must not be believed at once)"""
    res = SC.run_cases(binary, cases)
    for i, r in enumerate(res):
        if r is not None:
            res[i] = SC.run_cases(binary, [cases[i]], timeout_ms=120000)[0]
    return res


def r9_violation(ctx, what, case, verdict, profile, **extra):
    ctx.violation(what, input=case["src"] if len(case["src"]) < 4000 else case["src"][:1500] + " ...(%d bytes, full source in r9.src)... " % len(case["src"]) + case["src"][-1500:],
                  expected=verdict["expected"], actual=verdict["actual"], operation=verdict["op"], case=case["label"], build=profile,
                  r9={"src": case["src"], "expected": case["expected"], "ops": case["ops"], "label": case["label"], "profile": profile}, **extra)


def run_r9(ctx):
    import time
    t0 = time.time()
    SC = _scale_mod()
    scale = SC.scale_cases(ctx.quick())
    err_cases, n_err = SC.errpath_cases()
    found = []                                    # (sort key, what, case, verdict, profile, extra)
    n_ops = n_scale_ops = 0
    for profile in ("release", "debug"):
        binary = ctx.harness(profile)
        sel = [c for c, n in scale if profile == "release" or debug_selected(c, n, ctx.quick())]
        n_ops += sum(len(c["ops"]) for c in sel)
        n_scale_ops += sum(len(c["ops"]) for c in sel)
        res = r9_run_believed(SC, binary, sel)
        bad = [(c, r) for c, r in zip(sel, res) if r is not None]
        by_op = {}
        for c, r in bad:
            k = r["op"].split(" ")[0]
            by_op[k] = by_op.get(k, 0) + 1
        for c, r in bad:
            found.append(((0, len(c["src"])), "a string function differs from the byte-exact reference on a LONG input (length-scale family: %s)" % c["label"],
                          c, r, profile, {"failing_programs_in_family": len(bad), "first_differing_operation_counts": by_op}))
        n_ops += n_err
        res = r9_run_believed(SC, binary, err_cases)
        is_panic = lambda r: isinstance(r.get("result"), list) and r["result"][:1] == ["panic"]
        badpr = [(c, r) for c, r in zip(err_cases, res) if r is not None]
        badpr.sort(key=lambda cr: not is_panic(cr[1]))          # programs that PANIC are split first
        badp = [c for c, _ in badpr]
        # a program with a difference is split into its probes (a panic hides the probes after it)
        singles = []
        for c in badp[:12]:
            lines = c["src"].split("\n")
            exp = c["expected"]
            cuts = [i for i, x in enumerate(exp) if x.startswith("@@")] + [len(exp)]
            for k, desc in enumerate(c["ops"]):
                P = SC.Prog(desc, [])
                P.lines = ['print("@@0");', lines[2 * k + 1]]
                P.expected = ["@@0"] + exp[cuts[k] + 1:cuts[k + 1]]
                P.ops = [desc]
                singles.append(P.case())
        if singles:
            res1 = r9_run_believed(SC, binary, singles)
            bad1 = [(c, r) for c, r in zip(singles, res1) if r is not None]
            sites = {}
            for c, r in bad1:
                k = c["label"].split(" <- ")[0]
                sites[k] = sites.get(k, 0) + 1
            for c, r in bad1:
                found.append(((1, not is_panic(r), len(c["src"])), "an error message that quotes the offending value is not the documented error (error-path family: %s)" % c["label"],
                              c, r, profile, {"failing_probes_found": len(bad1), "failing_programs": len(badp), "failing_probes_per_site": sites}))
            if badp and not bad1:
                c = badp[0]
                r = [x for x in res if x is not None][0]
                found.append(((1, True, len(c["src"])), "error-path family: a program of probes differs but none of its probes alone does (%s)" % c["label"], c, r, profile, {}))
        if found and profile == "release":
            break                                  # the debug pass would only repeat it
    log("[C13] round 9: %d scale programs (%d operations), %d error-path probes per build, %d differences, %.1fs" % (
        len(scale), n_scale_ops, n_err, len(found), time.time() - t0))
    found.sort(key=lambda f: f[0])
    # smallest scale witness, smallest error-path witnesses; at most 4 in all
    picked = [f for f in found if f[0][0] == 0][:2] + [f for f in found if f[0][0] == 1][:2]
    for _, what, c, r, profile, extra in picked:
        r9_violation(ctx, what, c, r, profile, **extra)
    return {"r9_scale_programs": len(scale), "r9_scale_ladder": SC.POW + SC.BEYOND, "r9_scale_operations_checked": n_scale_ops,
            "r9_errpath_probes": n_err, "r9_errpath_sites": [s[0] for s in SC.SITES], "r9_errpath_value_lengths": SC.LADDER_FULL,
            "r9_failing": len(found), "r9_evaluations": n_ops}


def run(ctx):
    quick = ctx.quick()
    if ctx.replay_only and "r9" in ctx.replay_only:
        SC = _scale_mod()
        c = ctx.replay_only["r9"]
        v = r9_run_believed(SC, ctx.harness(c.get("profile", "release")), [c])[0]
        if v is not None:
            r9_violation(ctx, "replay: " + ctx.replay_only.get("what", ""), c, v, c.get("profile", "release"))
        ctx.cov.update({"evaluations": len(c["ops"]), "distinct_nontrivial": 0, "rule": "replay of one round-9 program", "samples": [c["label"]]})
        return
    if ctx.replay_only and "escape" in ctx.replay_only:
        n = check_escapes(ctx, ctx.harness("debug"))
        ctx.cov.update({"evaluations": n, "distinct_nontrivial": 0, "rule": "replay of the escape table", "samples": [ctx.replay_only["escape"]]})
        return
    if ctx.replay_only:
        p = Probe.from_json(ctx.replay_only["probe"])
        check(ctx, [p.group()], "replay")
        ctx.cov.update({"evaluations": 1, "distinct_nontrivial": 0, "rule": "replay of one probe", "samples": [p.snippet()]})
        return
    r9 = run_r9(ctx)            # first: cheap (seconds), and independent of the Coq evaluation of the sweep
    groups = gen_groups(quick)
    probes = [p for g in groups for p in g.probes()]
    combos, nprinted, nsample, n_viol = check(ctx, groups, "sweep")
    n_esc = check_escapes(ctx, ctx.harness("debug"))
    per_fn = {}
    for p in probes:
        per_fn[p.fn] = per_fn.get(p.fn, 0) + 1
    shapes = {}
    for c in combos:
        shapes[c[0]] = shapes.get(c[0], 0) + 1
    pick = [probes[i] for i in sorted(ctx.rng.sample(range(len(probes)), 6))]
    ctx.cov.update({
        "evaluations": len(probes) + n_esc,
        "escape_literals_checked_against_python_oracle": n_esc,
        "distinct_nontrivial": len(combos),
        "rule": "exhaustive sweep (no sampling): all strings of <= %d characters over {a, e-acute, euro sign, U+1F600} (1-4 bytes); all strings of <= 2 "
                "characters over the 17-character BOUNDARY-BYTE alphabet (continuation bytes 80/BF and the extremes of each encoding length: U+0080, "
                "U+00BF, U+00C0, U+00FF, U+07FF, U+0800, U+1000, U+D7FF, U+E000, U+FFFD, U+FFFF, U+10000, U+1F43F, U+3FFFF, U+40000, U+10FFFF, a) through "
                "every byte-walking function (index at every offset, all range pairs, find, count_chars, char_byte_index, to_bytes/to_code_points, "
                "from_code_points/from_utf8 round trips, for/next iteration, split/replace/starts_with/ends_with); all vecs/tuples of <= %d "
                "elements over {1, 'e-acute', nil}; every byte offset 0..len+1 and -len-1..-1 as index, every pair of them (plus +-2^63, +-inf) as range "
                "ends, plus 0.5, NaN, +-inf, +-2^63, 2^63-1024, -2^63-2048, +-1e30, -0, nil, string, bool, vec, tuple; every string native with "
                "arguments from the same pools, wrong arity 0..3 and wrong types; from_utf8 over all byte sequences of <= %d bytes from a 22-byte "
                "alphabet of lead/continuation/illegal bytes plus mutated well-formed characters; from_ascii on all 256 bytes; from_code_points at "
                "every encoding-length boundary, surrogates and > 10FFFF.  distinct_nontrivial counts DISTINCT (function, argument shape, outcome "
                "kind) triples, where shape is the generator's label of the argument relative to the receiver (0, +-1, in, mid(-character), "
                "+-len, +-len+-1, beyond, NaN, ...), outcome kind is ok or error class + message template, and all-ASCII probes with an ok "
                "outcome are NOT counted" % (3 if quick else 4, 3 if quick else 4, 2 if quick else 3),
        "exhaustive": True,
        "traces_validated_against_impl": len(probes),
        "probes_per_function": per_fn,
        "distinct_combinations_per_function": shapes,
        "printed_lines_distinct": nprinted,
        "printed_lines_validated_by_Utf8_valid_utf8": nsample,
        "failing_probes": n_viol,
        "samples": [{"snippet": p.body(), "shape": list(p.shape), "wire": p.wire()} for p in pick],
    })
    ctx.cov["evaluations"] += r9["r9_evaluations"]
    ctx.cov.update(r9)
    ctx.cov["rule"] += (
        ".  ROUND 9 (counted in evaluations, not in distinct_nontrivial): LENGTH-SCALE family - byte lengths around every power of two 16..8192 and "
        "1000/10000/65536/100000 with a 2-/3-/4-byte character starting at n-8..n+1 (straddling n, every offset mod 8), total lengths n-2..n+2 ending in "
        "a multi-byte character, and dense all-multi-byte strings in every alignment, through every string function and conversion, oracle = byte-exact "
        "reference on the same input / closed forms (release build: all sizes, debug build: n <= %d, in quick a fixed subset of the shapes above n = 32); ERROR-PATH family - every message of the string/"
        "index code that quotes a value x offending values whose printed form is 8..4200 bytes of 2-/3-/4-byte characters in every alignment "
        "(bare strings, vec/tuple/nested vec/hashmap key/hashmap value) and numbers printed in 31..303 digits, oracle = message template filled with the Display form" % DEBUG_MAX_N)


def search(ctx):
    """obligations or correspondence broken: thorough sweep against the Spec"""
    old = ctx.tier
    ctx.tier = "thorough"
    try:
        run(ctx)
    finally:
        ctx.tier = old
