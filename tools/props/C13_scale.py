"""C13 round 9: LENGTH-SCALE family and ERROR-PATH (quoted value) family.

Both families use a size-independent oracle: the byte-exact reference functions below (the same definitions as
StrSpec.v / Index.v, written over Python `bytes`), evaluated on the very input the yarel program gets, or a closed form
(from_utf8(to_bytes(s)) == s, len, count, the position of the one multi-byte character).  No Coq evaluation of an 8 KB
string is needed; the small-alphabet sweep of C13.py keeps tying these reference functions' Coq twins to the code.

A case = (label, program source, expected printed lines, list of (marker, description)).  Every operation of a program
is preceded by `print("@@k")` so a difference is attributed to one operation."""
import itertools

from yvlib import hx
import yvlib

POW = [16, 32, 64, 128, 256, 512, 1024, 2048, 4096, 8192]
BEYOND = [1000, 10000, 65536, 100000]
CH = {2: "\u00e9", 3: "\u20ac", 4: "\U0001F600"}
NEAR = {2: "\u00e8", 3: "\u20ad", 4: "\U0001F601"}       # same lead byte(s), different last byte


# ------------------------------------------------------------------------------------------
# reference model over bytes (S of C13, restricted to what the families use)

def E(kind, msg):
    return ["!!error", "<class %s>" % kind, msg]


def is_boundary(B, k):
    return k == 0 or k == len(B) or (0 < k < len(B) and (B[k] & 0xC0) != 0x80)


def ref_index(B, i):
    L = len(B)
    k = i + L if i < 0 else i
    if k < 0 or k >= L:
        return E("IndexError", "String index out of bounds.")
    if not is_boundary(B, k):
        return E("IndexError", "Provided string index is not on a character boundary.")
    e = k + 1
    while e <= L and not is_boundary(B, e):
        e += 1
    return [B[k:e].decode("utf-8")]


def ref_range(b, e, L, kind):
    b2 = b + L if b < 0 else b
    if b2 < 0 or b2 >= L:
        return E("IndexError", "%s slice start out of range." % kind)
    e2 = e + L if e < 0 else e
    if e2 < 0 or e2 > L:
        return E("IndexError", "%s slice end out of range." % kind)
    return (b2, max(b2, e2))


def ref_slice(B, b, e):
    r = ref_range(b, e, len(B), "String")
    if isinstance(r, list):
        return r
    if not is_boundary(B, r[0]):
        return E("IndexError", "Provided string slice start is not on a character boundary.")
    if not is_boundary(B, r[1]):
        return E("IndexError", "Provided string slice end is not on a character boundary.")
    return [B[r[0]:r[1]].decode("utf-8")]


def ref_find(B, sub, start):
    L = len(B)
    k = start + L if start < 0 else start
    if k < 0 or k >= L:
        return E("IndexError", "String index out of bounds.")
    if not is_boundary(B, k):
        return E("IndexError", "Provided string index is not on a character boundary.")
    r = B.find(sub, k)
    return ["nil" if r < 0 else str(r)]


def ref_cbi(s, k):
    n = len(s)
    j = k + n if k < 0 else k
    if j < 0 or j >= n:
        return E("IndexError", "String index out of bounds.")
    return [str(len(s[:j].encode("utf-8")))]


def show_vec(xs):
    return "[%s]" % ", ".join(str(x) for x in xs)


def lit(t):
    assert not set(t) & set('"\\$\n'), t
    return '"%s"' % t


class Prog:
    def __init__(self, label, pre):
        self.label, self.lines, self.expected, self.ops = label, list(pre), [], []

    def op(self, desc, stmt, exp, guarded=True):
        k = len(self.ops)
        self.ops.append(desc)
        self.lines.append('print("@@%d");' % k)
        self.expected.append("@@%d" % k)
        if guarded:
            self.lines.append("try { %s } catch e { print(\"!!error\"); print(type(e)); print(e.context); }" % stmt)
        else:
            self.lines.append(stmt)
        self.expected.extend(exp)

    def expr(self, desc, e, exp):
        self.op(desc, "print(%s);" % e, exp)

    def source(self):
        return "\n".join(self.lines)

    def case(self):
        return {"label": self.label, "src": self.source(), "expected": self.expected, "ops": self.ops}


def yb(x):
    return "true" if x else "false"


# ------------------------------------------------------------------------------------------
# family 1: length scale

def string_ops(label, s, focus):
    """every string function and conversion on s, probing the byte offsets `focus`"""
    B = s.encode("utf-8")
    L = len(B)
    n = len(s)
    F = sorted({k for k in focus if 0 <= k <= L + 1})
    bds = [k for k in F if k <= L and is_boundary(B, k)]
    P = Prog(label, ["var s = %s;" % lit(s), "var b = s.to_bytes();", "var cp = s.to_code_points();"])
    P.expr("len", "s.len()", [str(L)])
    P.expr("count_chars", "s.count_chars()", [str(n)])
    P.expr("to_bytes().len()", "b.len()", [str(L)])
    P.expr("from_utf8(to_bytes(s)) == s", "String.from_utf8(b) == s", ["true"])
    P.expr("from_utf8(to_bytes(s)).len()", "String.from_utf8(b).len()", [str(L)])
    P.expr("to_code_points().len()", "cp.len()", [str(n)])
    P.expr("from_code_points(to_code_points(s)) == s", "String.from_code_points(cp) == s", ["true"])
    fa = bytearray()
    for x in B:
        fa += bytes([x]) if x < 128 else bytes([195, x & 0xBF])
    P.expr("from_ascii(to_bytes(s)).len()", "String.from_ascii(b).len()", [str(len(fa))])
    P.expr("from_ascii(to_bytes(s)).count_chars()", "String.from_ascii(b).count_chars()", [str(L)])
    P.expr("(s + s).len()", "(s + s).len()", [str(2 * L)])
    P.expr("s + s == s", "s + s == s", [yb(L == 0)])
    cidx = {}                       # byte offset of a boundary -> character index
    pos = 0
    for i, c in enumerate(s):
        cidx[pos] = i
        pos += len(c.encode("utf-8"))
    cidx[L] = n
    for k in F:
        P.expr("index %d" % k, "s[%d]" % k, ref_index(B, k))
        neg = k - L if k < L else -k - 1
        P.expr("index %d" % neg, "s[(%d)]" % neg, ref_index(B, neg))
        if k < L:
            P.expr("to_bytes()[%d]" % k, "b[%d]" % k, [str(B[k])])
            P.expr("(s + s)[len + %d]" % k, "(s + s)[%d]" % (L + k), ref_index(B + B, L + k))
            P.expr("from_ascii(to_bytes(s))[..]", "String.from_ascii(b)[%d]" % len(fa_prefix(B, k)), ref_index(bytes(fa), len(fa_prefix(B, k))))
    for a, c in itertools.combinations(F, 2):
        if c - a <= 9:
            P.expr("slice %d..%d" % (a, c), "s[%d..%d]" % (a, c), ref_slice(B, a, c))
            if a < L and c <= L:
                P.expr("to_bytes() slice %d..%d" % (a, c), "b[%d..%d]" % (a, c), [show_vec(B[a:c])])
    for k in bds:
        if 0 < k:
            P.expr("slice 0..%d == prefix (length)" % k, "s[0..%d].len()" % k, [str(k)])
            P.expr("starts_with(s[0..%d])" % k, "s.starts_with(s[0..%d])" % k, ["true"])
            P.expr("slice (-len)..%d count_chars" % k, "s[(%d)..%d].count_chars()" % (-L, k), [str(cidx[k])])
        if k < L:
            P.expr("slice %d..len" % k, "s[%d..%d].len()" % (k, L), [str(L - k)])
            P.expr("ends_with(s[%d..len])" % k, "s.ends_with(s[%d..s.len()])" % k, ["true"])
            ch = s[cidx[k]]
            cb = ch.encode("utf-8")
            P.expr("char_byte_index(%d)" % cidx[k], "s.char_byte_index(%d)" % cidx[k], ref_cbi(s, cidx[k]))
            P.expr("char_byte_index(%d)" % (cidx[k] - n), "s.char_byte_index((%d))" % (cidx[k] - n), ref_cbi(s, cidx[k] - n))
            P.expr("to_code_points()[%d]" % cidx[k], "cp[%d]" % cidx[k], [str(ord(ch))])
            for st_ in sorted({0, k, max(0, k - 1), bds[0]}):
                P.expr("find(char at %d, %d)" % (k, st_), "s.find(%s, %d)" % (lit(ch), st_), ref_find(B, cb, st_))
            nxt = s[cidx[k]:cidx[k] + 2]
            if len(nxt) == 2:
                P.expr("find(2 chars at %d, 0)" % k, "s.find(%s, 0)" % lit(nxt), ref_find(B, nxt.encode("utf-8"), 0))
                P.expr("find(2 chars at %d, %d)" % (k, k - L), "s.find(%s, (%d))" % (lit(nxt), k - L), ref_find(B, nxt.encode("utf-8"), k - L))
            if len(cb) > 1:
                near = NEAR[len(cb)]
                P.expr("find(near miss, 0)", "s.find(%s, 0)" % lit(near), ref_find(B, near.encode("utf-8"), 0))
                # an invalid sequence at scale: the last byte of the character at k replaced by 'a'
                j = k + len(cb) - 1
                P.op("from_utf8 with the character at %d cut short" % k,
                     "b[%d] = 97; print(String.from_utf8(b));" % j,
                     E("ValueError", "Invalid Unicode encountered at byte %d with index %d." % (B[k], k)))
                P.op("restore", "b[%d] = %d; print(String.from_utf8(b) == s);" % (j, B[j]), ["true"])
    inner = [k for k in bds if 0 < k < L]
    if inner:
        k = inner[0]
        suf = s[cidx[k]:]
        P.expr("find(long suffix s[%d..len], 0)" % k, "s.find(s[%d..%d], 0)" % (k, L), ref_find(B, suf.encode("utf-8"), 0))
        P.expr("find(long suffix, just after its start)", "s.find(s[%d..%d], %d)" % (k, L, inner[1] if len(inner) > 1 else k),
               ref_find(B, suf.encode("utf-8"), inner[1] if len(inner) > 1 else k))
        pre = s[:cidx[k]]
        P.expr("replace(long prefix s[0..%d], X).len()" % k, "s.replace(s[0..%d], \"X\").len()" % k, [str(len(s.replace(pre, "X").encode("utf-8")))])
        P.expr("split(long prefix).len()", "s.split(s[0..%d]).len()" % k, [str(len(s.split(pre)))])
        P.expr("to_bytes()[%d] (negative)" % (k - L), "b[(%d)]" % (k - L), [str(B[k])])
        P.expr("to_bytes()[(%d)..(-1)].len()" % (k - L), "b[(%d)..(-1)].len()" % (k - L), [str(L - 1 - k)])
    P.expr("char_byte_index(count_chars - 1)", "s.char_byte_index(%d)" % (n - 1), ref_cbi(s, n - 1))
    P.expr("char_byte_index(count_chars)", "s.char_byte_index(%d)" % n, ref_cbi(s, n))
    # iteration: number of characters, and the characters at the focus positions
    want = sorted({cidx[k] for k in bds if k < L})
    cond = " ".join("if n == %d { print(c); }" % i for i in want)
    P.op("for c in s", "var n = 0; for c in s { %s n = n + 1; } print(n);" % cond, [s[i] for i in want] + [str(n)], guarded=False)
    if n > 1:
        P.op("iter().next() x 2", "var it = s.iter(); print(it.next()); print(it.next());", [s[0], s[1]])
    # replace / split with the rarest multi-byte character of the focus
    chars = [s[cidx[k]] for k in bds if k < L]
    multi = [c for c in chars if ord(c) > 127] or chars
    if multi:
        c = multi[0]
        cnt = s.count(c)
        P.expr("replace(ch, X).len()", "s.replace(%s, \"X\").len()" % lit(c), [str(L - cnt * (len(c.encode('utf-8')) - 1))])
        P.expr("replace(ch, ch ch) round", "s.replace(%s, %s).count_chars()" % (lit(c), lit(c + c)), [str(n + cnt)])
        parts = s.split(c)
        P.op("split(ch)", "var ps = s.split(%s); print(ps.len()); print(ps[0].len()); print(ps[(-1)].len());" % lit(c),
             [str(len(parts)), str(len(parts[0].encode("utf-8"))), str(len(parts[-1].encode("utf-8")))])
        P.expr("replace(ch, '') == join(split(ch))", "s.replace(%s, \"\").len()" % lit(c), [str(sum(len(p.encode("utf-8")) for p in parts))])
    if s.count("a"):
        P.expr("replace(a, '')", "s.replace(\"a\", \"\").len()", [str(L - s.count("a"))])
        P.expr("split(a).len()", "s.split(\"a\").len()", [str(s.count("a") + 1)])
        P.expr("replace(a, e-acute).len()", "s.replace(\"a\", \"\u00e9\").len()", [str(L + s.count("a"))])
    pa = len(s) - len(s.lstrip("a"))
    if pa:
        P.expr("prefix is_alpha", "s[0..%d].is_alpha()" % pa, ["true"])
        P.expr("prefix is_digit", "s[0..%d].is_digit()" % pa, ["false"])
        P.expr("prefix of zeros + 7 .to_num()", "(s[0..%d].replace(\"a\", \"0\") + \"7\").to_num()" % pa, ["7"])
        P.expr("prefix of zeros is_digit", "s[0..%d].replace(\"a\", \"0\").is_digit()" % pa, ["true"])
    # element errors at scale
    P.op("from_utf8 element 256 at the end", "b[%d] = 256; print(String.from_utf8(b));" % (L - 1),
         E("ValueError", "Expected a positive integer less than 256 but found '256'."))
    P.op("from_ascii element 256 at the end", "print(String.from_ascii(b));",
         E("ValueError", "Expected a positive integer less than 256 but found '256'."))
    P.op("from_code_points surrogate at the end", "cp[%d] = 55296; print(String.from_code_points(cp));" % (n - 1),
         E("ValueError", "Expected a valid Unicode code point but found '55296'."))
    return P.case()


ASCII_BYTES = bytes(range(128))


def fa_prefix(B, k):
    """a bytes object as long as from_ascii(B[:k]) (only its length is used)"""
    return b"\0" * (k + len(B[:k].translate(None, ASCII_BYTES)))


def scale_cases(quick):
    """(case, size) list; one dimension (byte length) pushed through the ladder, the multi-byte character placed at every
    offset around the boundary"""
    cases = []
    for n in POW:
        for w in (2, 3, 4):
            ch = CH[w]
            # A: the character starts at n-8 .. n+1 (straddles n for n-w < p < n; every offset mod 8)
            for p in range(n - 8, n + 2):
                s = "a" * p + ch + "bcd"
                cases.append((string_ops("straddle n=%d w=%d start=%d" % (n, w, p), s, {p - 1, p, p + 1, p + w - 1, p + w, n, p + w + 2, p + w + 3, p + w + 4}), n))
            # B: total byte length n-2 .. n+2, the character last
            for d in range(-2, 3):
                L = n + d
                s = "a" * (L - w) + ch
                cases.append((string_ops("total n=%d%+d w=%d" % (n, d, w), s, {L - w - 1, L - w, L - w + 1, L - 1, L, L + 1}), n))
            # C: dense - only multi-byte characters, every alignment
            for off in range(w):
                s = "a" * off + ch * ((n + 16) // w)
                cases.append((string_ops("dense n=%d w=%d off=%d" % (n, w, off), s, set(range(n - 3, n + 4))), n))
    for n in BEYOND:
        for w in (2, 3, 4):
            for p in range(n - w, n + 1):
                s = "a" * p + CH[w] + "bcd"
                cases.append((string_ops("beyond n=%d w=%d start=%d" % (n, w, p), s, {p - 1, p, p + 1, p + w - 1, p + w, n, p + w + 3}), n))
    return cases


# ------------------------------------------------------------------------------------------
# family 2: an error inside the error path - every message that quotes a value x long non-ASCII printed forms

LADDER_FULL = [8, 20, 33, 40, 61, 70, 100, 130, 200, 260, 300, 520, 1030, 2100, 4200]
LADDER_SHORT = [20, 61, 70, 130, 300, 1030]


def display(v):
    k = v[0]
    if k == "str":
        return v[1]
    if k == "num":
        return str(v[1])
    if k == "nil":
        return "nil"
    if k == "vec":
        return "[%s]" % ", ".join(display(x) for x in v[1])
    if k == "tup":
        return "(%s,)" % display(v[1][0]) if len(v[1]) == 1 else "(%s)" % ", ".join(display(x) for x in v[1])
    if k == "map":
        return "{%s: %s}" % (display(v[1]), display(v[2]))
    raise ValueError(v)


def source(v):
    k = v[0]
    if k == "str":
        return lit(v[1])
    if k == "num":
        return str(v[1])
    if k == "nil":
        return "nil"
    if k == "vec":
        return "[%s]" % ", ".join(source(x) for x in v[1])
    if k == "tup":
        return "(%s,)" % source(v[1][0]) if len(v[1]) == 1 else "(%s)" % ", ".join(source(x) for x in v[1])
    if k == "map":
        return "{%s: %s}" % (source(v[1]), source(v[2]))
    raise ValueError(v)


INT_MSG = "Expected an integer value but found '%s'."
STR_MSG = "Expected a string but found '%s'."
VEC_MSG = "Expected a Vec instance but found '%s'."
NUM_MSG = "Expected a number but found '%s'."
# (name, statement with K, kind, message, applies to value kinds)
NONNUM = ("str", "vec", "tup", "map")
NONSTR = ("vec", "tup", "map")
SITES = [
    ("set_item index", "var v = [1, 2, 3]; v[K] = 0; print(v);", "TypeError", INT_MSG, NONNUM),
    ("find start", 'print("abc".find("b", K));', "TypeError", INT_MSG, NONNUM),
    ("char_byte_index", 'print("abc".char_byte_index(K));', "TypeError", INT_MSG, NONNUM),
    ("range begin", "print(K..1);", "TypeError", INT_MSG, NONNUM),
    ("range end", "print(1..K);", "TypeError", INT_MSG, NONNUM),
    ("string slice begin", 'print("abc"[K..2]);', "TypeError", INT_MSG, NONNUM),
    ("vec slice end", "print([1, 2, 3][0..K]);", "TypeError", INT_MSG, NONNUM),
    ("not indexable", "print(K[0]);", "TypeError", "Value '%s' is not indexable.", ("map",)),
    ("find sub", 'print("abc".find(K, 0));', "TypeError", STR_MSG, NONSTR),
    ("replace old", 'print("abc".replace(K, "x"));', "TypeError", STR_MSG, NONSTR),
    ("replace new", 'print("abc".replace("b", K));', "TypeError", STR_MSG, NONSTR),
    ("split", 'print("abc".split(K));', "TypeError", STR_MSG, NONSTR),
    ("starts_with", 'print("abc".starts_with(K));', "TypeError", STR_MSG, NONSTR),
    ("ends_with", 'print("abc".ends_with(K));', "TypeError", STR_MSG, NONSTR),
    ("from_utf8 argument", "print(String.from_utf8(K));", "TypeError", VEC_MSG, ("str", "tup", "map")),
    ("from_ascii argument", "print(String.from_ascii(K));", "TypeError", VEC_MSG, ("str", "tup", "map")),
    ("from_code_points argument", "print(String.from_code_points(K));", "TypeError", VEC_MSG, ("str", "tup", "map")),
    ("from_utf8 element", "print(String.from_utf8([97, K]));", "TypeError", NUM_MSG, NONNUM),
    ("from_ascii element", "print(String.from_ascii([97, K]));", "TypeError", NUM_MSG, NONNUM),
    ("from_code_points element", "print(String.from_code_points([97, K]));", "TypeError", NUM_MSG, NONNUM),
    ("to_num", "print(K.to_num());", "ValueError", "Unable to parse number from '%s'.", ("str",)),
    ("hashmap key", "print({K: 1});", "ValueError", "Cannot use unhashable value '%s' as HashMap key.", ("vec", "map")),
]


def errpath_values():
    vals = []
    for w in (2, 3, 4):
        for off in range(w):
            for T in LADDER_FULL:
                t = "a" * off + CH[w] * ((T - off) // w + 1)
                S = ("str", t)
                vals.append(("str w=%d off=%d ~%d bytes" % (w, off, T), S))
                if T in LADDER_SHORT:
                    tag = "w=%d off=%d ~%d bytes" % (w, off, T)
                    vals.append(("vec of str " + tag, ("vec", [S])))
                    vals.append(("tuple of str " + tag, ("tup", [S])))
                    vals.append(("nested vec " + tag, ("vec", [("num", 1), ("vec", [("nil",), S])])))
                    vals.append(("map key " + tag, ("map", S, ("num", 1))))
                    vals.append(("map value " + tag, ("map", ("num", 1), ("tup", [S, S]))))
    return vals


NUM_SITES_FRACTION = [s for s in SITES if s[3] == INT_MSG]          # a non-integral number: the same message, ValueError
NUM_SITES_BIG = [
    ("from_utf8 element (number)", "print(String.from_utf8([97, K]));", "ValueError", "Expected a positive integer less than 256 but found '%s'."),
    ("from_ascii element (number)", "print(String.from_ascii([97, K]));", "ValueError", "Expected a positive integer less than 256 but found '%s'."),
    ("from_code_points element (number)", "print(String.from_code_points([97, K]));", "ValueError",
     "Expected a positive integer less than 4294967295 but found '%s'."),
]


def long_number_probes():
    """numbers whose printed form is long (Rust prints doubles without exponent): 10^k and 15 * 10^-(z+2), both signs"""
    out = []
    for k in (30, 70, 100, 300):
        text = "1" + "0" * k
        assert repr(float(text)) == "1e+%d" % k
        for src, shown in ((text, text), ("(-%s)" % text, "-" + text)):
            for name, stmt, kind, msg in NUM_SITES_BIG:
                out.append(("%s <- %s10^%d" % (name, "-" if shown[0] == "-" else "", k), stmt.replace("K", src), E(kind, msg % shown)))
            out.append(("display <- 10^%d" % k, "print(%s); print(String.from(%s).len());" % (src, src), [shown, str(len(shown))]))
    for z in (20, 60, 100, 300):
        text = "0." + "0" * z + "15"
        assert repr(float(text)) == "1.5e-%d" % (z + 1)
        for src, shown in ((text, text), ("(-%s)" % text, "-" + text)):
            for name, stmt, kind, msg, _ in NUM_SITES_FRACTION:
                out.append(("%s <- %s1.5e-%d" % (name, "-" if shown[0] == "-" else "", z + 1), stmt.replace("K", src), E("ValueError", msg % shown)))
            for name, stmt, kind, msg in NUM_SITES_BIG:
                out.append(("%s <- %s1.5e-%d" % (name, "-" if shown[0] == "-" else "", z + 1), stmt.replace("K", src), E(kind, msg % shown)))
    return out


def errpath_probes():
    """list of (description, statement, expected lines)"""
    out = long_number_probes()
    for vdesc, v in errpath_values():
        d = display(v)
        src = source(v)
        for name, stmt, kind, msg, kinds in SITES:
            if v[0] in kinds:
                out.append(("%s <- %s" % (name, vdesc), stmt.replace("K", src), E(kind, msg % d)))
        out.append(("display <- " + vdesc, "print(%s); print(String.from(%s).len());" % (src, src), [d, str(len(d.encode("utf-8")))]))
    return out


def errpath_cases(per_program=40):
    probes = errpath_probes()
    cases = []
    for i in range(0, len(probes), per_program):
        P = Prog("error-path probes %d..%d" % (i, min(len(probes), i + per_program) - 1), [])
        for desc, stmt, exp in probes[i:i + per_program]:
            P.op(desc, stmt, exp)
        cases.append(P.case())
    return cases, len(probes)


# ------------------------------------------------------------------------------------------
# running

def run_cases(binary, cases, timeout_ms=60000):
    recs = yvlib.run_harness(binary, ["run - " + hx(c["src"]) for c in cases], case_timeout_ms=timeout_ms)
    return [judge(c, r) for c, r in zip(cases, recs)]


def judge(case, rec):
    """None when the program printed exactly the expected lines and ended normally, else a dict describing the first difference"""
    got = [(yvlib.unhx(x[0]) if x and x[0] else b"").decode("utf-8", "replace") for x in rec.tagged("O")]
    exp = case["expected"]
    ok_end = (not rec.crashed) and rec.result[0] == "ok"
    if got == exp and ok_end:
        return None
    i = 0
    while i < len(got) and i < len(exp) and got[i] == exp[i]:
        i += 1
    # the operation the first difference belongs to
    k = -1
    for j in range(min(i, len(exp) - 1), -1, -1):
        if exp[j].startswith("@@") and exp[j][2:].isdigit():
            k = int(exp[j][2:])
            break
    end = i + 1
    while end < len(exp) and not exp[end].startswith("@@"):
        end += 1
    start = i
    while start > 0 and not exp[start].startswith("@@"):
        start -= 1
    return {"op": case["ops"][k] if k >= 0 else "(preamble)", "op_index": k,
            "expected": [x[:300] for x in exp[start + 1:end]],
            "actual": [x[:300] for x in got[start + 1:start + 1 + max(1, end - start - 1)]] + ([] if ok_end else ["program ended with %s %s" % (rec.result[0], str(rec.result[1])[:300])]),
            "result": list(rec.result) if isinstance(rec.result, tuple) else rec.result}
