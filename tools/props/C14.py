"""C14 - modules load once, keep their own globals, and cycles are reported.

Theorems (coq/props/C14.v over Modules/ModuleSpec/ModLang/ModulesProofs.v): over EVERY event sequence of the
module machine M (registry, imported flag, frames, handlers, active-module register; loader and compiler
are oracles): a body starts at most once per module object and only for an unregistered path or over the
leftover of a FAILED import (never while the module is loaded or loading), a finished module stays settled,
every completed import of a path yields the same object, a module whose body is on the frame stack is a cycle
ImportError, load/compile failures are ImportErrors that register nothing, a failed import is retried from
scratch, the active module is the module of the running closure, built-ins are in every started module.
The frame stack of M is the whole caller chain of fibers (is_loading_module walks it; handlers are per fiber).
Refinement (ModRefine.v): for EVERY escape-free program of the mini-language (no function value stored in another
module), module map and fuel the Mechanism evaluator shows what the Spec evaluator shows (C14_mech_refines_spec_partial) -
so impl == M on such a case implies impl == S on it; programs in which a function outlives the failed load that defined
it (Spec: it keeps the RETIRED instance's globals) are compared with both evaluators case by case.
Tie: (a) translator: stage order / literals / load_frame sites of vm.rs + compiler.rs regenerated into
YVGen.ImportArms and compared by computation; (b) impl == M: harness `mods` (host loader serving a module
map, LOAD records) on generated module programs, loader-call sequence + output + outcome against
ModLang.eval_mech (vm_compute); (c) impl == S: the same against ModLang.eval_spec; plus the
tests/scripts/modules corpus and two fixed probes that must pass (import at the frame limit, re-import after a failed body);
(d) the built-in file-system loader (harness `c17fs`: no host loader, a fresh temporary directory): directed cases for every
kind of unreadable module (S: an ImportError the importer can catch) and ModLang programs served as files;
(e) round 9 (tools/props/C14_r9.py): the HISTORY family (one import event repeated N = 2 .. 5000 times in one run, then probes) and
the VALUE-KIND family (every kind of value in the importer's globals), yarel text with the oracle by construction."""
import binascii
import itertools
import json
import os
import re
import shutil
import time

import yvlib
from yvlib import hx, log
from . import C14_r9 as R9

LEVEL = "proof"
TRUSTED = [
    "Coq 8.16.1 kernel (coqc), vm_compute; no native_compute, no extraction",
    "translator/translate_c14.py (token-level reading of start_import_impl, finish_import_impl, load_frame, "
    "call_closure, return_impl, unwind_stack, *_global_impl, init_built_in_globals, import_statement, core.yl)",
    "Modules.v is a hand transcription of those functions; the value stack is abstracted to the import temporaries",
    "harness `yv` commands mods/compilemod (host loader = map lookup, LOAD log), c17fs (harness/src/ext_c17.rs: temporary "
    "directory, no loader installed), tools/props/C14.py (generators, comparison, file-name function and reason table of the built-in loader)",
    "ModLang.render (Gallina) produces the yarel text that is run: the mini-language semantics is tied to yarel "
    "only through the differential comparison",
    "ownership-tag programs (tools/props/C14.py TagGen / tag_verdict): generator and oracle are Python; the oracle is the static "
    "label -> module table of the generated text (no evaluator)",
]
ASSUMPTIONS = [
    "one interpreter, one run (Vm::reset / a second Vm::execute belong to C15)",
    "the host loader is a function of the path and reports a missing module as an ImportError (harness, tests; the built-in "
    "file loader is checked to do so for every kind of unreadable file)",
    "built-in file loader: one module per path TEXT (the same file under two spellings is two modules), paths relative to the "
    "process's current directory, Path::with_extension semantics - current behaviour, followed as M",
    "fibers: Fiber.new(closure).call() chains, and single-frame generator fibers (Fiber.new(<function of any module>) driven until "
    "finished; Fiber.yield only at the top level of that function, outside try: for the module machinery a resumption is then a "
    "first call and a yield is a finish); a fiber suspended with SEVERAL frames or inside try, and a module body suspended in an "
    "abandoned fiber, are not modelled; an exception that leaves a fiber ends the run (C09 owns fibers)",
    "generated programs stay below the frame limit; the import at the frame limit is a fixed probe (and a theorem about M)",
]

FINDINGS_PATH = os.path.join(yvlib.VERIF, "notes", "C14-findings.json")
PATHS = ["main", "m1", "lib/m2", "m3", "lib/sub/m4"]
BAD = ["var = ;", 'print("x";', "fn { }"]
TRACE_RE = re.compile(r'^\[module ".*", line \d+\] in ')

# ------------------------------------------------------------------------------------------------
# programs (python side AST -> wire); semantics live in Coq (ModLang.v)


def enc_stmt(s, out):
    k = s[0]
    if k == "tag":
        out += [1, s[1]]
    elif k == "pv":
        out += [3, s[1]]
    elif k == "set":
        out += [4, s[1], s[2]]
    elif k == "imp":
        out += [5, s[1], s[2]]
    elif k == "pa":
        out += [7, s[1], s[2]]
    elif k == "sa":
        out += [8, s[1], s[2], s[3]]
    elif k == "call":
        out += [10, s[1]]
    elif k == "calla":
        out += [11, s[1], s[2]]
    elif k == "throw":
        out += [12]
    elif k == "bi":
        out += [15, s[1]]
    elif k == "fib":
        out += [16, s[1], s[2]]
    elif k == "saf":
        out += [17, s[1], s[2], s[3]]
    elif k in ("try", "blk", "lam"):
        out += [{"try": 13, "blk": 14, "lam": 18}[k]]
        for b in s[1]:
            enc_stmt(b, out)
        out += [0]
    elif k == "yield":
        out += [19]
    elif k == "gen":
        out += [22, s[1], s[2]]
        for b in s[3]:
            enc_stmt(b, out)
        out += [0]
    elif k == "def":
        out += [20, s[1], s[2]]
    elif k == "fn":
        out += [21, s[1]]
        for b in s[2]:
            enc_stmt(b, out)
        out += [0]
    else:
        raise ValueError(k)


def wire(prog):
    groups = []
    for m in prog:
        if m[0] == "ok":
            g = [0]
            for t in m[1]:
                enc_stmt(t, g)
        elif m[0] == "missing":
            g = [1]
        else:
            g = [2 + m[1]]
        groups.append(" ".join(str(x) for x in g))
    return ";".join(groups)


def walk(stmts):
    for s in stmts:
        yield s
        if s[0] in ("try", "blk", "lam"):
            yield from walk(s[1])
        elif s[0] == "fn":
            yield from walk(s[2])
        elif s[0] == "gen":
            yield from walk(s[3])


def import_edges(prog):
    e = set()
    for i, m in enumerate(prog):
        if m[0] == "ok":
            for s in walk(m[1]):
                if s[0] == "imp":
                    e.add((i, s[1]))
    return e


def graph_features(prog):
    """(has_cycle, has_diamond, clash) of the static import graph / global definitions"""
    n = 5
    e = import_edges(prog)
    adj = {i: sorted(j for (a, j) in e if a == i) for i in range(n)}
    reach = {i: set() for i in range(n)}
    for i in range(n):
        todo = list(adj[i])
        while todo:
            j = todo.pop()
            if j not in reach[i]:
                reach[i].add(j)
                todo += adj[j]
    cycle = any(i in reach[i] for i in range(n))
    diamond = False
    for u in range(n):
        for a, b in itertools.combinations(adj[u], 2):
            ra, rb = reach[a] | {a}, reach[b] | {b}
            if (ra & rb) - {u}:
                diamond = True
    defs = {}
    for i, m in enumerate(prog):
        if m[0] == "ok":
            for t in m[1]:
                if t[0] == "def":
                    defs.setdefault(t[1], {})[i] = t[2]
    clash = any(len(set(v.values())) > 1 for v in defs.values())
    return cycle, diamond, clash


def shape_program(edges, wrap, kinds, nmods=4):
    """canonical program of an import graph: every module defines x0 (different values) and f0 (prints its x0),
    prints a start tag, imports its successors in order (in try blocks when wrap), uses them, prints an end tag"""
    prog = []
    for i in range(nmods):
        if i > 0 and kinds[i] != "ok":
            prog.append(("missing",) if kinds[i] == "missing" else ("bad", (i + len(edges)) % 3))
            continue
        tops = [("def", 0, 10 * i + 1), ("fn", 0, [("pv", 0)]), ("tag", 10 * i + 1)]
        for j in sorted(b for (a, b) in edges if a == i):
            use = [("imp", j, 0), ("pa", 100 + j, 0), ("calla", 100 + j, 0)]
            if wrap:
                tops.append(("try", use))
            else:
                tops += use
        tops += [("pv", 0), ("tag", 10 * i + 2)]
        prog.append(("ok", tops))
    return prog


class Gen:
    """random module programs; termination: a function body calls only functions of a higher (module, fn) rank"""

    def __init__(self, rng):
        self.rng = rng

    def program(self):
        r = self.rng
        n = r.choice([2, 3, 3, 4, 4, 4, 5])
        self.kinds = ["ok"] + [r.choice(["ok"] * 6 + ["missing", "bad"]) for _ in range(n - 1)]
        self.n = n
        self.nfn = [r.randint(0, 3) if self.kinds[i] == "ok" else 0 for i in range(n)]
        self.clash = r.random() < 0.8
        self.escapes = r.random() < 0.35
        # round 7: some modules export a generator function f6 (simple statements and top-level yields only, never called
        # directly), driven through a fiber by whoever holds an alias of the module
        self.has_gen = [self.kinds[i] == "ok" and r.random() < 0.35 for i in range(n)]
        prog = []
        for i in range(n):
            if self.kinds[i] == "missing":
                prog.append(("missing",))
            elif self.kinds[i] == "bad":
                prog.append(("bad", r.randint(0, 2)))
            else:
                prog.append(("ok", self.module(i)))
        return prog

    def target(self, i):
        r = self.rng
        style = r.random()
        cands = list(range(1, 5 if r.random() < 0.15 else self.n))
        if style < 0.12:
            return i if i > 0 else r.choice(cands)          # self import
        if style < 0.35:
            lower = [j for j in cands if j <= i]
            return r.choice(lower or cands)                  # back edge: cycles
        return r.choice(cands)

    def alias_for(self, j, scope_names, local):
        """-> (a, code used in later references)"""
        r = self.rng
        if r.random() < 0.5:
            nm = PATHS[j].split("/")[-1]
            if not (local and nm in scope_names):
                scope_names.add(nm)
                return 0, 100 + j
        for _ in range(20):
            a = r.randint(1, 6)
            if not (local and ("a%d" % a) in scope_names):
                scope_names.add("a%d" % a)
                return a, a
        return None

    def uses(self, code, j, rank, infn):
        """statements using an alias bound to module j"""
        r = self.rng
        out = []
        for _ in range(r.randint(0, 3)):
            k = r.random()
            if k < 0.35:
                out.append(("pa", code, 0 if r.random() < 0.8 else r.randint(0, 2)))
            elif k < 0.55:
                out.append(("sa", code, 0 if r.random() < 0.7 else r.randint(0, 2), r.randint(50, 99)))
            elif k < 0.62 and j < self.n and self.has_gen[j]:
                out.append(("gen", code, 6, self.simple(r.randint(1, 3), False)))
            elif k < 0.63 and self.escapes:
                # a function value leaves its module (slot f9 of the other module); only the main script's top level calls
                # the slot, and a function body never does: the rank argument for termination is untouched
                if self.cur_nfn and not infn:
                    out.append(("saf", code, 9, r.randrange(self.cur_nfn)))
                elif self.cur_main_top:
                    out.append(("calla", code, 9))
            else:
                nf = self.nfn[j] if j < self.n else 0
                if infn and (j, 0) <= rank:
                    # only higher ranks may be called from a function body
                    cand = [f for f in range(nf) if (j, f) > rank]
                else:
                    cand = list(range(nf))
                if cand and r.random() < 0.9:
                    out.append(("calla", code, r.choice(cand)))
                elif not infn and r.random() < 0.3:
                    out.append(("calla", code, r.randint(0, 3)))     # possibly missing attribute
        return out

    def simple(self, n, yields):
        """call-free statements: bodies of generator functions (with top-level yields) and of `between` blocks"""
        r = self.rng
        out = []
        for _ in range(n):
            k = r.random()
            if k < 0.3:
                out.append(("pv", 0 if r.random() < 0.85 else r.randint(0, 2)))
            elif k < 0.5:
                out.append(("set", 0 if r.random() < 0.85 else r.randint(0, 2), r.randint(20, 49)))
            elif k < 0.6:
                out.append(("tag", r.randint(0, 99)))
            elif k < 0.7:
                out.append(("lam", [("set", 0, r.randint(20, 49)), ("pv", 0)]))
            elif k < 0.78:
                out.append(("bi", r.choice([0, 1, 2, 3])))
            elif k < 0.84:
                out.append(("try", [("throw",)]))
            elif yields:
                out.append(("yield",))
        return out

    def block(self, i, depth, rank, infn, aliases, scope_names, local, budget):
        """a statement list; aliases: dict code -> module index (static approximation of what is bound)"""
        r = self.rng
        out = []
        aliases = dict(aliases)
        for _ in range(r.randint(1, budget)):
            k = r.random()
            if k < 0.14:
                out.append(("tag", r.randint(0, 99)))
            elif k < 0.24:
                out.append(("pv", 0 if r.random() < 0.85 else r.randint(0, 2)))
            elif k < 0.31:
                out.append(("set", 0 if r.random() < 0.85 else r.randint(0, 2), r.randint(20, 49)))
            elif k < 0.55:
                j = self.target(i)
                al = self.alias_for(j, scope_names, local)
                if al is None:
                    continue
                a, code = al
                body = [("imp", j, a)]
                aliases2 = dict(aliases)
                aliases2[code] = j
                body += self.uses(code, j, rank, infn)
                if r.random() < 0.45 and depth < 2:
                    # in a try block: the alias is a local of the block
                    names = {PATHS[j].split("/")[-1] if a == 0 else "a%d" % a}
                    inner = body + (self.block(i, depth + 1, rank, infn, aliases2, names, True, 2) if r.random() < 0.3 else [])
                    out.append(("try", inner))
                else:
                    out += body
                    aliases = aliases2
            elif k < 0.70 and aliases:
                code = r.choice(sorted(aliases))
                out += self.uses(code, aliases[code], rank, infn) or [("pa", code, 0)]
            elif k < 0.80:
                nf = self.nfn[i]
                cand = [f for f in range(nf) if (not infn) or (i, f) > rank]
                if cand:
                    if r.random() < 0.35:
                        # the call goes through 1..3 nested fibers (an exception that leaves a fiber ends the run)
                        out.append(("fib", r.choice([1, 1, 2, 2, 3]), r.choice(cand)))
                    else:
                        out.append(("call", r.choice(cand)))
            elif k < 0.815 and self.has_gen[i]:
                out.append(("gen", 0, 6, self.simple(r.randint(1, 2), False)))
            elif k < 0.86:
                out.append(("bi", r.choice([0, 1, 2, 0, 1, 2, 3])))
            elif k < 0.88 and depth < 2:
                # a closure created and called at run time: its module is the running code's module
                out.append(("lam", self.block(i, depth + 1, rank, infn, aliases, set(), True, 3)))
            elif k < 0.90 and depth < 2:
                out.append(("blk", self.block(i, depth + 1, rank, infn, aliases, set(), True, 3)))
            elif k < 0.94 and depth < 2:
                out.append(("try", self.block(i, depth + 1, rank, infn, aliases, set(), True, 3)))
            elif k < 0.965:
                out.append(("throw",))
            else:
                out.append(("pa", r.randint(1, 3), 0))               # probably an undefined alias: NameError
        return out

    def module(self, i):
        r = self.rng
        tops = []
        self.cur_nfn = self.nfn[i]
        self.cur_main_top = False
        if self.clash or r.random() < 0.5:
            tops.append(("def", 0, 10 * i + 1))
        if r.random() < 0.4:
            tops.append(("def", 1, 10 * i + 2))
        for f in range(self.nfn[i]):
            k = r.random()
            if k < 0.4:
                body = [("pv", 0)]
            elif k < 0.55:
                body = [("set", 0, 60 + 10 * i + f), ("pv", 0)]
            else:
                body = self.block(i, 1, (i, f), True, {}, set(), True, 3)
            tops.append(("fn", f, body))
        if self.has_gen[i]:
            tops.append(("fn", 6, self.simple(r.randint(1, 6), True)))
        tops.append(("tag", 10 * i))
        self.cur_main_top = (i == 0)
        tops += self.block(i, 0, (i, -1), False, {}, set(), False, 6)
        self.cur_main_top = False
        if r.random() < 0.7:
            tops.append(("pv", 0))
        # late definitions: functions and variables defined after the imports (visible only once the body got that far)
        if r.random() < 0.25:
            tops.append(("def", 2, 10 * i + 3))
        return tops


# ------------------------------------------------------------------------------------------------
# evaluation


def compile_messages(binary):
    """cm[i][k] : messages of bad source k compiled under path i (oracle of the Mechanism's compiler)"""
    lines = ["compilemod %s %s" % (hx(PATHS[i]), hx(BAD[k])) for i in range(5) for k in range(3)]
    recs = yvlib.run_harness(binary, lines, shards=1)
    cm = []
    for i in range(5):
        row = []
        for k in range(3):
            r = recs[i * 3 + k]
            row.append(r.messages if r.result == ("err", "CompileError") else None)
        cm.append(row)
    return cm


def coq_preamble(cm):
    def s(x):
        return '"%s"' % x.replace('"', '""')
    tab = "[" + ";".join("[" + ";".join("[" + ";".join(s(m) for m in (row_k or [])) + "]" for row_k in row) + "]" for row in cm) + "]"
    return ("From YVGen Require Import Consts ImportArms.\nOpen Scope string_scope.\n"
            "Definition CM : list (list (list string)) := %s.\n"
            "Definition RC (w : string) := run_case CM gen_builtin_names gen_core_class_names FRAMES_MAX "
            "gen_registry_hit_checks_loading gen_builtins_init_guarded gen_loading_walks_chain "
            "gen_closure_takes_active_module w.\n" % tab)


def eval_models(progs, cm, tag):
    terms = ['RC "%s"' % wire(p) for p in progs]
    n = len(terms)
    shard = max(1, min(60, (n + yvlib.NPROC - 1) // yvlib.NPROC))
    vals = yvlib.coq_eval(["YV:ModLang"], terms, shard_size=shard, tag="C14%s_%d" % (tag, os.getpid()), preamble=coq_preamble(cm))
    shutil.rmtree(os.path.join(yvlib.BUILD, "cases", "C14%s_%d" % (tag, os.getpid())), ignore_errors=True)
    shutil.rmtree(os.path.join(yvlib.BUILD, "cases", "C14%s_%d_retry" % (tag, os.getpid())), ignore_errors=True)
    res = []
    for v in vals:
        if v is None or v.count("@") != 2:
            res.append(None)
            continue
        mech, spec, rend = v.split("@")
        parts = rend.split("~")
        mods = {}
        for p in parts[1:]:
            name, src = p.split("^", 1)
            mods[name] = src
        res.append({"mech": mech, "spec": spec, "main": parts[0], "mods": mods})
    return res


def refspec_available():
    return all(os.path.exists(os.path.join(yvlib.COQ, "theories", f)) for f in ("SpecRun.vo", "ParseRun.vo", "SpecScripts.vo"))


def eval_refspec(models, tag):
    """the full reference interpreter (SpecRun.run_program through SpecScripts.run_case, other owners' files) on the
    rendered sources with the module map -> list of (out lines, result lines) | None"""
    terms = []
    for m in models:
        mods = "; ".join('("%s", "%s")' % (k, binascii.hexlify(v.encode()).decode()) for k, v in sorted(m["mods"].items()))
        terms.append('run_case 300 [%s] "%s"' % (mods, binascii.hexlify(m["main"].encode()).decode()))
    n = len(terms)
    shard = max(1, min(40, (n + yvlib.NPROC - 1) // yvlib.NPROC))
    t = "C14ref%s_%d" % (tag, os.getpid())
    vals = yvlib.coq_eval(["YV:SpecScripts"], terms, shard_size=shard, tag=t, preamble="Open Scope string_scope.\n")
    shutil.rmtree(os.path.join(yvlib.BUILD, "cases", t), ignore_errors=True)
    shutil.rmtree(os.path.join(yvlib.BUILD, "cases", t + "_retry"), ignore_errors=True)
    res = []
    for v in vals:
        mm = re.match(r"^out=\[([0-9a-f,]*)\];res=(ok|err):([^:]*)(?::\[([0-9a-f,]*)\])?$", v or "")
        if not mm:
            res.append(None)
            continue
        unh = lambda h: binascii.unhexlify(h).decode("utf-8", "replace")
        out = [unh(x).split("\n")[0] for x in mm.group(1).split(",") if x] if mm.group(1) else []
        # an empty print would be an empty hex string: not produced by these programs
        if mm.group(2) == "ok":
            result = ["ok"]
        else:
            msgs = [unh(x) for x in (mm.group(4) or "").split(",") if x]
            result = ["dead " + mm.group(3)] + [m for m in msgs if not TRACE_RE.match(m)]
        res.append((out, result))
    return res


def mods_line(main, mods, opts="-"):
    return "mods %s %s %s" % (opts, hx(main), " ".join("%s=%s" % (hx(k), hx(v)) for k, v in sorted(mods.items())))


def impl_obs(rec):
    out = [o.split("\n")[0] for o in rec.output]
    loads = [yvlib.unhx(x[0]).decode() for x in rec.tagged("LOAD")]
    k, v = rec.result
    if k == "ok":
        result = ["ok"]
    elif k == "err":
        result = ["dead " + v] + [m for m in rec.messages if not TRACE_RE.match(m)]
    else:
        result = ["%s %s" % (k, v)]
    return out, loads, result


def split_model(s, with_flags):
    f = s.split("#")
    out = f[0].split("$") if f[0] else []
    loads = f[1].split(",") if f[1] else []
    result = f[2].split("$")
    return out, loads, result, (f[3] if with_flags and len(f) > 3 else "")


def lines_match(spec_lines, impl_lines):
    return len(spec_lines) == len(impl_lines) and all(
        (b.startswith(a[:-1]) if a.endswith("?") else a == b) for a, b in zip(spec_lines, impl_lines))


def load_findings():
    try:
        with open(FINDINGS_PATH) as fh:
            return {e["class"]: e for e in json.load(fh) if e.get("property") == "C14"}
    except Exception:
        return {}


class Checker:
    def __init__(self, ctx):
        self.ctx = ctx
        self.binary = ctx.harness("debug")
        self.cm = compile_messages(self.binary)
        if any(m is None for row in self.cm for m in row):
            ctx.corr_broken.append("a deliberately uncompilable module source compiles (compilemod)")
            self.cm = [[m or [] for m in row] for row in self.cm]
        self.open_classes = {k.get("class") for k in ctx.known_open()}
        self.pending = {}
        self.seen_classes = {}
        self.evals = 0
        self.refspec = refspec_available()
        self.ref_evals = self.ref_failed = self.ref_diff = 0
        self.ref_examples = []
        self.ref_sample = lambda n: min(n, 45 if ctx.quick() else 1200)
        self.retried = 0
        self.nontrivial = set()
        self.mism_m = 0
        self.mism_s = 0
        self.flag_b = 0
        self.reloaded = 0
        self.samples = []

    def known(self, cls, what, **kw):
        """a reproduced finding: KNOWN-FINDING when merged into known_findings.json, else a pending note"""
        self.seen_classes[cls] = self.seen_classes.get(cls, 0) + 1
        if cls in self.open_classes:
            if self.seen_classes[cls] == 1:
                self.ctx.violation(what, known_class=cls, **kw)
        else:
            self.pending[cls] = self.pending.get(cls, 0) + 1

    def observe(self, progs, tag, gc_always_every=0):
        import time
        t0 = time.time()
        models = eval_models(progs, self.cm, tag)
        log("[C14] coq_eval %s: %.1fs" % (tag, time.time() - t0))
        lines = []
        for i, m in enumerate(models):
            if m is None:
                lines.append("config")
            else:
                opts = "gc=always" if gc_always_every and i % gc_always_every == 0 else "-"
                lines.append(mods_line(m["main"], m["mods"], opts))
        recs = yvlib.run_harness(self.binary, lines, case_timeout_ms=6000)
        # a crash / timeout may be an artefact of the shared machine (harness binary rebuilt by a concurrent check,
        # CPU starvation): such cases are re-run once, alone, before they count
        bad = [i for i, r in enumerate(recs) if r.crashed]
        if bad:
            again = yvlib.run_harness(self.binary, [lines[i] for i in bad], case_timeout_ms=15000, shards=min(8, len(bad)))
            for i, r in zip(bad, again):
                recs[i] = r
            self.retried += len(bad)
        return models, recs

    def compare_one(self, prog, m, rec):
        """-> (ok_m, ok_s, mech flags, spec flags); ok_m is None when the Mechanism model gave no result (out of fuel:
        e.g. a model variant that re-runs a module body for ever)"""
        io, il, ir = impl_obs(rec)
        so, sl, sr, sflags = split_model(m["spec"], True)
        ok_s = lines_match(so, io) and sl == il and lines_match(sr, ir[:len(sr)]) and (len(ir) == 1) == (len(sr) == 1)
        if m["mech"].startswith(("ILL", "FUEL")):
            return None, ok_s, "", sflags
        mo, ml, mr, flags = split_model(m["mech"], True)
        ok_m = (io, il, ir) == (mo, ml, mr)
        return ok_m, ok_s, flags, sflags

    def check(self, progs, tag, family):
        ctx = self.ctx
        import time
        t0 = time.time()
        models, recs = self.observe(progs, tag, gc_always_every=7)
        self.last_models = models
        log("[C14] %s: %d programs observed in %.1fs" % (tag, len(progs), time.time() - t0))
        for p, m, rec in zip(progs, models, recs):
            self.evals += 1
            w = wire(p)
            if m is None or m["spec"].startswith(("ILL", "FUEL")):
                ctx.broken.append("model evaluation failed / ill-formed generated program: %s -> %s" % (w, m and (m["mech"][:80], m["spec"][:80])))
                continue
            ok_m, ok_s, flags, sflags = self.compare_one(p, m, rec)
            if ok_m is None:
                if len(ctx.broken) < 8:
                    ctx.broken.append("the Mechanism model gives no result (%s) where the Spec does: %s" % (m["mech"][:40], w))
                ok_m = True
            if "b" in flags:
                self.flag_b += 1
            okpaths = [PATHS[i] for i, mm in enumerate(p) if i > 0 and mm[0] == "ok"]
            if any(ml_.count(q) > 1 for ml_ in [(m["spec"].split("#") + ["", ""])[1].split(",")] for q in okpaths):
                self.reloaded += 1
            cyc, dia, clash = graph_features(p)
            if (cyc or dia) and clash:
                self.nontrivial.add(w)
            if rec.uaf:
                ctx.violation("use of a reclaimed object while running a module program", input=w, main=m["main"], modules=m["mods"])
            if not ok_s:
                self.mism_s += 1
                if len([v for v in ctx.violations if v.get("family")]) < 5 and len([v for v in ctx.violations if v.get("family") == family]) < 2:
                    ctx.violation("module program behaves differently from the Spec (load-once / same object / own globals / ImportError)",
                                  input=w, main=m["main"], modules=m["mods"], expected=m["spec"], actual=impl_str(rec),
                                  model=m["mech"], family=family, prog=p)
            if not ok_m:
                self.mism_m += 1
                if self.mism_m <= 5:
                    ctx.corr_broken.append("impl != M (Modules.v/ModLang.eval_mech) on %s | impl %s | model %s" % (w, impl_str(rec)[:400], m["mech"][:400]))
        if self.refspec and progs:
            k = self.ref_sample(len(progs))
            idx = [i for i in sorted(self.ctx.rng.sample(range(len(progs)), min(k, len(progs)))) if models[i] is not None]
            refs = eval_refspec([models[i] for i in idx], tag)
            for i, r in zip(idx, refs):
                self.ref_evals += 1
                io, il, ir = impl_obs(recs[i])
                if r is None:
                    self.ref_failed += 1
                elif (io, ir) != r:
                    self.ref_diff += 1
                    if len(self.ref_examples) < 3:
                        self.ref_examples.append({"wire": wire(progs[i]), "impl": [io, ir], "reference": list(r)})
        if len(self.samples) < 4 and progs:
            k = len(progs) // 2
            if models[k]:
                self.samples.append({"family": family, "wire": wire(progs[k]), "main": models[k]["main"], "modules": models[k]["mods"],
                                     "spec": models[k]["spec"]})


def impl_str(rec):
    o, l, r = impl_obs(rec)
    return "$".join(o) + "#" + ",".join(l) + "#" + "$".join(r)


# ------------------------------------------------------------------------------------------------
# fixed corpus: /repo/yarel/tests/scripts/modules


def corpus_cases():
    d = os.path.join(yvlib.REPO, "yarel", "tests", "scripts", "modules")
    files = {}
    if not os.path.isdir(d):
        return []
    for f in sorted(os.listdir(d)):
        p = os.path.join(d, f)
        if f.endswith(".yl") and os.path.isfile(p):
            with open(p) as fh:
                files[f[:-3]] = fh.read()
    mods = {"modules/" + k: v for k, v in files.items()}
    cases = []
    for name, src in files.items():
        exp = []
        for l in src.split("\n"):
            if l.startswith("// "):
                exp.append(l[3:])
            else:
                break
        code = exp.pop() if exp else "0"
        cases.append((name, src, mods, exp, code))
    return cases


def check_corpus(ch):
    ctx = ch.ctx
    cases = corpus_cases()
    recs = yvlib.run_harness(ch.binary, [mods_line(src, mods) for (_, src, mods, _, _) in cases])
    n = 0
    for (name, src, mods, exp, code), rec in zip(cases, recs):
        n += 1
        out = [l for o in rec.output for l in o.split("\n")]
        k, v = rec.result
        got = out + (rec.messages if k == "err" else []) if k in ("ok", "err") else ["<%s %s>" % (k, v)]
        want_code = {"0": "ok", "65": "CompileError"}.get(code)
        code_ok = (k == "ok") if code == "0" else (k == "err" and ((v == "CompileError") == (code == "65")))
        if got != exp or not code_ok:
            ctx.violation("tests/scripts/modules/%s.yl: output differs from its header" % name, input=name, expected=exp + [code], actual=got + [str(rec.result)])
        loads = [yvlib.unhx(x[0]).decode() for x in rec.tagged("LOAD")]
        ok_paths = [p for p in loads if p in mods and not mods[p].lstrip().startswith("(")]
        if len(set(ok_paths)) != len(ok_paths):
            ctx.violation("tests/scripts/modules/%s.yl: a loadable module was loaded twice" % name, input=name, actual=loads)
    return n


# ------------------------------------------------------------------------------------------------
# the built-in FILE-SYSTEM loader (vm.rs default_read_module_source, what the CLI uses): harness command `c17fs`
# (harness/src/ext_c17.rs) runs a program with NO host loader installed inside a fresh temporary directory.
#   M (current behaviour, followed): module "p" is the file Path(p).with_extension("yl") relative to the process's
#     current directory (also for imports made by a module in a sub-directory); a module is known by the path TEXT of the
#     import statement: "a", "./a" and "sub/../a" are three modules (the file's top-level code runs once for each);
#     the message is "Unable to read file '<file>' (<reason>)." with reason by io::ErrorKind, "other" for the rest.
#   S: an unreadable module (missing, path through a plain file, a directory of that name, an over-long name, not UTF-8,
#     not permitted) is an ImportError that the importing code can catch, and the run goes on; a readable module behaves
#     exactly as the same source served by a host loader (ModLang programs: Spec = in-memory run = file-system run).


def hxb(b):
    return binascii.hexlify(b if isinstance(b, bytes) else b.encode()).decode()


def fs_line(main, items, opts="-"):
    """items: ('f'|'x', path, content) | ('d', path)"""
    parts = []
    for it in items:
        parts.append("d:" + hxb(it[1]) if it[0] == "d" else "%s:%s=%s" % (it[0], hxb(it[1]), hxb(it[2])))
    return "c17fs %s %s %s" % (opts, hx(main), " ".join(parts))


def fs_file_of(path):
    """Path::new(path).with_extension("yl") for the paths used here"""
    d, _, base = path.rpartition("/")
    stem = base.rsplit(".", 1)[0] if "." in base.lstrip(".") and not base.endswith(".") else base
    return (d + "/" if d or path.startswith("/") else "") + stem + ".yl"


def fs_unreadable(path, reason):
    return ["<class ImportError>", "Unable to read file '%s' (%s)." % (fs_file_of(path), reason)]


LONG_NAME = "m" * 300
FS_FILES = [
    ("f", "a.yl", 'print("a body"); var x = 1; fn get() { return x; }'),
    ("f", "sub/b.yl", 'print("b body"); var x = 2;'),
    ("f", "sub/deep/c.yl", 'print("c body"); import "a"; import "sub/b"; var y = a.x + b.x;'),
    ("f", "sub/deep/rel.yl", 'print("rel body"); import "c";'),
    ("f", "plain", "var x = 1;"),
    ("d", "dmod.yl"),
    ("d", "dir"),
    ("f", "bin.yl", b'var x = "\xff\xfe";'),
    ("f", "imp_missing.yl", 'print("im body"); import "gone"; print("not reached");'),
    ("f", "badsrc.yl", "var = ;"),
    ("f", "empty.yl", ""),
    ("x", "locked.yl", 'print("locked body");'),
]
# (name, statements, expected lines, 'S' | 'M': what a difference means)
FS_ATTEMPTS = [
    ("cwd", 'import "a"; print(a.x);', ["a body", "1", "ok"], "S"),
    ("subdir", 'import "sub/b"; print(b.x);', ["b body", "2", "ok"], "S"),
    ("subdir2", 'import "sub/deep/c"; print(c.y);', ["c body", "3", "ok"], "S"),
    ("same-spelling", 'import "a" as a2; import "a"; print(a2 == a);', ["true", "ok"], "S"),
    ("dot-slash", 'import "./a" as a3; import "a"; print(a3 == a); a3.x = 5; print(a.x);', ["a body", "false", "1", "ok"], "M"),
    ("dotdot", 'import "sub/../a" as a4; import "a"; print(a4 == a); print(a4.get());', ["a body", "false", "1", "ok"], "M"),
    ("dotdot2", 'import "sub/deep/../../sub/b" as b5; import "sub/b"; print(b5 == b);', ["b body", "false", "ok"], "M"),
    ("relative-to-cwd", 'import "sub/deep/rel";', ["rel body"] + fs_unreadable("c", "file not found"), "M"),
    ("dotted-name", 'import "a.b" as ab; print(ab.x);', ["a body", "1", "ok"], "M"),
    ("missing", 'import "nope";', fs_unreadable("nope", "file not found"), "S"),
    ("missing-in-dir", 'import "sub/nope";', fs_unreadable("sub/nope", "file not found"), "S"),
    ("missing-dir", 'import "nodir/m";', fs_unreadable("nodir/m", "file not found"), "S"),
    ("through-plain-file", 'import "plain/inner";', fs_unreadable("plain/inner", "other"), "S"),
    ("directory-named-like-module", 'import "dmod";', fs_unreadable("dmod", "other"), "S"),
    ("directory", 'import "dir";', fs_unreadable("dir", "file not found"), "S"),
    ("over-long-name", 'import "%s";' % LONG_NAME, fs_unreadable(LONG_NAME, "other"), "S"),
    ("over-long-component", 'import "sub/%s/m";' % LONG_NAME, fs_unreadable("sub/%s/m" % LONG_NAME, "other"), "S"),
    ("not-utf8", 'import "bin";', fs_unreadable("bin", "invalid data"), "S"),
    ("absolute-missing", 'import "/nonexistent-yv/m";', fs_unreadable("/nonexistent-yv/m", "file not found"), "S"),
    ("imports-missing", 'import "imp_missing";', ["im body"] + fs_unreadable("gone", "file not found"), "S"),
    ("imports-missing-again", 'import "imp_missing";', ["im body"] + fs_unreadable("gone", "file not found"), "S"),
    ("uncompilable", 'import "badsrc";', ["<class ImportError>", "Error compiling module:", '    [module "badsrc", line 1] ?'], "S"),
    ("empty-file", 'import "empty"; print(empty);', ['<module "empty">', "ok"], "S"),
    ("locked", 'import "locked";', None, "S"),
    ("after", 'import "a"; import "sub/b"; print(a.x + b.x);', ["3", "ok"], "S"),
]
FS_UNCAUGHT = [("missing", "nope", "file not found"), ("through-plain-file", "plain/inner", "other"),
               ("over-long-name", LONG_NAME, "other"), ("directory-named-like-module", "dmod", "other"), ("not-utf8", "bin", "invalid data")]


def fs_main(attempts):
    out = []
    for i, (_, stmts, _, _) in enumerate(attempts):
        out.append('fn imp_%d() { print("--"); try { %s print("ok"); } catch e { print(type(e)); print(e.context); } }\nimp_%d();\n' % (i, stmts, i))
    return "".join(out) + 'print("--"); print("end");\n'


def check_fs_cases(ch, only=None):
    """the directed file-system cases -> number of cases"""
    ctx = ch.ctx
    attempts = [a for a in FS_ATTEMPTS if only is None or a[0] == only or a[0] in ("cwd", "after")]
    main = fs_main(attempts)
    lines = [fs_line(main, FS_FILES)]
    unc = [u for u in FS_UNCAUGHT if only is None or u[0] == only]
    for _, path, _ in unc:
        lines.append(fs_line('print("start"); import "%s"; print("not reached");' % path, FS_FILES))
    recs = yvlib.run_harness(ch.binary, lines, case_timeout_ms=15000, shards=min(4, len(lines)))
    rec = recs[0]
    if rec.tagged("?") or rec.tagged("E") or rec.crashed:
        ctx.broken.append("harness command c17fs unavailable or failed: %s" % (rec.lines[:3],))
        return 0
    blocks, cur = [], None
    for l in [x for o in rec.output for x in o.split("\n")]:
        if l == "--":
            cur = []
            blocks.append(cur)
        elif cur is not None:
            cur.append(l)
    readable = bool(rec.tagged("X"))
    if rec.result[0] != "ok" or len(blocks) != len(attempts) + 1 or blocks[-1] != ["end"]:
        ctx.violation("a program importing unreadable modules through the built-in file-system loader does not run to its end "
                      "(every failed import is caught in the importing function)", input=lines[0], main=main,
                      expected="%d blocks, the last one 'end', result ok" % (len(attempts) + 1),
                      actual=[rec.output[-6:], str(rec.result), rec.messages[:3]], fs_case="all")
        return len(lines)
    for (name, stmts, want, kind), got in zip(attempts, blocks):
        if name == "locked":
            want = ["locked body", "ok"] if readable else fs_unreadable("locked", "permission denied")
        if lines_match(want, got):
            continue
        # S: an unreadable module is an ImportError caught by the importer; a readable one loads.  The message text and the
        # identity of differently spelled paths are M (the model of the current loader)
        s_ok = kind == "M" or (want[0] == "<class ImportError>" and got[:1] == want[:1]) or \
            ("<class ImportError>" in want and want.index("<class ImportError>") > 0 and got[:len(want) - 1] == want[:-1])
        if s_ok:
            ctx.corr_broken.append("impl != M (built-in file loader, case %s: %s): expected %s, got %s" % (name, stmts[:80], want, got))
        elif len([v for v in ctx.violations if v.get("fs_case")]) < 3:
            ctx.violation("built-in file-system loader, case '%s': %s" % (name, "an unreadable module must be an ImportError the importer can catch"
                          if "<class ImportError>" in want else "a readable module must load as with a host loader"),
                          input=lines[0], main=stmts, files=[f[:2] for f in FS_FILES], expected=want, actual=got, fs_case=name)
    for (name, path, reason), r in zip(unc, recs[1:]):
        want_msg = "Unhandled ImportError: Unable to read file '%s' (%s)." % (fs_file_of(path), reason)
        k, v = r.result
        msgs = [m for m in r.messages if not TRACE_RE.match(m)]
        if r.output != ["start"] or k != "err" or v != "ImportError":
            if len([v_ for v_ in ctx.violations if v_.get("fs_case")]) >= 4:
                continue
            ctx.violation("built-in file-system loader, case '%s' not caught: the run must end with an ImportError" % name,
                          input='import "%s";' % path[:60], expected=["start", "err ImportError", want_msg],
                          actual=r.output + ["%s %s" % (k, v)] + msgs[:2], fs_case=name)
        elif msgs[:1] != [want_msg]:
            ctx.corr_broken.append("impl != M (built-in file loader, uncaught %s): expected %r, got %r" % (name, want_msg, msgs[:1]))
    return len(lines)


def check_fs_models(ch, progs, models=None, tag="fs"):
    """ModLang programs through the file-system loader: module i is the file <path>.yl; Spec and Mechanism as for the host
    loader (the loader calls themselves are not observable here) -> number of programs"""
    ctx = ch.ctx
    if models is None:
        models = eval_models(progs, ch.cm, tag)
    idx = [i for i, m in enumerate(models) if m is not None and not m["spec"].startswith(("ILL", "FUEL"))]
    lines = [fs_line(models[i]["main"], [("f", k + ".yl", v) for k, v in sorted(models[i]["mods"].items())]) for i in idx]
    recs = yvlib.run_harness(ch.binary, lines, case_timeout_ms=15000)
    bad = [j for j, r in enumerate(recs) if r.crashed]
    if bad:
        again = yvlib.run_harness(ch.binary, [lines[j] for j in bad], case_timeout_ms=30000, shards=min(4, len(bad)))
        for j, r in zip(bad, again):
            recs[j] = r
    for i, rec in zip(idx, recs):
        m = models[i]
        io, _, ir = impl_obs(rec)
        so, _, sr, _ = split_model(m["spec"], True)
        ok_s = lines_match(so, io) and lines_match(sr, ir[:len(sr)]) and (len(ir) == 1) == (len(sr) == 1)
        ok_m = True
        if not m["mech"].startswith(("ILL", "FUEL")):
            mo, _, mr, _ = split_model(m["mech"], True)
            ok_m = (io, ir) == (mo, mr)
        if not ok_s:
            ch.mism_s += 1
            if len([v for v in ctx.violations if v.get("fs_prog")]) < 3:
                ctx.violation("module program run through the built-in file-system loader behaves differently from the Spec",
                              input=wire(progs[i]), main=m["main"], modules=m["mods"], expected=m["spec"], actual=impl_str(rec),
                              fs_prog=progs[i])
        if not ok_m:
            ch.mism_m += 1
            if ch.mism_m <= 5:
                ctx.corr_broken.append("impl != M on %s run through the built-in file-system loader | impl %s | model %s"
                                       % (wire(progs[i]), impl_str(rec)[:300], m["mech"][:300]))
    return len(idx)


def check_fs_corpus(ch):
    """tests/scripts/modules through the real loader: the scripts' own expectations"""
    ctx = ch.ctx
    cases = [c for c in corpus_cases() if c[4] == "0"]
    lines = [fs_line(src, [("f", k + ".yl", v) for k, v in sorted(mods.items())]) for (_, src, mods, _, _) in cases]
    recs = yvlib.run_harness(ch.binary, lines, case_timeout_ms=15000)
    for (name, src, mods, exp, code), rec in zip(cases, recs):
        out = [l for o in rec.output for l in o.split("\n")]
        if out != exp or rec.result[0] != "ok":
            ctx.violation("tests/scripts/modules/%s.yl through the built-in file-system loader: output differs from its header" % name,
                          input=name, expected=exp, actual=out + [str(rec.result)] + rec.messages[:2], fs_case="corpus")
    return len(cases)


# ------------------------------------------------------------------------------------------------
# fixed probes for the recorded findings

FRAME_LIMIT_MAIN = """var print2 = print;
fn rec(n) { if n == 0 { import "q"; return 0; } return rec(n - 1); }
fn myprint(x) { print2("my " + x); }
print = myprint;
print("one");
try { rec(%d); } catch e { print2(type(e)); print2(e.context); }
print("two");
try { import "q"; } catch e { print2(type(e)); print2(e.context); }
"""


REIMPORT_MAIN = """try { import "m"; } catch e { print(type(e)); print(e); }
import "m";
print(m.x);
import "m" as again;
print(again == m);
"""
REIMPORT_MOD = """import "flag";
flag.n = flag.n + 1;
print("m start ${flag.n}");
if flag.n == 1 { throw "boom"; }
var x = 7;
"""


# round 7: the import at the frame limit as a FAMILY (was: one probe).  An import attempted when the running fiber has exactly
# FRAMES_MAX frames registers the module and then fails BEFORE its body gets a frame (IndexError "Stack overflow.", caught);
# nothing may stay behind: the next import of the path loads and runs the module.  Three places (main fiber, inside a fiber -
# the limit is per fiber -, inside the body of another module that is still loading) x three depths (one frame short of the
# limit: the import succeeds and later imports are cached; exactly at it; one beyond: the overflow hits the recursion itself).
LIMIT_REC = 'fn rec(n) { if n == 0 { import "q"; return 0; } return rec(n - 1); }\n'
LIMIT_TRY = 'try { rec(%d); print("imported"); } catch e { print(type(e)); print(e.context); }'
LIMIT_AFTER = 'print("two");\nimport "q"; print(q.z); import "q" as q2; print(q2 == q);\n'
LIMIT_Q = 'print("q body"); var z = 1;'


def frame_limit_cases(fm):
    cases = []
    for where in ("main", "fiber", "module"):
        exact = fm - 3 if where == "module" else fm - 2
        for off, name in ((-1, "one-short"), (0, "exact"), (1, "one-beyond")):
            n = exact + off
            attempt = LIMIT_TRY % n
            if where == "main":
                main, mods = LIMIT_REC + 'print("one");\n' + attempt + "\n" + LIMIT_AFTER, {"q": LIMIT_Q}
            elif where == "fiber":
                main, mods = LIMIT_REC + 'print("one");\nFiber.new(|| { ' + attempt + " }).call();\n" + LIMIT_AFTER, {"q": LIMIT_Q}
            else:
                main = 'print("one");\nimport "a";\n' + LIMIT_AFTER
                mods = {"q": LIMIT_Q, "a": LIMIT_REC + attempt}
            pre = ["a"] if where == "module" else []
            if off < 0:
                want, loads = ["one", "q body", "imported", "two", "1", "true"], pre + ["q"]
            elif off == 0:
                want, loads = ["one", "<class IndexError>", "Stack overflow.", "two", "q body", "1", "true"], pre + ["q", "q"]
            else:
                want, loads = ["one", "<class IndexError>", "Stack overflow.", "two", "q body", "1", "true"], pre + ["q"]
            cases.append(("%s/%s" % (where, name), main, mods, want, loads))
    return cases


def check_frame_limit_family(ch, fm, only=None):
    ctx = ch.ctx
    cases = [c for c in frame_limit_cases(fm) if only is None or c[0] == only]
    recs = yvlib.run_harness(ch.binary, [mods_line(m, mods) for (_, m, mods, _, _) in cases], case_timeout_ms=10000, shards=min(4, len(cases)))
    for (name, main, mods, want, wl), rec in zip(cases, recs):
        loads = [yvlib.unhx(x[0]).decode() for x in rec.tagged("LOAD")]
        if rec.output != want or rec.result[0] != "ok" or loads != wl:
            if len([v for v in ctx.violations if v.get("limit_case")]) < 2:
                ctx.violation("import around the frame limit (%s): a failed import must leave nothing behind, a successful one is cached" % name,
                              input=mods_line(main, mods), main=main, modules=mods, expected=want + ["LOAD " + l for l in wl],
                              actual=rec.output + [str(rec.result)] + rec.messages[:2] + ["LOAD " + l for l in loads], limit_case=name)
    return len(cases)


def frames_max():
    consts = {}
    try:
        with open(os.path.join(yvlib.COQ, "gen", "manifest.json")) as fh:
            consts = json.load(fh).get("consts", {})
    except Exception:
        pass
    return int(consts.get("FRAMES_MAX", 64))


def check_probes(ch):
    ctx = ch.ctx
    fm = frames_max()
    rec = yvlib.run_harness(ch.binary, [mods_line(FRAME_LIMIT_MAIN % (fm - 2), {"q": 'print("q body"); var z = 1;'})], shards=1)[0]
    out = rec.output
    # the import at the frame limit fails cleanly (IndexError delivered to the handler, the handler's own `print` untouched,
    # nothing left registered): the later import loads and runs q
    want = ["my one", "<class IndexError>", "Stack overflow.", "my two", "q body"]
    loads = [yvlib.unhx(x[0]).decode() for x in rec.tagged("LOAD")]
    if out != want or rec.result[0] != "ok" or loads != ["q", "q"]:
        ctx.violation("import at the frame limit: the failed import is not clean (module left registered / built-ins of the handler re-initialised)",
                      input=FRAME_LIMIT_MAIN % (fm - 2), expected=want + ["LOAD q", "LOAD q"], actual=out + [str(rec.result)] + ["LOAD " + l for l in loads])
    # re-import after a failed body: the body runs again from the start, in a fresh module object
    rec2 = yvlib.run_harness(ch.binary, [mods_line(REIMPORT_MAIN, {"m": REIMPORT_MOD, "flag": "var n = 0;"})], shards=1)[0]
    want2 = ["m start 1", "<class String>", "boom", "m start 2", "7", "true"]
    loads2 = [yvlib.unhx(x[0]).decode() for x in rec2.tagged("LOAD")]
    if rec2.output != want2 or rec2.result[0] != "ok" or loads2 != ["m", "flag", "m"]:
        ctx.violation("re-import after a failed module body", input=REIMPORT_MAIN, expected=want2 + ["LOAD m", "LOAD flag", "LOAD m"],
                      actual=rec2.output + [str(rec2.result)] + ["LOAD " + l for l in loads2])
    return 2 + check_frame_limit_family(ch, fm)


# ------------------------------------------------------------------------------------------------


def shrink(ch, prog, budget=30):
    """greedy removal of top-level statements / nested statements while the Spec mismatch persists"""
    def fails(p):
        models, recs = ch.observe([p], "shrink")
        m = models[0]
        if m is None or m["spec"].startswith(("ILL", "FUEL")):
            return False
        ok_m, ok_s, flags, sflags = ch.compare_one(p, m, recs[0])
        return not ok_s
    cur = [list(m) if m[0] != "ok" else ["ok", list(m[1])] for m in prog]
    changed = True
    while changed and budget > 0:
        changed = False
        for mi, m in enumerate(cur):
            if m[0] != "ok":
                continue
            k = len(m[1]) - 1
            while k >= 0 and budget > 0:
                cand = [list(x) if x[0] != "ok" else ["ok", list(x[1])] for x in cur]
                del cand[mi][1][k]
                budget -= 1
                if fails([tuple(x) for x in cand]):
                    cur = cand
                    changed = True
                k -= 1
    return [tuple(x) for x in cur]


def fiber_programs():
    """fixed regression family: an import reached through d = 0..3 nested fibers started by a module body that is still
    loading - a cycle (caught inside the innermost fiber / uncaught: fatal even under an outer try) and legitimate imports"""
    progs = []
    for d in range(4):
        # cycle, caught inside the fiber: ImportError, body not re-run, one loader call
        progs.append([("ok", [("imp", 1, 0), ("pa", 101, 0), ("imp", 1, 4), ("pa", 4, 0)]),
                      ("ok", [("def", 0, 11), ("fn", 0, [("try", [("imp", 1, 2), ("pa", 2, 0)]), ("tag", 5)]),
                              ("tag", 10), ("fib", d, 0), ("fib", d, 0), ("tag", 11)])])
        # cycle, not caught inside the fiber: fatal (d >= 1: the outer try cannot catch it)
        progs.append([("ok", [("try", [("imp", 1, 0)]), ("tag", 1)]),
                      ("ok", [("fn", 0, [("imp", 1, 2)]), ("tag", 10), ("try", [("fib", d, 0)]), ("tag", 11)])])
        # legitimate imports from inside the fibers: same object, body once
        progs.append([("ok", [("imp", 1, 0), ("imp", 2, 0), ("pa", 102, 0)]),
                      ("ok", [("fn", 0, [("imp", 2, 0), ("pa", 102, 0), ("imp", 2, 3), ("sa", 3, 0, 77), ("pa", 102, 0)]),
                              ("tag", 10), ("fib", d, 0), ("fib", d, 0), ("tag", 11)]),
                      ("ok", [("def", 0, 21), ("tag", 20)])])
        # a function of a finished module, called through fibers from main, importing a third module that imports back
        progs.append([("ok", [("imp", 1, 0), ("fn", 0, [("calla", 101, 0)]), ("fib", d, 0), ("fib", d, 0)]),
                      ("ok", [("def", 0, 11), ("fn", 0, [("try", [("imp", 3, 0), ("pa", 103, 0)]), ("pv", 0)]), ("tag", 10)]),
                      ("missing",),
                      ("ok", [("def", 0, 31), ("tag", 30), ("imp", 1, 0), ("pa", 101, 0), ("fn", 0, [("imp", 3, 5)]), ("try", [("fib", d, 0)])])])
    return progs


# ------------------------------------------------------------------------------------------------
# a function that outlives the failed load that defined it
#   layout: 0 main, 1 m1 ("flaky": stores its function f1 in m3.f9, then its load fails), 2 lib/m2 (a second store),
#   3 m3 (registry: f9 the slot, f8 copies m3.f9 to lib/m2.f7), 4 lib/sub/m4 (missing)
#   Spec: after m1 is loaded again, the OLD f1 - and every closure it creates, every function of its instance it calls -
#   reads and writes the old instance's globals; the new module m1 keeps its own.

REG = ("ok", [("fn", 9, []), ("fn", 8, [("imp", 2, 2), ("saf", 2, 7, 9)])])


def escape_program(old_body, sib_body, cause, reload, call_style, observe, x0=100):
    """cause: 'flag' (m3.x5 undefined during the first load; the main script defines it) | 'throw' | 'name' | 'missing'
    (the load fails every time); reload: 'inside' (the old function imports m1 again) | 'main' | 'both'"""
    fail = {"flag": ("pa", 1, 5), "throw": ("throw",), "name": ("pv", 3), "missing": ("imp", 4, 0)}[cause]
    body = ([("imp", 1, 2)] if reload in ("inside", "both") else []) + old_body
    if cause != "flag":
        # the reload inside fails as well: keep the old function going
        body = ([("try", [("imp", 1, 2)])] if reload in ("inside", "both") else []) + [b for b in old_body if not (b[0] in ("pa", "sa", "calla") and b[1] == 2)]
    flaky = ("ok", [("imp", 3, 1), ("def", 0, x0), ("fn", 2, sib_body), ("fn", 1, body), ("saf", 1, 9, 1), fail, ("tag", 11)])
    main = [("imp", 3, 0), ("try", [("imp", 1, 0)]), ("sa", 103, 5, 1)]
    slot = ("calla", 103, 9)
    if reload in ("main", "both"):
        main += [("calla", 103, 8)]                                  # keep the old function: lib/m2.f7 = m3.f9
        main += [("imp", 1, 0)] if cause == "flag" else [("try", [("imp", 1, 0)])]
        main += [("imp", 2, 0)]
        slot = ("calla", 102, 7)
    if call_style == "direct":
        main += [slot]
    elif call_style == "try":
        main += [("try", [slot])]
    elif call_style == "lam":
        main += [("lam", [slot])]
    else:
        main = [("fn", 5, [slot])] + main + [("fib", call_style, 5)]
    if cause == "flag":
        if reload == "inside":
            main += [("imp", 1, 0)]
        main += [o for o in observe]
    else:
        main += [slot] + [("calla", 103, 9)]                         # old instances again: their own state persists
    return [("ok", main), flaky, ("ok", []), REG, ("missing",)]


OLD_STMTS = [
    [("pv", 0)], [("set", 0, 7)], [("lam", [("set", 0, 8), ("pv", 0)])], [("lam", [("lam", [("set", 0, 9)]), ("pv", 0)])],
    [("call", 2)], [("fib", 1, 2)], [("fib", 2, 2)], [("lam", [("call", 2)])], [("try", [("lam", [("set", 0, 6), ("throw",)])])],
    [("bi", 3)], [("pa", 2, 0)], [("sa", 2, 0, 55)], [("calla", 2, 2)], [("blk", [("lam", [("pv", 0)])])],
    [("try", [("lam", [("pa", 1, 6)])]), ("pv", 0)],
]
SIB_BODIES = [[("pv", 0)], [("set", 0, 41), ("pv", 0)], [("lam", [("set", 0, 42)]), ("pv", 0)], [("lam", [("lam", [("pv", 0)])])]]
OBSERVE = [("pa", 101, 0), ("calla", 101, 2), ("pa", 101, 0), ("calla", 103, 9)]


def escape_fixed():
    """the fixed regression programs (the first two are ModRefine.ex_escape_reload_inside / _outside)"""
    lamset = [("lam", [("set", 0, 7), ("pv", 0)]), ("pv", 0)]
    progs = [
        [("ok", [("imp", 3, 0), ("try", [("imp", 1, 0)]), ("sa", 103, 5, 1), ("calla", 103, 9), ("imp", 1, 0), ("pa", 101, 0)]),
         ("ok", [("imp", 3, 1), ("def", 0, 100), ("fn", 1, [("imp", 1, 2)] + lamset + [("pa", 2, 0)]), ("saf", 1, 9, 1), ("pa", 1, 5)]),
         ("missing",), ("ok", [("fn", 9, [])])],
        [("ok", [("imp", 3, 0), ("try", [("imp", 1, 0)]), ("sa", 103, 5, 1), ("calla", 103, 8), ("imp", 1, 0), ("imp", 2, 0),
                 ("calla", 102, 7), ("pa", 101, 0)]),
         ("ok", [("imp", 3, 1), ("def", 0, 100), ("fn", 1, lamset), ("saf", 1, 9, 1), ("pa", 1, 5)]),
         ("ok", []), REG],
    ]
    for cause in ("flag", "throw", "name", "missing"):
        for reload in ("inside", "main", "both"):
            for style in ("direct", "try", "lam", 1, 2):
                progs.append(escape_program(lamset + [("call", 2), ("pa", 2, 0)], SIB_BODIES[1], cause, reload, style, OBSERVE))
    return progs


def escape_random(rng, n):
    progs = []
    for _ in range(n):
        body = []
        for _ in range(rng.randint(1, 5)):
            body += rng.choice(OLD_STMTS)
        if not any(b[0] == "lam" for b in walk(body)) and rng.random() < 0.8:
            body.insert(rng.randrange(len(body) + 1), ("lam", [("set", 0, rng.randint(60, 69)), ("pv", 0)]))
        obs = [rng.choice(OBSERVE) for _ in range(rng.randint(1, 4))]
        progs.append(escape_program(body, rng.choice(SIB_BODIES), rng.choice(["flag"] * 3 + ["throw", "name", "missing"]),
                                    rng.choice(["inside", "main", "both"]), rng.choice(["direct", "direct", "try", "lam", 1, 2, 3]),
                                    obs, x0=rng.choice([100, 100, 31])))
    return progs


# ------------------------------------------------------------------------------------------------
# round 7: a fiber whose FIRST frame is a function of another module than its caller's (statement SGen of ModLang):
#   { var g_ = Fiber.new(<alias>.f6); while !g_.has_finished() { g_.call(); { between } } }
# the function runs up to its first top-level Fiber.yield(), the caller runs `between`, resumes it, ... until it has finished.
# Spec: the function's code reads / writes / creates closures in the module it was DEFINED in, on the first call and after
# every resumption; the caller is back in ITS module after every yield and after the function has finished.
# Sites of vm.rs this aims at: load_fiber (new / resumed), unload_fiber (Fiber.yield), return_impl's finished-fiber branch -
# every one of them must re-derive Vm.active_module (load_frame).


def gen_fn(f, segs):
    body = []
    for i, sg in enumerate(segs):
        if i:
            body.append(("yield",))
        body += sg
    return ("fn", f, body)


def worker_tops(w, segs):
    """module w as a worker: x0, x2 (a name ONLY workers have), helper f2, the generator function f6"""
    return [("def", 0, 10 * w + 1), ("def", 2, 10 * w + 2), ("fn", 2, [("pv", 0)]), gen_fn(6, segs), ("tag", 10 * w)]


M3_HELPER = ("ok", [("def", 0, 31), ("fn", 0, [("pv", 0)]), gen_fn(6, [[("pv", 0)], [("set", 0, 39), ("pv", 0)]]), ("tag", 30)])
# x1 is a name ONLY the driving module has; x2 one only the worker has
GEN_BETWEEN = [("pv", 0), ("set", 0, 5), ("pv", 0), ("lam", [("pv", 0)]), ("pv", 1)]
GEN_SEGS = [
    [[("pv", 0), ("set", 0, 77), ("pv", 0), ("pv", 2)]],                                     # no yield: the fiber FINISHES on its first call
    [[("pv", 0)], [("set", 0, 77), ("pv", 0), ("pv", 2)]],
    [[("pv", 0), ("lam", [("set", 0, 70), ("pv", 0)])], [("call", 2), ("pv", 2)], [("set", 0, 79), ("pv", 0)]],
    [[("imp", 3, 2), ("pa", 2, 0)], [("pa", 2, 0), ("calla", 2, 0), ("pv", 0)]],           # a local alias lives across the yield
    [[("try", [("throw",)]), ("pv", 0)], [("try", [("pa", 2, 0)]), ("pv", 0)]],
    [[("fib", 2, 2)], [("fib", 1, 2), ("pv", 0)]],
    [[("pv", 0)], [("throw",)]],                                                               # not caught inside the fiber: fatal
    [[("imp", 3, 2), ("gen", 2, 6, [("pv", 0)])], [("pv", 0)]],                              # the generator drives a generator of a third module
]


def gen_driver(d, g, worker, extra_main=()):
    """-> program; g = the SGen statement, worker = tops of m1"""
    m1 = ("ok", worker)
    after = [("pv", 0), ("pv", 1)]
    mdefs = [("def", 0, 1), ("def", 1, 2)]
    if d == 0:      # the main script's top level
        return [("ok", mdefs + [("imp", 1, 0), g] + after + [("pa", 101, 0)]), m1, ("ok", []), M3_HELPER]
    if d == 1:      # a function of main
        return [("ok", mdefs + [("fn", 5, [("imp", 1, 0), g] + after), ("call", 5)] + after), m1, ("ok", []), M3_HELPER]
    if d == 2:      # inside try
        return [("ok", mdefs + [("try", [("imp", 1, 0), g] + after)] + after), m1, ("ok", []), M3_HELPER]
    if d == 3:      # inside a closure created at run time
        return [("ok", mdefs + [("imp", 1, 0), ("lam", [g] + after)] + after), m1, ("ok", []), M3_HELPER]
    if d == 4:      # driven from inside two nested fibers
        return [("ok", mdefs + [("fn", 5, [("imp", 1, 0), g] + after), ("fib", 2, 5)] + after), m1, ("ok", []), M3_HELPER]
    if d == 5:      # driven by the body of lib/m2 while lib/m2 is still loading
        m2 = ("ok", [("def", 0, 21), ("def", 1, 22), ("imp", 1, 0), g] + after + [("tag", 20)])
        return [("ok", mdefs + [("imp", 2, 0)] + after + [("pa", 102, 0)]), m1, m2, M3_HELPER]
    if d == 6:      # driven by a function of lib/m2 called from main: three modules on the way
        m2 = ("ok", [("def", 0, 21), ("def", 1, 22), ("fn", 1, [("imp", 1, 0), g] + after), ("tag", 20)])
        return [("ok", mdefs + [("imp", 2, 0), ("calla", 102, 1)] + after + [("pa", 102, 0)]), m1, m2, M3_HELPER]
    # d == 7: the generator is a function of the driving module itself (a = 0)
    own = [t for t in worker if not (t[0] == "def" and t[1] == 0) and t[0] != "tag"]
    return [("ok", mdefs + own + [("gen", 0, 6, g[3])] + after), ("ok", []), ("ok", []), M3_HELPER]


def generator_fixed():
    progs = []
    for segs in GEN_SEGS:
        for d in range(8):
            progs.append(gen_driver(d, ("gen", 101, 6, GEN_BETWEEN), worker_tops(1, segs)))
    # `between` throws after the first hand-back: caught by a try around the whole drive (the fiber stays suspended), the
    # driver goes on in its own globals
    for segs in GEN_SEGS[:3]:
        for d in (2,):
            progs.append(gen_driver(d, ("gen", 101, 6, [("pv", 0), ("throw",)]), worker_tops(1, segs)))
    return progs


GEN_SEG_STMTS = [
    [("pv", 0)], [("set", 0, 71)], [("pv", 2)], [("set", 2, 72), ("pv", 2)], [("call", 2)], [("lam", [("pv", 0)])],
    [("lam", [("set", 0, 73)]), ("pv", 0)], [("try", [("throw",)])], [("fib", 1, 2)], [("bi", 0)], [("bi", 3)], [("tag", 7)],
    [("blk", [("pv", 0)])], [("try", [("pv", 1)])], [("imp", 3, 2), ("pa", 2, 0)], [("try", [("pa", 2, 0)])],
    [("try", [("imp", 3, 3), ("gen", 3, 6, [("pv", 0)])])], [("lam", [("lam", [("set", 0, 74), ("pv", 0)])])],
]
GEN_BETWEEN_STMTS = [
    [("pv", 0)], [("set", 0, 6), ("pv", 0)], [("pv", 1)], [("lam", [("pv", 0)])], [("lam", [("set", 0, 8)]), ("pv", 0)],
    [("pa", 101, 0)], [("sa", 101, 0, 15)], [("try", [("pv", 2)])], [("bi", 1)], [("tag", 3)], [("calla", 101, 2)],
    [("try", [("throw",)]), ("pv", 0)],
]


def generator_random(rng, n):
    progs = []
    for _ in range(n):
        segs = []
        for _ in range(rng.choice([1, 1, 2, 2, 3, 4])):
            sg = []
            for _ in range(rng.randint(0, 3)):
                sg += rng.choice(GEN_SEG_STMTS)
            segs.append(sg)
        # at most one binding of a local alias per function body
        seen = set()
        for sg in segs:
            for i in range(len(sg) - 1, -1, -1):
                if sg[i][0] == "imp":
                    if sg[i][2] in seen:
                        del sg[i]
                    else:
                        seen.add(sg[i][2])
        d = rng.randrange(8)
        between = []
        for _ in range(rng.randint(1, 3)):
            between += rng.choice(GEN_BETWEEN_STMTS)
        if d == 7:
            between = [b for b in between if not (b[0] in ("pa", "sa", "calla") and b[1] == 101)] or [("pv", 0)]
        progs.append(gen_driver(d, ("gen", 101, 6, between), worker_tops(1, segs)))
    return progs


# ------------------------------------------------------------------------------------------------
# round 7, beyond the mini-language: OWNERSHIP-TAG programs (yarel text, self-checking).  Every module has `var who = "<its
# name>"` and a counter `var n = 0`; the only observable action is  P = `n = n + 1; print("L<id> " + who);`  with a label id that
# is unique in the program, so the module whose SOURCE contains the label is known statically (owner[id]).  Around the P's:
# direct calls into other modules, closures, try / throw / catch, fibers created from functions of other modules, Fiber.yield
# from nested frames (a fiber suspended with several frames of several modules), yields inside try, fibers handed to a `drive`
# function of a third module, fibers that finish at once.  Spec (lexical globals, no evaluator needed): the run ends ok; every
# printed line `L<id> <who>` has who == owner[id]; at the end module m's n == number of lines printed by m's labels.
# Termination / validity by construction: calls and drives go to functions of strictly higher (module, index) rank; only
# "fiber" functions yield, and they are entered only through Fiber.new or from another fiber function.

TAG_NAMES = ["main", "ta", "tb", "tc"]


class TagGen:
    def __init__(self, rng, nmods=4, nfn=3):
        self.r = rng
        self.nmods, self.nfn = nmods, nfn
        self.owner = {}
        self.nlab = 0
        self.cost = {}
        self.kind = {}

    def P(self, m):
        self.nlab += 1
        self.owner[self.nlab] = m
        return 'n = n + 1; print("L%d " + who);' % self.nlab

    def ref(self, m, t):
        return ("t%d" % t[1]) if t[0] == m else "%s.t%d" % (TAG_NAMES[t[0]], t[1])

    def body(self, m, rank, fiber, depth, budget):
        """-> (text, cost)"""
        r = self.r
        parts, cost = [self.P(m)], 1
        for _ in range(r.randint(1, 4 if depth == 0 else 2)):
            k = r.random()
            higher = [t for t in self.cost if t > rank and t[0] >= m and cost + self.cost[t] < budget]
            if k < 0.2:
                parts.append(self.P(m))
                cost += 1
            elif k < 0.4 and fiber:
                parts += ["Fiber.yield();", self.P(m)]
                cost += 1
            elif k < 0.58:
                cands = [t for t in higher if fiber or self.kind[t] == "plain"]
                if cands:
                    t = r.choice(cands)
                    parts += ["%s();" % self.ref(m, t), self.P(m)]
                    cost += self.cost[t] + 1
            elif k < 0.78:
                if higher:
                    t = r.choice(higher)
                    drv = r.choice([None] + list(range(m, self.nmods)))
                    if drv is None:
                        parts.append("{ var g_ = Fiber.new(%s); while !g_.has_finished() { g_.call(); %s } }" % (self.ref(m, t), self.P(m)))
                    else:
                        d = "drive" if drv == m else "%s.drive" % TAG_NAMES[drv]
                        parts.append("{ var g_ = Fiber.new(%s); %s(g_); }" % (self.ref(m, t), d))
                    parts.append(self.P(m))
                    cost += 3 * self.cost[t] + 2
            elif k < 0.9 and depth < 2:
                inner, c = self.body(m, rank, fiber, depth + 1, budget - cost)
                parts.append('try { %s throw "t"; } catch e_ { %s }' % (inner, self.P(m)))
                cost += c + 1
            elif depth < 2:
                inner, c = self.body(m, rank, fiber, depth + 1, budget - cost)
                parts.append("{ var c_ = || { %s }; c_(); }" % inner)
                parts.append(self.P(m))
                cost += c + 1
        return " ".join(parts), cost

    def program(self):
        r = self.r
        fns = {}
        order = [(m, i) for m in range(self.nmods) for i in range(self.nfn)]
        for t in order:
            self.kind[t] = r.choice(["plain", "fiber", "fiber"])
        for t in reversed(order):                         # callees first: their cost is known
            txt, c = self.body(t[0], t, self.kind[t] == "fiber", 0, 120)
            fns[t] = txt
            self.cost[t] = c
        srcs = []
        for m in range(self.nmods):
            L = ['var who = "%s"; var n = 0;' % TAG_NAMES[m]]
            L += ['import "%s";' % TAG_NAMES[j] for j in range(m + 1, self.nmods)]
            L.append("fn drive(f_) { while !f_.has_finished() { f_.call(); %s } }" % self.P(m))
            for i in range(self.nfn):
                L.append("fn t%d() { %s }" % (i, fns[(m, i)]))
            srcs.append(L)
        # the main script: every plain function of main directly, every function of every module through a fiber driven by
        # main or handed to some module's drive
        main = srcs[0]
        for t in order:
            if t[0] == 0 and self.kind[t] == "plain":
                main.append("t%d(); %s" % (t[1], self.P(0)))
        picks = [t for t in order if r.random() < 0.5] or [order[-1]]
        for t in picks:
            drv = r.choice([None] + list(range(self.nmods)))
            if drv is None:
                main.append("{ var g_ = Fiber.new(%s); while !g_.has_finished() { g_.call(); %s } }" % (self.ref(0, t), self.P(0)))
            else:
                d = "drive" if drv == 0 else "%s.drive" % TAG_NAMES[drv]
                main.append("{ var g_ = Fiber.new(%s); %s(g_); } %s" % (self.ref(0, t), d, self.P(0)))
        main.append('print("N main"); print(n);')
        for j in range(1, self.nmods):
            main.append('print("N %s"); print(%s.n);' % (TAG_NAMES[j], TAG_NAMES[j]))
        mods = {TAG_NAMES[j]: "\n".join(srcs[j]) for j in range(1, self.nmods)}
        return "\n".join(main), mods, {str(k): v for k, v in self.owner.items()}


def tag_verdict(rec, owner):
    """-> None when the run satisfies the Spec, else a description"""
    if rec.result[0] != "ok":
        return "the run does not end ok: %s %s" % (rec.result, rec.messages[:2])
    lines = [l for o in rec.output for l in o.split("\n")]
    counts = {}
    i = 0
    seen_n = 0
    while i < len(lines):
        l = lines[i]
        mm = re.match(r"^L(\d+) (\w+)$", l)
        if mm:
            own = owner.get(mm.group(1))
            if own is None or TAG_NAMES[own] != mm.group(2):
                return "line %d `%s`: printed by code of module %s but it read the global `who` of module %s" % (
                    i, l, TAG_NAMES[own] if own is not None else "?", mm.group(2))
            counts[own] = counts.get(own, 0) + 1
            i += 1
            continue
        mm = re.match(r"^N (\w+)$", l)
        if mm and i + 1 < len(lines):
            m = TAG_NAMES.index(mm.group(1))
            if lines[i + 1] != str(counts.get(m, 0)):
                return "module %s: its counter n is %s but its code ran %d increments (a write went to another module's globals)" % (
                    mm.group(1), lines[i + 1], counts.get(m, 0))
            seen_n += 1
            i += 2
            continue
        return "unexpected line %r" % l
    if seen_n != len(TAG_NAMES):
        return "the final counters are missing"
    return None


def check_tag_programs(ch, n, only=None):
    ctx = ch.ctx
    if only is not None:
        cases = [(only["main"], only["modules"], only["owner"])]
    else:
        cases = [TagGen(ctx.rng).program() for _ in range(n)]
    lines = [mods_line(m, mods, "gc=always" if i % 9 == 0 else "-") for i, (m, mods, _) in enumerate(cases)]
    recs = yvlib.run_harness(ch.binary, lines, case_timeout_ms=10000)
    bad = [i for i, r in enumerate(recs) if r.crashed]
    if bad:
        # (machine load: a collecting debug build under a 10x oversubscribed CPU) re-run alone, generously, before believing it
        again = yvlib.run_harness(ch.binary, [lines[i] for i in bad], case_timeout_ms=90000, shards=min(2, len(bad)))
        for i, r in zip(bad, again):
            recs[i] = r
        ch.retried += len(bad)
    nl = 0
    for (main, mods, owner), rec in zip(cases, recs):
        nl += sum(len(o.split("\n")) for o in rec.output)
        why = tag_verdict(rec, owner)
        if rec.uaf:
            why = (why or "") + " use of a reclaimed object"
        if why:
            ch.mism_s += 1
            if len([v for v in ctx.violations if v.get("tag_case")]) < 2:
                ctx.violation("ownership-tag program: code of one module ran with another module's globals (calls / closures / try / fibers "
                              "created from functions of other modules, yielding from nested frames, driven by a third module): " + why,
                              input=mods_line(main, mods), main=main, modules=mods, expected="every line L<id> <who> has who == the module "
                              "whose source contains L<id>; final counters = lines per module; result ok",
                              actual=[l for o in rec.output for l in o.split("\n")][-12:] + [str(rec.result)] + rec.messages[:2],
                              tag_case={"main": main, "modules": mods, "owner": owner})
    ch.tag_lines = getattr(ch, "tag_lines", 0) + nl
    return len(cases)


USE_NAMES = ["RuntimeError", "clock", "type", "print", "Type", "Object", "Nil", "Bool", "Num", "Func", "BuiltIn", "Method",
             "BuiltInMethod", "String", "Iter", "MapIter", "FilterIter", "Tuple", "Vec", "Range", "HashMap", "Fiber", "Error",
             "AttributeError", "IndexError", "ImportError", "NameError", "TypeError", "ValueError", "StopIter"]   # = ModLang.use_names
ERROR_CLASSES = ["Error", "RuntimeError", "AttributeError", "IndexError", "ImportError", "NameError", "TypeError", "ValueError"]


def source_names():
    """what the CURRENT sources install (translator): names of init_built_in_globals (with their module argument) + core.yl classes"""
    try:
        with open(os.path.join(yvlib.COQ, "gen", "manifest.json")) as fh:
            c = json.load(fh).get("c14", {})
    except Exception:
        c = {}
    inst = [n for n, _ in c.get("builtin_installs", [])]
    return inst, c.get("core_class_names", []), c.get("builtin_misinstalled", [])


def name_programs(names):
    """directed family (mini-language): for every start-up name, modules at import depth 1 and 2, a module imported inside a
    function and one imported inside a fiber use the name in their body and in an exported function; main uses it too"""
    progs = []
    for nm in names:
        k = 3 + USE_NAMES.index(nm)
        use = ("bi", k)
        leaf = lambda t: ("ok", [("tag", t), use, ("fn", 0, [use]), ("tag", t + 1)])
        progs.append([
            ("ok", [use, ("imp", 1, 0), ("calla", 101, 0),
                    ("fn", 1, [("imp", 3, 0), ("calla", 103, 0)]), ("call", 1),
                    ("fn", 2, [("imp", 4, 0), ("calla", 104, 0)]), ("fib", 2, 2), ("fib", 1, 1), use]),
            ("ok", [("tag", 10), use, ("fn", 0, [use]), ("imp", 2, 0), ("calla", 102, 0), ("tag", 11)]),
            leaf(20), leaf(30), leaf(40)])
    return progs


def name_snippet(nm):
    """yarel statements that USE a start-up name appropriately; must print the same lines in every module"""
    if nm in ("clock", "type", "print"):
        return 'print(%s); print(type(%s)); print(type(%s) == BuiltIn);' % (nm, nm, nm)
    if nm == "StopIter":
        return ('class CountDown_ { #[constructor] fn new(self, n) { self.n = n; } fn iter(self) { return self; } '
                'fn next(self) { if self.n == 0 { return StopIter.new(); } self.n -= 1; return self.n + 1; } } '
                'for v_ in CountDown_.new(2) { print(v_); } print(StopIter); print(type(StopIter.new()) == StopIter);')
    if nm in ERROR_CLASSES:
        return ('try { throw %s.new("ctx"); } catch e_ { print(type(e_) == %s); print(type(e_)); print(e_.context); } '
                'print(%s);' % (nm, nm, nm))
    if nm == "Fiber":
        return 'print(Fiber); print(Fiber.new(|| 7).call());'
    if nm == "Vec":
        return 'print(Vec); print(type([1]) == Vec);'
    if nm == "HashMap":
        return 'print(HashMap); print(type({1: 2}) == HashMap);'
    if nm == "Tuple":
        return 'print(Tuple); print(type((1, 2)) == Tuple);'
    if nm == "Range":
        return 'print(Range); print(type(1..2) == Range);'
    if nm == "String":
        return 'print(String); print(type("s") == String); print(String.from(5));'
    if nm == "Num":
        return 'print(Num); print(type(1) == Num);'
    if nm == "Bool":
        return 'print(Bool); print(type(true) == Bool);'
    if nm == "Nil":
        return 'print(Nil); print(type(nil) == Nil);'
    if nm == "Func":
        return 'print(Func); print(type(|| 1) == Func);'
    if nm == "BuiltIn":
        return 'print(BuiltIn); print(type(print) == BuiltIn);'
    return 'print(%s); print(type(%s));' % (nm, nm)


def name_text_case(nm):
    """main runs the snippet; so do an imported module (body + exported function, depth 1), a module it imports (depth 2), a module
    imported inside a function and one imported inside a fiber.  Spec: every block prints what main's block prints."""
    sn = name_snippet(nm)
    leaf = 'print("--"); %s fn use_() { print("--"); %s }' % (sn, sn)
    mods = {"na": leaf + ' import "nb"; nb.use_();', "nb": leaf, "nc": leaf, "nd": leaf}
    main = ('print("--"); %s import "na"; na.use_(); fn f_() { import "nc"; nc.use_(); } f_(); '
            'fn g_() { import "nd"; nd.use_(); return 0; } Fiber.new(|| g_()).call();' % sn)
    return main, mods


def check_name_text(ch, names):
    """-> (cases, names whose snippet behaves in every module as in main)"""
    ctx = ch.ctx
    cases = [name_text_case(nm) for nm in names]
    recs = yvlib.run_harness(ch.binary, [mods_line(m, mods) for m, mods in cases], case_timeout_ms=6000)
    good = []
    for nm, (main, mods), rec in zip(names, cases, recs):
        blocks, cur = [], None
        for l in [x for o in rec.output for x in o.split("\n")]:
            if l == "--":
                cur = []
                blocks.append(cur)
            elif cur is not None:
                cur.append(re.sub(r"0x[0-9a-f]+", "ADDR", l))
        ok = rec.result[0] == "ok" and len(blocks) == 9 and all(b == blocks[0] for b in blocks) and len(blocks[0]) > 0
        if ok:
            good.append(nm)
        elif len([v for v in ctx.violations if v.get("name_family")]) < 3:
            ctx.violation("the start-up name %s is not usable inside an imported module as it is in the main script" % nm,
                          input=mods_line(main, mods), main=main, modules=mods, expected=[blocks[0] if blocks else "?"] * 9,
                          actual=blocks + [str(rec.result)] + rec.messages[:2], name_family=nm)
    return len(cases), good


def check_round9(ch, quick, history_only=None, kind_only=None):
    """round 9 (tools/props/C14_r9.py): the HISTORY family (one import event repeated N times in one run, then probes) and the
    VALUE-KIND family (every kind of value in the importer's globals); text cases, oracle by construction.  The release build runs
    all of them (the debug build is ~200x slower on them), the debug build (overflow checks, debug assertions) a small sample."""
    ctx = ch.ctx
    fm = frames_max()
    rel = ctx.harness("release")
    n = 0
    t0 = time.time()
    if kind_only is None:
        n += R9.check_history(ctx, rel, ctx.rng, quick, fm, only=history_only)
    if history_only is None:
        n += R9.check_kinds(ctx, rel, only=kind_only)
    if history_only is None and kind_only is None:
        small = [R9.history_case(k, m, "host" if k in R9.HOST_ONLY else "main", "top") for k in R9.KINDS for m in (fm + 1,) if k != "distinct"]
        small += [R9.chain_case(d, fm) for d in (fm - 1, fm)]
        n += R9.check_cases(ctx, ch.binary, small, "a HISTORY of import events, then probes (debug build)", "history_case")
        n += R9.check_kinds(ctx, ch.binary, only="kinds/main/top")
    log("[C14] round-9 families: %d cases in %.1fs" % (n, time.time() - t0))
    return n


def all_edge_sets(nmods=4):
    pairs = [(a, b) for a in range(nmods) for b in range(1, nmods)]
    for mask in range(1 << len(pairs)):
        yield [pairs[i] for i in range(len(pairs)) if mask >> i & 1]


def run(ctx):
    quick = ctx.quick()
    rng = ctx.rng
    ch = Checker(ctx)
    if ctx.replay_only:
        if "prog" in ctx.replay_only:
            ch.check([detuple(ctx.replay_only["prog"])], "replay", "replay")
        elif "tag_case" in ctx.replay_only:
            check_tag_programs(ch, 1, only=ctx.replay_only["tag_case"])
        elif "history_case" in ctx.replay_only:
            check_round9(ch, quick, history_only=ctx.replay_only["history_case"])
        elif "kind_case" in ctx.replay_only:
            check_round9(ch, quick, kind_only=ctx.replay_only["kind_case"])
        elif "limit_case" in ctx.replay_only:
            check_frame_limit_family(ch, frames_max(), ctx.replay_only["limit_case"])
        elif "name_family" in ctx.replay_only:
            check_name_text(ch, [ctx.replay_only["name_family"]])
        elif "fs_prog" in ctx.replay_only:
            check_fs_models(ch, [detuple(ctx.replay_only["fs_prog"])], tag="replay")
        elif ctx.replay_only.get("fs_case") == "corpus":
            check_fs_corpus(ch)
        elif "fs_case" in ctx.replay_only:
            check_fs_cases(ch, None if ctx.replay_only["fs_case"] == "all" else ctx.replay_only["fs_case"])
        else:
            check_probes(ch)
        return
    # 1. directed families first: corpus, probes, fibers, every start-up name inside imported modules
    ncorpus = check_corpus(ch)
    nprobe = check_probes(ch)
    ch.nr9 = check_round9(ch, quick)
    fibs = fiber_programs()
    ch.check(fibs, "fibers", "imports through nested fibers (fixed regression family)")
    fib_models = ch.last_models
    # a function that outlives the failed load that defined it: fixed regression programs + randomised instances of the shape
    esc = escape_fixed() + escape_random(rng, 40 if quick else 900)
    ch.check(esc, "escape", "a function outlives the failed load that defined it: it keeps the old instance's globals")
    esc_models = ch.last_models
    # round 7: a fiber whose first frame is a function of another module - finishing at once, yielding, resumed
    gens = generator_fixed() + generator_random(rng, 30 if quick else 600)
    ch.check(gens, "generators", "a fiber whose first frame is a function of another module (finishes / yields / is resumed): "
                                 "it runs in its own module's globals, the caller is back in its own after every hand-back")
    gen_models = ch.last_models
    ch.ngen = len(gens)
    ch.ntag = check_tag_programs(ch, 30 if quick else 600)
    # the built-in file-system loader: directed cases, tests/scripts/modules, and model programs served as files
    nfs = check_fs_cases(ch) + check_fs_corpus(ch)
    kfs = 24 if quick else len(esc)
    kgf = 16 if quick else len(gens)
    nfs += check_fs_models(ch, fibs + esc[:kfs] + gens[:kgf], fib_models + esc_models[:kfs] + gen_models[:kgf])
    ch.nfs = nfs
    ch.nesc = len(esc)
    inst, core, misinst = source_names()
    src_names = []
    for n in inst + core:
        if n not in src_names:
            src_names.append(n)
    covered = [n for n in src_names if n in USE_NAMES]
    uncovered = [n for n in src_names if n not in USE_NAMES]
    coq_names = yvlib.coq_eval(["YV:ModLang"], ['String.concat "," use_names'], tag="C14names_%d" % os.getpid())[0]
    shutil.rmtree(os.path.join(yvlib.BUILD, "cases", "C14names_%d" % os.getpid()), ignore_errors=True)
    if coq_names != ",".join(USE_NAMES):
        ctx.broken.append("tools/props/C14.py USE_NAMES differs from ModLang.use_names")
    if misinst:
        ctx.broken.append("init_built_in_globals installs %s into a fixed module instead of its module argument" % misinst)
    if uncovered:
        ctx.notes.append("start-up names of the current sources not covered by the directed families: %s" % uncovered)
    nprogs = name_programs(covered)
    ch.check(nprogs, "names", "every start-up name used in imported modules (depth 1, 2, in a function, in a fiber)")
    ntext, text_ok = check_name_text(ch, covered)
    deadline = getattr(ctx, "deadline", None)
    if deadline:
        # search mode (an obligation is broken, no failing input yet): the directed families above ran first; now random and
        # graph-shape programs in chunks until a failing input shows up or the time is used up
        g = Gen(rng)
        base = list(all_edge_sets(4))
        nshapes = nrnd = 0
        while time.time() < deadline and not ctx.violations:
            chunk = [g.program() for _ in range(200)] + [shape_program(rng.choice(base), rng.random() < 0.5, ["ok"] * 4) for _ in range(60)] \
                + escape_random(rng, 60) + generator_random(rng, 60)
            ch.check(chunk, "search", "search")
            nrnd += 240
            nshapes += 80
        return finish(ctx, ch, quick, ncorpus, nprobe, nshapes, nrnd, fibs, nprogs, covered, uncovered, ntext, text_ok)
    # 2. all import-graph shapes over <= 4 modules (thorough: all 4096 edge sets x {bare, try}; quick: a sample)
    shapes = []
    edge_sets = list(all_edge_sets(4))
    if quick:
        edge_sets = [edge_sets[0], edge_sets[-1]] + rng.sample(edge_sets, 90)
    for es in edge_sets:
        for wrap in (False, True):
            shapes.append(shape_program(es, wrap, ["ok"] * 4))
    # missing / uncompilable members
    kinds_pool = [k for k in itertools.product(["ok", "missing", "bad"], repeat=3) if k != ("ok", "ok", "ok")]
    base = list(all_edge_sets(4))
    for _ in range(80 if quick else 1500):
        es = rng.choice(base)
        kinds = ["ok"] + list(rng.choice(kinds_pool))
        shapes.append(shape_program(es, rng.random() < 0.6, kinds))
    ch.check(shapes, "shapes", "graph shapes")
    nshapes = len(shapes)
    kfs = 30 if quick else 600
    ch.nfs += check_fs_models(ch, shapes[-kfs:], ch.last_models[-kfs:])
    # 3. random programs
    g = Gen(rng)
    rnd = [g.program() for _ in range(300 if quick else 4000)]
    ch.check(rnd, "random", "random")
    return finish(ctx, ch, quick, ncorpus, nprobe, nshapes, len(rnd), fibs, nprogs, covered, uncovered, ntext, text_ok)


def finish(ctx, ch, quick, ncorpus, nprobe, nshapes, nrnd, fibs, nprogs, covered, uncovered, ntext, text_ok):
    # shrink the first genuine violation
    fam = [v for v in ctx.violations if v.get("family")]
    for v in fam[:1]:
        try:
            small = shrink(ch, v["prog"], budget=(8 if "timeout" in str(v.get("actual")) else 30))
            models, recs = ch.observe([small], "shrunk")
            if models[0]:
                v.update({"input": wire(small), "prog": small, "main": models[0]["main"], "modules": models[0]["mods"],
                          "expected": models[0]["spec"], "actual": impl_str(recs[0]), "model": models[0]["mech"]})
        except Exception as e:  # keep the unshrunk witness
            ctx.notes.append("shrinking failed: %r" % e)
    if not ch.refspec:
        ctx.notes.append("SpecRun/ParseRun/SpecScripts .vo not present: comparison with the full reference interpreter skipped")
    elif ch.ref_diff or ch.ref_failed:
        ctx.notes.append("full reference interpreter (SpecRun.run_program; not owned by this check) disagrees with the implementation on %d of %d "
                         "sampled module programs (%d not evaluated): %s" % (ch.ref_diff, ch.ref_evals, ch.ref_failed, json.dumps(ch.ref_examples)[:1500]))
    findings = load_findings()
    for cls, n in sorted(ch.pending.items()):
        ctx.notes.append("finding %s reproduced on %d case(s); recorded in notes/C14-findings.json (%s), not yet an open class of known_findings.json"
                         % (cls, n, "present" if cls in findings else "MISSING"))
    ctx.cov.update({
        "evaluations": ch.evals + ncorpus + nprobe + ntext + getattr(ch, "nfs", 0) + getattr(ch, "ntag", 0) + getattr(ch, "nr9", 0),
        "history_and_value_kind_cases": getattr(ch, "nr9", 0),
        "ownership_tag_programs": getattr(ch, "ntag", 0), "ownership_tag_lines_checked": getattr(ch, "tag_lines", 0),
        "escaped_function_programs": getattr(ch, "nesc", 0), "generator_fiber_programs": getattr(ch, "ngen", 0), "file_system_loader_cases": getattr(ch, "nfs", 0),
        "startup_names_covered": covered, "startup_names_uncovered": uncovered,
        "startup_name_programs": len(nprogs), "startup_name_text_cases": ntext, "startup_names_same_in_modules_as_in_main": text_ok,
        "distinct_nontrivial": len(ch.nontrivial),
        "rule": "module programs of the mini-language ModLang (<= 5 modules): (i) the canonical program of EVERY import graph over main + 3 modules "
                "(4096 edge sets incl. self-loops, x {bare imports, imports in try}; sampled in quick) and of sampled graphs with missing / "
                "uncompilable members; (ii) random programs (imports at top level / in functions called 0-2 times / in try / in blocks / under "
                "aliases, same global x0 in several modules read through exported functions, attribute writes from outside, built-ins, throws, "
                "calls through 1-3 nested fibers); (ii') a fixed family with an import at fiber depth 0-3 below a loading module body (cycle caught / "
                "fatal, legitimate imports); (ii'') for EVERY start-up name (init_built_in_globals + core.yl, from the current sources) a "
                "mini-language program and a yarel text case using it in module bodies and exported functions at import depth 1 and 2, in a "
                "module imported inside a function and inside a fiber (error classes thrown and caught by class, StopIter through a user iterator); "
                "(ii-e) a function that outlives the failed load that defined it (stored in another module before the load failed; the path "
                "loaded again inside the old function / by the main script / never successfully): the old function reads, writes, creates and "
                "calls closures, calls functions of its instance, through try / fibers / closures - fixed regression programs + randomised "
                "instances; (ii-g) a fiber whose FIRST frame is a function of another module than its caller's (Fiber.new(<alias>.f6), driven "
                "until it has finished): 0-3 top-level yields, segments that read / write / create closures / call / import (a local alias "
                "living across a yield) / start fibers / drive a generator of a third module / throw, x 8 drivers (main top level, a function, "
                "try, a closure, two nested fibers, the body of a still-loading module, a function of a third module, the generator's own "
                "module) - fixed programs + randomised instances, also inside the random programs; (ii-h) self-checking ownership-tag programs "
                "(yarel text, 4 modules x 3 functions + drive): every print shows the global `who` of the running code's module and bumps its "
                "counter, around direct calls, closures, try / throw, fibers made from functions of other modules that yield from nested frames "
                "and inside try, handed to a drive function of a third module or finishing at once - every line must show its owner; (ii-f) the built-in file-system loader (no host loader installed, a fresh temporary directory): modules in the "
                "current directory / sub-directories / through '..', one file under several spellings, missing file, path through a plain file, a "
                "directory named like the module, over-long names, non-UTF-8 content, mode 000, a module importing a missing one, caught and "
                "uncaught; tests/scripts/modules and ModLang programs (fibers, escape family, graph shapes with missing / uncompilable members) "
                "served as files; "
                "(ii-s) HISTORY family (yarel text, oracle by construction): one import event repeated N times in one run, N = 2 .. 300 + "
                "random sizes - failing body (5 ways), missing, uncompilable, cached, N distinct modules, self-import, cycle through a second "
                "module, a rotation of all - in the main script / a loading module's body x top-level loop / function / fiber per event / one "
                "fiber / closure, then probes (fresh module runs once, same object, own globals, the failing module loads once enabled), "
                "counters, bodies started and the loader-call sequence closed-form in N; import chains of depth 2 .. 130; (ii-k) VALUE-KIND "
                "family: the importer's globals hold a value of every kind (natives, bound natives, classes, fiber, module, range, map, ...) "
                "before the import; read / assigned inside the imported module and the module it imports (body and exported function), read as "
                "attributes from outside, and the reverse direction: NameError / AttributeError every time; "
                "(iii) tests/scripts/modules; non-trivial = the static import graph has a cycle or a diamond AND one global name is defined with "
                "different values in two modules (distinct wire strings counted)",
        "samples": ch.samples,
        "traces_validated_against_impl": ch.evals,
        "programs": ch.evals, "graph_shape_programs": nshapes, "fiber_regression_programs": len(fibs), "random_programs": nrnd, "corpus_scripts": ncorpus,
        "impl_vs_model_mismatches": ch.mism_m, "impl_vs_spec_mismatches": ch.mism_s,
        "main_only_name_cases": ch.flag_b, "reloaded_after_failed_import_cases": ch.reloaded, "harness_cases_retried_after_crash": ch.retried,
        "graph_shapes_exhaustive": (not quick),
        "pending_findings": ch.pending, "known_classes_reproduced": ch.seen_classes,
        "reference_interpreter_compared": ch.ref_evals, "reference_interpreter_disagreements": ch.ref_diff,
        "reference_interpreter_eval_failed": ch.ref_failed,
    })


def detuple(p):
    """JSON lists back to the tuple AST"""
    def st(x):
        if x[0] in ("try", "blk", "lam"):
            return (x[0], [st(y) for y in x[1]])
        if x[0] == "fn":
            return ("fn", x[1], [st(y) for y in x[2]])
        if x[0] == "gen":
            return ("gen", x[1], x[2], [st(y) for y in x[3]])
        return tuple(x)
    return [("ok", [st(t) for t in m[1]]) if m[0] == "ok" else tuple(m) for m in p]


def search(ctx):
    """an obligation / correspondence is broken and run() found no failing input: directed families first, then random
    programs, for at most ~3.5 minutes"""
    ctx.deadline = time.time() + 210
    ctx.rng = yvlib.Rng(ctx.seed * 7919 + 14)
    try:
        run(ctx)
    finally:
        ctx.deadline = None
