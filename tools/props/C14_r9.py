"""C14, round 9 (helper module of tools/props/C14.py): two directed families of yarel TEXT cases run through the harness command
`mods` (host loader = map lookup, one `LOAD <path>` record per loader call).  Oracle BY CONSTRUCTION, no model evaluation.

 * HISTORY family (`history_cases`): ONE import event repeated N times in ONE run, N from a ladder that goes well beyond any
   plausible hidden threshold (2 .. 300 + random sizes), then PROBES: a fresh module loads and runs its top-level code exactly once, an
   already loaded module is the same object, globals of the same name stay per module, the module that kept failing loads once
   its reason to fail is gone.  Event kinds: a module body that starts and fails (throw / undefined name / throw from nested
   calls / a missing import inside the body / a nested import whose body fails - two bodies discarded per event), a missing
   module, an uncompilable module, a self-import of a loading module, a cycle through a second module (its body is discarded by
   the cycle error), a re-import of a loaded module, N DISTINCT modules imported and re-imported, a rotation of all of these; an
   import CHAIN of depth d (around the frame limit too).  Places: the main script / the body of a module that is still loading
   x loop at top level / in a function called once / a function called N times / a fresh fiber per event / one fiber around the
   loop / a run-time closure.  Everything expected is a closed-form function of N: counters, number of bodies started, the
   loader-call sequence; error messages must be the same at every size (compared with the smallest size of the same kind).
 * VALUE-KIND family (`kind_cases`): the importer's globals, defined BEFORE the import, hold a value of EVERY kind (native
   function, bound native method, static native method, user class, core class, error class, fiber, module object, range, map,
   vector, tuple, instance, bound method, lambda, named function, number, string, bool, nil); the imported module (and a
   module it imports) reads and assigns each name in its body and later in an exported function: NameError every time; the
   importer reads each as an attribute of the module object: AttributeError; the other direction (the module's own globals of
   every kind, bare in the importer) as well; a global defined after the import; a built-in name re-assigned by the importer
   stays the built-in inside the module.  Importer = main or a non-main module; import at top level / in a function / in a
   fiber / in try."""
import yvlib
from yvlib import hx

LADDER = [2, 17, 33, 62, 63, 64, 65, 130, 300]   # + 1100 (every place) and 5000 (top-level loop) for every kind but `distinct`
WRAPS = ["top", "fn", "fnloop", "fiber", "onefiber", "closure"]
BODY_KINDS = ["throw", "name", "deep", "missing-inside", "nested"]
KINDS = BODY_KINDS + ["missing", "bad", "cached", "distinct", "mixed", "cycle", "cycle2"]
HOST_ONLY = ("cycle", "cycle2")
GROUP = 20   # distinct modules imported per function (a chunk has a bounded constant table)


def mods_line(main, mods, opts="-"):
    return "mods %s %s %s" % (opts, hx(main), " ".join("%s=%s" % (hx(k), hx(v)) for k, v in sorted(mods.items())))


SETTINGS = 'var enabled = false; var attempts = 0; var who = "settings";'
REPORT = 'print("report body"); var who = "report"; fn whoami() { return who; } fn summary(n) { return "summary ${n} ${who}"; }'
FRESH = 'print("fresh body"); var who = "fresh"; var v = 7;'
OKMOD = 'import "settings"; settings.attempts += 1; var who = "okmod"; var v = 1;'
PLUGIN_HEAD = 'import "settings"; settings.attempts += 1; '
PLUGIN_TAIL = ' var name = "plugin"; var who = "plugin";'
PLUGINS = {
    "throw": 'if !settings.enabled { throw "plugin disabled"; }',
    "name": 'if !settings.enabled { print(undefined_name_); }',
    "deep": 'fn f_(n) { if n == 0 { throw "plugin disabled"; } return f_(n - 1) + 1; } if !settings.enabled { f_(5); }',
    "missing-inside": 'if !settings.enabled { import "nope"; }',
    "nested": 'import "inner";',
}
INNER = 'import "settings"; if !settings.enabled { throw "plugin disabled"; } var v = 1;'
BAD_SRC = "var = ;"
# what one failing event must deliver: (class, yarel expression for its message)
FAIL_CLASS = {"throw": "String", "name": "NameError", "deep": "String", "missing-inside": "ImportError", "nested": "String",
              "missing": "ImportError", "bad": "ImportError", "cycle": "ImportError", "cycle2": "ImportError"}


def ev_fail(path, cls):
    msg = "e_" if cls == "String" else "e_.context"
    return ('try { import "%s" as m_; bad_ += 1; } catch e_ { if type(e_) == %s && (cnt == 0 || %s == msg_) { if cnt == 0 { msg_ = %s; } cnt += 1; } '
            'else { if bad_ == 0 { print("unexpected: ${type(e_)}"); } bad_ += 1; } }' % (path, cls, msg, msg))


EV_CACHED = ('try { import "okmod" as m_; if m_ == first_ { cnt += 1; } else { bad_ += 1; } } '
             'catch e_ { if bad_ == 0 { print("unexpected: ${type(e_)}"); } bad_ += 1; }')


def event(kind):
    """-> (statement performing ONE event, loader calls it causes, bodies that bump settings.attempts)"""
    if kind in BODY_KINDS:
        loads = {"missing-inside": ["plugin", "nope"], "nested": ["plugin", "inner"]}.get(kind, ["plugin"])
        return ev_fail("plugin", FAIL_CLASS[kind]), loads, 1
    if kind == "missing":
        return ev_fail("nope", "ImportError"), ["nope"], 0
    if kind == "bad":
        return ev_fail("bad", "ImportError"), ["bad"], 0
    if kind == "cycle":
        return ev_fail("host", "ImportError"), [], 0
    if kind == "cycle2":
        return ev_fail("back", "ImportError"), ["back"], 1
    if kind == "cached":
        return EV_CACHED, [], 0
    raise ValueError(kind)


def wrap_loop(wrap, n, stmt):
    loop = "for i_ in 0..%d { %s }" % (n, stmt)
    if wrap == "top":
        return loop
    if wrap == "fn":
        return "fn attempt_(i_) { %s }\nfor i_ in 0..%d { attempt_(i_); }" % (stmt, n)
    if wrap == "fnloop":
        return "fn all_() { %s }\nall_();" % loop
    if wrap == "fiber":
        return "fn attempt_(i_) { %s return 0; }\nfor i_ in 0..%d { Fiber.new(|| attempt_(i_)).call(); }" % (stmt, n)
    if wrap == "onefiber":
        return "fn all_() { %s return 0; }\nFiber.new(all_).call();" % loop
    if wrap == "closure":
        return "var run_ = || { %s return 0; };\nrun_();" % loop
    raise ValueError(wrap)


def history_case(kind, n, where, wrap):
    """-> (name, main, mods, expected lines (None = 'same as the smallest size of this kind' for the message line), loader calls)"""
    mods = {"settings": SETTINGS, "report": REPORT, "fresh": FRESH, "okmod": OKMOD, "bad": BAD_SRC, "inner": INNER,
            "back": 'import "settings"; settings.attempts += 1; import "host"; var v = 1;'}
    pk = kind if kind in BODY_KINDS else "throw"
    mods["plugin"] = PLUGIN_HEAD + PLUGINS[pk] + PLUGIN_TAIL
    loads = ["settings"] + (["host"] if where == "host" else [])
    attempts = 0
    head = 'var cnt = 0; var bad_ = 0; var msg_ = "-";\n'
    if kind == "cached":
        head += 'import "okmod" as first_;\n'
        loads.append("okmod")
        attempts += 1
        stmt, per, bump = event(kind)
        hist = wrap_loop(wrap, n, stmt)
    elif kind == "distinct":
        # N distinct modules, each imported once and then once more (cached): the bodies run once each
        fns = []
        for g0 in range(0, n, GROUP):
            ids = range(g0, min(n, g0 + GROUP))
            body = " ".join('{ import "d%d" as m_; if m_.v == %d { cnt += 1; } else { bad_ += 1; } }' % (i, i) for i in ids)
            fns.append("fn grp%d() { %s return 0; }" % (g0 // GROUP, body))
        calls = " ".join("grp%d();" % k for k in range(len(fns)))
        both = calls + " " + calls
        inner = {"top": both, "fn": both, "fnloop": "fn all_() { %s }\nall_();" % both,
                 "fiber": " ".join("Fiber.new(grp%d).call();" % k for k in range(len(fns))) + " " + calls,
                 "onefiber": "fn all_() { %s return 0; }\nFiber.new(all_).call();" % both,
                 "closure": "var run_ = || { %s return 0; };\nrun_();" % both}[wrap]
        hist = "\n".join(fns) + "\n" + inner
        for i in range(n):
            mods["d%d" % i] = 'import "settings"; settings.attempts += 1; var who = "d%d"; var v = %d;' % (i, i)
            loads.append("d%d" % i)
        attempts += n
    elif kind == "mixed":
        parts = ["throw", "missing", "bad", "cached"] + (["cycle", "cycle2"] if where == "host" else [])
        head += 'import "okmod" as first_;\n'
        loads.append("okmod")
        attempts += 1
        arms = []
        for j, k in enumerate(parts):
            st, _, _ = event(k)
            # one message slot per event kind
            st = st.replace("msg_", "msg%d_" % j).replace("cnt == 0", "cnt < %d" % len(parts))
            arms.append("if i_ %% %d == %d { %s }" % (len(parts), j, st))
            head += 'var msg%d_ = "-";\n' % j
        hist = wrap_loop(wrap, n, " ".join(arms))
        for i in range(n):
            _, per, bump = event(parts[i % len(parts)])
            loads += per
            attempts += bump
    else:
        stmt, per, bump = event(kind)
        hist = wrap_loop(wrap, n, stmt)
        loads += per * n
        attempts += bump * n
    want_cnt = 2 * n if kind == "distinct" else n
    code = head + hist + '\ntry { import "fresh"; print(fresh.v); } catch e_ { print("fresh failed: ${type(e_)}"); }\n'
    loads.append("fresh")
    who = "host" if where == "host" else "main"
    pre = "" if where == "main" else "host."
    probes = (
        'print("history ${%scnt} ${%sbad_}");\nprint(%smsg_);\nprint(settings.attempts);\n' % (pre, pre, pre)
        + 'try { import "report"; print(report.summary(3)); import "report" as r2_; print(r2_ == report); print(report.whoami()); }\n'
        + 'catch e_ { print("report failed: ${type(e_)}"); }\n'
        + 'try { import "settings" as s2_; print(s2_ == settings); import "fresh" as f2_; print(f2_.who); } catch e_ { print("cached failed: ${type(e_)}"); }\n'
        + 'print(who); print(settings.who);\n'
        + 'settings.enabled = true;\n'
        + 'try { import "plugin"; print(plugin.name); print(plugin.who); import "plugin" as p2_; print(p2_ == plugin); }\n'
        + 'catch e_ { print("plugin failed: ${type(e_)}"); }\n'
        + 'print(settings.attempts); print(who);\n')
    loads += ["report", "plugin"] + (["inner"] if kind == "nested" else [])
    if where == "main":
        main = 'var who = "main";\nimport "settings";\n' + code + probes
    else:
        main = 'var who = "main";\nimport "settings";\nimport "host";\nprint(host.who);\n' + probes
        mods["host"] = 'var who = "host";\n' + code
    want = ["fresh body", "7"] + (["host"] if where == "host" else []) + [
        "history %d 0" % want_cnt, None, str(attempts),
        "report body", "summary 3 report", "true", "report", "true", "fresh", "main", "settings",
        "plugin", "plugin", "true", str(attempts + 1), "main"]
    if kind in ("cached", "distinct", "mixed"):
        want[want.index(None)] = "-"
    elif FAIL_CLASS[kind] == "String":
        want[want.index(None)] = "plugin disabled"
    return ("%s/n=%d/%s/%s" % (kind, n, where, wrap), main, mods, want, loads)


def chain_case(d, fm):
    """main imports c1, c1 imports c2, ... a chain of d module bodies, each one frame.  d <= fm - 1: all bodies run, in order,
    innermost finishing first; d >= fm: the import of c<fm> finds the frame stack full (IndexError "Stack overflow.", after the
    loader was called), every body of the chain is discarded and nothing stays behind."""
    mods = {"settings": SETTINGS, "report": REPORT}
    for i in range(1, d + 1):
        nxt = 'import "c%d"; ' % (i + 1) if i < d else ""
        mods["c%d" % i] = 'import "settings"; settings.attempts += 1; %svar v = %d;' % (nxt, i)
    main = ('var who = "main";\nimport "settings";\n'
            'try { import "c1"; print(c1.v); } catch e_ { print(type(e_)); print(e_.context); }\nprint(settings.attempts);\n'
            'try { import "report"; print(report.summary(3)); import "report" as r2_; print(r2_ == report); } catch e_ { print("report failed: ${type(e_)}"); }\n'
            'try { import "c%d" as last_; print(last_.v); } catch e_ { print(type(e_)); }\nprint(settings.attempts); print(who);\n' % d)
    tail = ["report body", "summary 3 report", "true"]
    if d <= fm - 1:
        # the last module of the chain is loaded: the second import is cached
        want = ["1", str(d)] + tail + [str(d), str(d), "main"]
        loads = ["settings"] + ["c%d" % i for i in range(1, d + 1)] + ["report"]
    else:
        # c1 .. c<fm-1> got a frame, the import of c<fm> failed after load + compile; afterwards c<d> alone loads (it is the last one)
        want = ["<class IndexError>", "Stack overflow.", str(fm - 1)] + tail + [str(d), str(fm), "main"]
        loads = ["settings"] + ["c%d" % i for i in range(1, fm + 1)] + ["report", "c%d" % d]
    return ("chain/d=%d" % d, main, mods, want, loads)


def history_cases(rng, quick, fm):
    cases = []
    extra = sorted({rng.randint(3, 400), rng.randint(66, 260)})
    for kind in KINDS:
        wheres = ["host"] if kind in HOST_ONLY else ["main", "host"]
        big = [] if kind == "distinct" else [1100, 5000]
        for n in LADDER + extra + big:
            for where in wheres:
                for wrap in WRAPS:
                    if n == 5000 and wrap != "top":
                        continue
                    cases.append(history_case(kind, n, where, wrap))
    for d in [2, 17, 33, fm - 4, fm - 3, fm - 2, fm - 1, fm, fm + 1, fm + 6, 130]:
        cases.append(chain_case(d, fm))
    return cases


def check_cases(ctx, binary, cases, what, key):
    """runs the cases; a None in the expected lines = 'the same line as in the first case of the same kind' (messages are
    size-independent).  -> number of cases"""
    recs = yvlib.run_harness(binary, [mods_line(m, mods) for (_, m, mods, _, _) in cases], case_timeout_ms=20000)
    bad = [i for i, r in enumerate(recs) if r.crashed]
    if bad:   # machine load: once more, alone
        again = yvlib.run_harness(binary, [mods_line(cases[i][1], cases[i][2]) for i in bad], case_timeout_ms=60000, shards=min(4, len(bad)))
        for i, r in zip(bad, again):
            recs[i] = r
    ref = {}
    reported = 0
    for (name, main, mods, want, wl), rec in zip(cases, recs):
        out = list(rec.output)
        loads = [yvlib.unhx(x[0]).decode() for x in rec.tagged("LOAD")]
        kind = name.split("/")[0]
        exp = list(want)
        if None in exp:
            i = exp.index(None)
            if kind not in ref and len(out) == len(exp) and i < len(out):
                ref[kind] = out[i]
            exp[i] = ref.get(kind, "?")
        if out != exp or rec.result[0] != "ok" or loads != wl:
            if reported < 3 and len([v for v in ctx.violations if v.get(key)]) < 3:
                reported += 1
                nl = next((i for i, (a, b) in enumerate(zip(loads, wl)) if a != b), min(len(loads), len(wl)))
                ctx.violation("%s (%s)" % (what, name), input=mods_line(main, mods)[:20000], main=main,
                              modules={k: v for k, v in mods.items() if not (k[0] in "dc" and k[1:].isdigit())},
                              expected=exp + ["loader calls: %d, first difference at #%d" % (len(wl), nl)],
                              actual=out[:60] + [str(rec.result)] + rec.messages[:2] + ["loader calls: %d %s" % (len(loads), loads[max(0, nl - 2):nl + 3])],
                              **{key: name})
    return len(cases)


def check_history(ctx, binary, rng, quick, fm, only=None):
    cases = history_cases(rng, quick, fm)
    if only is not None:
        kind = only.split("/")[0]
        # the smallest case of the kind gives the reference message
        cases = [c for c in cases if c[0].split("/")[0] == kind][:1] + [c for c in cases if c[0] == only]
        if len(cases) < 2 and kind != "chain":
            f = only.split("/")
            cases.append(history_case(f[0], int(f[1][2:]), f[2], f[3]))
    return check_cases(ctx, binary, cases,
                       "after a HISTORY of import events in one run a fresh module must load and run once, loaded modules stay the same "
                       "object with their own globals, counters and loader calls are a closed-form function of the history length", "history_case")


# ------------------------------------------------------------------------------------------------
# every KIND of value in the importer's globals

VALUE_KINDS = [
    ("native", "print"), ("native2", "clock"), ("native3", "type"),
    ("boundnative", "[1, 2].push"), ("strmethod", '"abc".len'), ("staticnative", "Fiber.new"), ("strfrom", "String.from"),
    ("class", "Cls_"), ("ctor", "Cls_.new"), ("coreclass", "Vec"), ("errclass", "ImportError"), ("fiber", "Fiber.new(|| 1)"),
    ("module", "other_"), ("range", "1..3"), ("map", "{1: 2}"), ("vec", "[1]"), ("tuple", "(1, 2)"), ("inst", "Cls_.new()"),
    ("method", "Cls_.new().m"), ("lambda", "|| 1"), ("num", "5"), ("str", '"s"'), ("bool", "true"), ("nil", "nil"),
]


def decls(prefix, cls):
    out = '#[constructor(new)] class %s { fn m(self) { return 1; } }\nimport "other" as other_;\n' % cls
    out += "".join("var %s_%s = %s;\n" % (prefix, k, e.replace("Cls_", cls)) for k, e in VALUE_KINDS)
    out += "fn %s_fn() { return 2; }\n" % prefix
    return out


def names(prefix):
    return ["%s_%s" % (prefix, k) for k, _ in VALUE_KINDS] + ["%s_fn" % prefix]


def reads(tag, ns, attr_of=None):
    """one probe per name: a bare read (or an attribute read of module `attr_of`) and, for bare names, an assignment"""
    out = []
    for nm in ns:
        ref = "%s.%s" % (attr_of, nm) if attr_of else nm
        out.append('try { var v_ = %s; print("%s %s LEAKED ${type(v_)}"); } catch e_ { print("%s %s ${type(e_)}"); }' % (ref, tag, nm, tag, nm))
        if not attr_of:
            out.append('try { %s = 1; print("%s %s= ASSIGNED"); } catch e_ { print("%s %s= ${type(e_)}"); }' % (nm, tag, nm, tag, nm))
    return "\n".join(out) + "\n"


def want_reads(tag, ns, attr=False):
    out = []
    for nm in ns:
        out.append("%s %s <class %s>" % (tag, nm, "AttributeError" if attr else "NameError"))
        if not attr:
            out.append("%s %s= <class NameError>" % (tag, nm))
    return out


def kind_case(importer, site):
    """importer = 'main' | 'mid' (main imports mid, mid imports worker); site = how the importer imports worker"""
    g, h, w = names("g"), names("h"), names("w")
    foreign = g + (h if importer == "mid" else []) + ["late_native"]
    builtin_line = 'print("%s ${type(clock) == BuiltIn} ${type(print) == BuiltIn} ${type(type) == BuiltIn}");\n'
    deeper = reads("deeper", foreign + w) + "fn probe() {\n" + reads("deeper.probe", foreign + w) + "}\n" + builtin_line % "deeper"
    worker = (reads("worker", foreign) + decls("w", "WCls_") + 'import "deeper";\n'
              + "fn probe() {\n" + reads("worker.probe", foreign) + "deeper.probe(); }\n" + builtin_line % "worker")
    imp = {"top": 'import "worker";\n',
           "fn": 'fn load_() { import "worker" as w_; return w_; }\nvar worker = load_();\n',
           "fiber": 'fn load_() { import "worker" as w_; return w_; }\nvar worker = Fiber.new(load_).call();\n',
           "try": 'var worker = nil;\ntry { import "worker" as w_; worker = w_; } catch e_ { print("import failed"); }\n'}[site]
    pre = "g" if importer == "main" else "h"
    body = (decls(pre, "Cls_" if importer == "main" else "HCls_")
            + 'clock = "user value";\n'
            + imp
            + reads(importer + ".attr", foreign + [x for x in (h if importer == "main" else [])], attr_of="worker")
            + "worker.probe();\n"
            + "var late_native = print;\n"
            + "worker.probe();\n"
            + reads(importer + ".bare", w)
            + 'print("%s ${%s_native == print} ${%s_num} ${clock} ${worker.w_num} ${type(worker.w_native) == BuiltIn}");\n' % (importer, pre, pre))
    wp = want_reads("worker.probe", foreign) + want_reads("deeper.probe", foreign + w)
    want_w = want_reads("worker", foreign) + want_reads("deeper", foreign + w) + ["deeper true true true", "worker true true true"]
    want_body = (want_w + want_reads(importer + ".attr", foreign + (h if importer == "main" else []), attr=True) + wp + wp
                 + want_reads(importer + ".bare", w) + ["%s true 5 user value 5 true" % importer])
    mods = {"worker": worker, "deeper": deeper, "other": "var v = 1;"}
    if importer == "main":
        main, want = body, want_body
    else:
        mods["mid"] = body
        # mid's own globals ARE attributes of mid: only the worker's names are absent there
        main = (decls("g", "Cls_") + 'var late_native = clock;\nimport "mid";\n' + reads("main.attr", w, attr_of="mid")
                + reads("main.bare", h + w) + 'print("main ${g_native == print} ${g_num} ${mid.h_num}");\n')
        want = want_body + want_reads("main.attr", w, attr=True) + want_reads("main.bare", h + w) + ["main true 5 5"]
    loads = (["other"] if importer == "main" else ["other", "mid"]) + ["worker", "deeper"]
    return ("kinds/%s/%s" % (importer, site), main, mods, want, loads)


def kind_cases():
    return [kind_case(i, s) for i in ("main", "mid") for s in ("top", "fn", "fiber", "try")]


def check_kinds(ctx, binary, only=None):
    cases = [c for c in kind_cases() if only is None or c[0] == only]
    return check_cases(ctx, binary, cases,
                       "a global of the importer (whatever KIND of value it holds) is not a global of the imported module, nor an attribute of it; "
                       "the module's own globals are not globals of the importer", "kind_case")
