"""C15 - an interpreter can be reused: failed runs leave no residue.

Theorems (coq/props/C15.v over Reuse.v / ReuseSpec.v / ReplLang.v): run_leaves_clean, every run starts on a fresh
fiber with an empty handler stack and a cleared exception flag, stale_state_harmless, failed_snippet_only_definitions
(M = S on output, outcome and loader calls at every snippet of EVERY history; the pre-367eb72 Mechanism is refuted),
reset_is_fresh.
Tie: (a) translator: field list of `struct Vm`, what execute / load_fiber / load_frame / reset / reset_stack /
runtime_error assign (coq/gen/VmFields.v), compared by computation with the lists hard-wired in Reuse.v;
(b) impl == M: histories of the mini-language rendered by Coq (ReplLang.render), run on ONE Vm by the harness
command `replmods`, the H5 record (CS ...) + output + outcome + loader calls after every snippet against eval_mech;
(c) impl == S: the same records against eval_spec; metamorphic oracles on the implementation alone: a failing
snippet replaced by just its completed definitions, and RESET replaced by a newly created Vm; the full reference
interpreter (SpecScripts.run_repl_case) on a sample when it is available.  Debug AND release builds.
(d) clean-up at SCALE (round 8): ReuseScale.v (every fiber of a caller chain of ANY length is over after a failed run; a walk bounded
by a constant is refuted beyond the bound) + scale_check: waiting fibers / frames / open upvalues / handlers / loading modules /
definitions before RESET at sizes 2, 63..66, 130, 250 - against the same run completing normally and against the smallest size.
(e) import x escaping object x failed run x retry (round 9): ReuseScale.v part 2 (the retry of a failed import builds a NEW module
object, so no global of an existing object changes: closures that escaped from the failed body keep what it completed; emptying or
reusing the registered object is refuted) + escape_check: 5 object kinds x 5 escape routes x 4 ways to fail x 4 kinds of retry x both
orders x direct / through a wrapper module, oracle by construction (the k-th use prints the first attempt's values)."""
import os

import yvlib
from yvlib import hx, log

LEVEL = "proof"
TRUSTED = [
    "Coq 8.16.1 kernel (coqc), vm_compute; no native_compute, no extraction",
    "translator/translate_c15.py + rustlex.py (token-level reading of vm.rs, object.rs, yarel-cli/src/main.rs)",
    "hook H5 (vm.rs verif_trace::carried, feature verif_hooks), the harness `yv` (replmods in ext_c15.rs), tools/*.py",
    "modelled, not verified: the bytecode the compiler emits for the mini-language's snippets (Reuse.code_of is hand-written; "
    "its effect on the carried state is compared with H5 after every snippet)",
]
ASSUMPTIONS = [
    "the mini-language (ReplLang.v) covers the constructs that touch state carried across runs; other constructs are covered "
    "only by the metamorphic oracles on the implementation",
    "interned strings, core chunks and the content of the range cache are excluded from 'indistinguishable' (property text)",
]

PRE = "Open Scope string_scope."
MODS = ["good", "bad", "missing", "syn", "nest"]
W_NAMES = ["top", "nested1", "nested2", "nested3", "fiber", "try_finally", "catch", "finally", "finally_ret", "classdef",
           "classdef_nested", "capture", "builtin_in_try", "capture_in_caller_fiber", "fiber_waiting", "set_undeclared_global",
           "set_undeclared_global_nested", "set_undeclared_global_fiber"]
# families: which later constructs are "of the same kind" as a failing one
FAM_OF_W = {0: "call", 1: "call", 2: "call", 3: "call", 4: "fiber", 5: "try", 6: "try", 7: "try", 8: "try", 9: "class",
            10: "class", 11: "capture", 12: "try", 13: "capture", 14: "fiber", 15: "setglobal", 16: "setglobal", 17: "setglobal"}


def z(n):
    return n + 100


# ---- snippet constructors (wire groups) ----
def sn_var(g, n): return (0, g, z(n))
def sn_print(g): return (1, g)
def sn_fn(f, g): return (2, f, g)
def sn_call(f): return (3, f)
def sn_class(c, n): return (4, c, z(n))
def sn_use(c): return (5, c)
def sn_syntax(pre): return (6, int(pre))
def sn_throw(w, d=None): return (7, w) if d is None else (7, w, d[0], z(d[1]))
SN_TRYFIN, SN_TRYCATCH, SN_FIBEROK, SN_CAPOK, SN_USELEAK, SN_RESET, SN_USEFIBER, SN_PROBETOTAL = (8,), (9,), (10,), (11,), (13,), (16,), (17,), (18,)
# runs that end SUCCESSFULLY with the exception flag still set (round 7): a finally block entered by a throw that returns /
# that parks its fiber for good.  Their own outcome is what one run prints; the point is what the NEXT snippets see.
SN_SWALLOWOK, SN_PARKFIN = (19,), (20,)
DIRTY_OK = [SN_SWALLOWOK, SN_PARKFIN]
def sn_range(k): return (12, k)
def sn_import(m): return (14, m)
def sn_usemod(m): return (15, m)


def all_snippets():
    """every snippet of the mini-language over the small name/value pools"""
    res = []
    for g in (0, 1):
        res += [sn_var(g, 5), sn_var(g, -2), sn_print(g)]
    for f in (0, 1):
        res += [sn_fn(f, 0), sn_fn(f, 1), sn_call(f)]
    for c in (0, 1):
        res += [sn_class(c, 7), sn_use(c)]
    res += [sn_syntax(False), sn_syntax(True)]
    for w in range(18):
        res += [sn_throw(w), sn_throw(w, (0, 9))]
    res += [SN_TRYFIN, SN_TRYCATCH, SN_FIBEROK, SN_CAPOK, SN_USELEAK, SN_USEFIBER, SN_PROBETOTAL, sn_range(1), sn_range(2), sn_range(3)]
    res += DIRTY_OK
    for m in range(5):
        res += [sn_import(m), sn_usemod(m)]
    res.append(SN_RESET)
    return res


def is_failing(s):
    return s[0] in (6, 7) or (s[0] == 14 and s[1] != 0)


def family(s):
    if s[0] == 7:
        return FAM_OF_W[s[1]]
    if s[0] == 14:
        return "import"
    if s[0] == 6:
        return "syntax"
    return None


def same_kind(fam, s):
    """is snippet s a construct of family fam"""
    if fam == "try":
        return s in (SN_TRYFIN, SN_TRYCATCH) or (s[0] == 7 and FAM_OF_W[s[1]] == "try")
    if fam == "class":
        return s[0] in (4, 5) or (s[0] == 7 and FAM_OF_W[s[1]] == "class")
    if fam == "import":
        return s[0] == 14
    if fam == "call":
        return s[0] == 3 or (s[0] == 7 and FAM_OF_W[s[1]] == "call")
    if fam == "fiber":
        return s in (SN_FIBEROK, SN_USEFIBER) or (s[0] == 7 and s[1] in (4, 14))
    if fam == "capture":
        return s in (SN_USELEAK, SN_CAPOK) or (s[0] == 7 and s[1] in (11, 13))
    if fam == "setglobal":
        return s == SN_PROBETOTAL or (s[0] == 7 and FAM_OF_W[s[1]] == "setglobal")
    if fam == "syntax":
        return s[0] == 6
    return False


def wire(h):
    return ";".join(" ".join(str(x) for x in s) for s in h)


def gen_history(rng, pool, maxlen=8):
    style = rng.choice(["random", "fail_same", "fail_same", "poison", "leak", "reset", "flag", "dirty_ok"])
    n = rng.randint(2, maxlen)
    defs = [sn_var(0, rng.randint(-3, 9)), sn_var(1, rng.randint(-3, 9)), sn_fn(0, rng.choice((0, 1))), sn_fn(1, rng.choice((0, 1))),
            sn_class(0, rng.randint(0, 9)), sn_class(1, 3), sn_import(0), SN_CAPOK]
    uses = [sn_print(0), sn_print(1), sn_call(0), sn_call(1), sn_use(0), sn_use(1), sn_usemod(0), SN_USELEAK]
    fails = [s for s in pool if is_failing(s)]
    if style == "random":
        return [rng.choice(pool) for _ in range(n)]
    if style == "fail_same":
        f = rng.choice(fails)
        fam = family(f)
        same = [s for s in pool if same_kind(fam, s)] or pool
        h = [rng.choice(defs) for _ in range(rng.randint(1, 3))] + [f]
        while len(h) < n:
            h.append(rng.choice(same) if rng.random() < 0.5 else rng.choice(uses))
        return h[:maxlen]
    if style == "poison":
        h = [rng.choice(defs), rng.choice([sn_import(1), sn_import(4)])]
        while len(h) < n:
            h.append(rng.choice([sn_import(rng.randint(0, 4)), sn_usemod(rng.randint(0, 4)), rng.choice(uses), SN_RESET, rng.choice(pool)]))
        return h
    if style == "leak":
        h = [rng.choice(defs), sn_throw(rng.choice([11, 13, 13]), rng.choice([None, (0, 4)]))]
        while len(h) < n:
            h.append(rng.choice([SN_USELEAK, SN_USELEAK, SN_CAPOK, sn_throw(11), sn_throw(13), sn_throw(14), SN_USEFIBER, sn_throw(rng.choice([15, 16, 17])), SN_PROBETOTAL, rng.choice(uses), SN_RESET, rng.choice(pool), sn_range(2)]))
        return h
    if style == "reset":
        h = [rng.choice(pool) for _ in range(rng.randint(1, 4))] + [SN_RESET]
        while len(h) < n:
            h.append(rng.choice(pool))
        return h[:maxlen]
    flag_readers = [SN_TRYFIN, SN_TRYFIN, SN_TRYCATCH, sn_throw(5), sn_throw(7), sn_throw(8), sn_throw(12), SN_FIBEROK]
    if style == "dirty_ok":
        # a run that ends successfully with working state set, then (optionally after snippets that run nothing or fail)
        # constructs that read that state
        h = [rng.choice(defs) for _ in range(rng.randint(0, 2))] + [rng.choice(DIRTY_OK)]
        while len(h) < n:
            h.append(rng.choice(flag_readers + flag_readers + [rng.choice(DIRTY_OK), sn_syntax(rng.random() < 0.5), rng.choice(uses),
                                                               SN_RESET, rng.choice(fails), rng.choice(pool)]))
        return h[:maxlen]
    # flag: an uncaught throw, then constructs that read the exception flag / handler stack
    h = [sn_throw(rng.choice([0, 1, 4, 5, 6, 7, 8, 12]), rng.choice([None, (1, 2)]))]
    while len(h) < n:
        h.append(rng.choice([SN_TRYFIN, SN_TRYCATCH, sn_throw(rng.choice([5, 7, 8, 12])), sn_syntax(rng.random() < 0.5), rng.choice(uses), SN_FIBEROK]))
    return h


# ---- implementation side ----
def impl_records(rec):
    """splits a replmods record into per-snippet strings in the model's format + bare CS dicts"""
    res = []
    cur = None
    for l in rec.lines:
        f = l.split(" ")
        if f[0] == "SNIP":
            cur = {"out": [], "res": None, "msgs": [], "loads": [], "cs": None}
            res.append(cur)
        elif cur is None:
            continue
        elif f[0] == "O":
            cur["out"].append(f[1] if len(f) > 1 else "")
        elif f[0] == "R":
            if f[1] == "ok":
                cur["res"] = "ok"
            elif f[1] == "err":
                cur["res"] = "err:" + f[2]
            elif f[1] == "panic":
                msg = yvlib.unhx(f[2]).decode("utf-8", "replace") if len(f) > 2 else ""
                cur["res"] = "crash" if "VERIF-UAF" in msg else "panic:" + (f[2] if len(f) > 2 else "")
            else:
                cur["res"] = f[1]
        elif f[0] == "M":
            cur["msgs"].append(f[1] if len(f) > 1 else "")
        elif f[0] == "G":
            cur.setdefault("names", {})[yvlib.unhx(f[1]).decode()] = f[2]
        elif f[0] == "LOAD":
            cur["loads"].append(yvlib.unhx(f[1]).decode())
        elif f[0] == "CS":
            cur["cs"] = " ".join(f[1:])
    if rec.crashed and res and res[-1]["res"] is None:
        res[-1]["res"] = "crash"
    elif rec.crashed:
        res.append({"out": [], "res": "crash", "msgs": [], "loads": [], "cs": None})
    return res


MSG_CODE = {}   # hex of a message -> "#index" (ReuseSpec.msg_table, read from Coq once per run)
MSG_TEXT = {}   # "#index" -> text


def load_msg_table():
    v = yvlib.coq_eval(["YV:ReuseSpec"], ["show_msg_table"], tag="C15msgs", preamble=PRE)[0]
    if v:
        for i, h in enumerate(v.split(",")):
            MSG_CODE[h] = "#%d" % i
            MSG_TEXT["#%d" % i] = yvlib.unhx(h).decode()
    return bool(v)


def fmt_obs(r):
    res = r["res"] or "none"
    if res.startswith("err:"):
        m0 = r["msgs"][0] if r["msgs"] else ""
        res += ":" + MSG_CODE.get(m0, m0)
    elif res.startswith("panic:"):
        res = "panic:" + MSG_CODE.get(res[6:], res[6:])
    return "out=%s;res=%s;loads=%s" % (",".join(r["out"]), res, ",".join(r["loads"]))


CS_KEYS = ["he", "fiber", "frames", "stack", "handlers", "retpend", "errip", "classdef", "modules", "chunks", "core_chunks", "range_cache"]


def fmt_cs(r):
    cs = dict(kv.split("=") for kv in (r["cs"] or "").split(" ") if "=" in kv)
    return " ".join(cs.get(k, "?") for k in CS_KEYS)


def fmt_mech(r):
    return fmt_obs(r) + ";cs=" + fmt_cs(r)


def ended(r):
    return (r["res"] or "none").split(":")[0] in ("crash", "panic", "none")


RETRIES = {"cases": 0, "recovered": 0}


def harness(binary, lines, quarantine=True, case_timeout_ms=10000, **kw):
    """run_harness + a case that crashed / timed out is re-run before it is believed: first all of them together with a longer
    time-out, then (at most 40) alone with a long one.  On a loaded machine a harmless history can miss its time-out, and the cases
    queued behind a hung shard are reported as crashed without having been started."""
    recs = yvlib.run_harness(binary, lines, quarantine=quarantine, case_timeout_ms=case_timeout_ms, **kw)
    for tmo, shards, cap in ((30000, None, 400), (90000, 2, 40)):
        bad = [i for i, r in enumerate(recs) if r.crashed][:cap]
        if not bad:
            break
        RETRIES["cases"] += len(bad)
        again = yvlib.run_harness(binary, [lines[i] for i in bad], quarantine=quarantine, case_timeout_ms=tmo, shards=shards, recycle=25)
        for i, r in zip(bad, again):
            if not r.crashed:
                RETRIES["recovered"] += 1
            recs[i] = r
    return recs


def run_impl(binary, items_list, mods_items):
    lines = ["replmods - %s %s" % (mods_items, items) for items in items_list]
    return harness(binary, lines)


def core_chunks(binary):
    rec = harness(binary, ["replmods - " + hx("var q = 1;")], quarantine=False, shards=1)[0]
    for l in rec.lines:
        if l.startswith("CS "):
            return int([kv for kv in l.split(" ") if kv.startswith("core_chunks=")][0].split("=")[1])
    return None


RENDER = {}   # snippet (wire group tuple) -> harness item (hex source or RESET), from ReplLang.render


def render_all(snips):
    todo = sorted(set(snips) - set(RENDER))
    if todo:
        v = yvlib.coq_eval(["YV:ReplLang", "YV:ReuseSpec"], ['render_wire "%s"%%string' % wire(todo)], tag="C15render", preamble=PRE)[0]
        items = v.split(" ") if v else []
        if len(items) != len(todo):
            raise RuntimeError("ReplLang.render failed")
        RENDER.update(zip(todo, items))


def coq_cases(hists, core, tag):
    render_all([s for h in hists for s in h])
    terms = ['run_case %d "%s"%%string' % (core, wire(h)) for h in hists]
    vals = yvlib.coq_eval(["YV:ReplLang", "YV:Reuse", "YV:ReuseSpec"], terms, shard_size=max(10, len(terms) // (2 * yvlib.NPROC) + 1), tag="C15" + tag, preamble=PRE)
    res = []
    for h, v in zip(hists, vals):
        if v is None:
            res.append(None)
            continue
        rows = [r.split("~") for r in v.split("|")]
        if len(rows) != len(h) or any(len(r) != 4 for r in rows):
            res.append(None)
            continue
        names = {"-": "-"}   # no known class is left (failed_import_poisons_module repaired by 367eb72)
        res.append({"items": " ".join(RENDER[s] for s in h), "spec": [r[0] for r in rows],
                    "mech": [(r[0] if r[1] == "=" else r[1]) + ";cs=" + r[2] for r in rows], "known": [names[r[3]] for r in rows]})
    return res


def describe(h, model):
    """human-readable history: the rendered source of every snippet"""
    return [yvlib.unhx(x).decode() if x != "RESET" else "RESET" for x in model["items"].split(" ")]


def check_histories(ctx, hists, binary, profile, core, mods_items, models):
    """(a) impl == M and (b) impl == S on every snippet of every history.  Returns per-history impl records."""
    recs = run_impl(binary, [m["items"] if m else "RESET" for m in models], mods_items)
    out = []
    nviol = 0
    for h, m, rec in zip(hists, models, recs):
        if m is None:
            ctx.corr_broken.append("model evaluation failed (coq_eval) for history " + wire(h))
            out.append(None)
            continue
        irs = impl_records(rec)
        out.append(irs)
        src = describe(h, m)
        for i, s in enumerate(h):
            if i >= len(irs):
                ctx.corr_broken.append("[%s] harness produced no record for snippet %d of %s" % (profile, i, src))
                break
            io, im = fmt_obs(irs[i]), fmt_mech(irs[i])
            spec_i, mech_i, known_i = m["spec"][i], m["mech"][i], m["known"][i]
            mech_obs = mech_i.split(";cs=")[0]
            if io != spec_i:
                kc = known_i if known_i != "-" and io == mech_obs else None
                if nviol < 40:
                    ctx.violation("snippet %d behaves differently from 'one program run piecewise' (Spec) [%s build]" % (i, profile),
                                  input=src, wire=wire(h), snippet=i, expected=spec_i, actual=io, known_class=kc, profile=profile,
                                  expected_readable=readable(spec_i), actual_readable=readable(io))
                nviol += 1
            mech_cmp = mech_i if not ended(irs[i]) else mech_obs
            impl_cmp = im if not ended(irs[i]) else io
            if impl_cmp != mech_cmp:
                ctx.corr_broken.append("[%s] impl != M at snippet %d of %s: impl %s | model %s" % (
                    profile, i, src, readable(impl_cmp), readable(mech_cmp)))
            if ended(irs[i]):
                break
    return out


def readable(s):
    """decodes the hex parts of an observation string for reports"""
    parts = []
    for kv in s.split(";"):
        k, _, v = kv.partition("=")
        if k == "out":
            v = ",".join(yvlib.unhx(x).decode("utf-8", "replace") for x in v.split(",") if x)
        elif k == "res" and v.count(":") >= 2:
            a, b, c = v.split(":", 2)
            v = "%s:%s:%s" % (a, b, unmsg(c))
        elif k == "res" and v.startswith(("panic:", "diverged:")):
            a, c = v.split(":", 1)
            v = "%s:%s" % (a, unmsg(c))
        elif k == "cs":
            v = " ".join("%s=%s" % kv for kv in zip(CS_KEYS, v.split(" ")))
        parts.append("%s=%s" % (k, v))
    return ";".join(parts)


def unmsg(c):
    if c in MSG_TEXT:
        return MSG_TEXT[c]
    try:
        return yvlib.unhx(c).decode("utf-8", "replace") if c else ""
    except Exception:
        return c


# ---- metamorphic oracles on the implementation alone ----
CAPTURE_DEF_41 = "var c = nil; (|| { var x = 41; c = || x; })();"


def completed_definitions(s):
    """source of just the definitions a failing snippet completes before failing (None: nothing)"""
    if s[0] == 7:
        parts = []
        if len(s) == 4:
            parts.append("var g%d = %d;" % (s[2], s[3] - 100))
        if s[1] in (11, 13):
            parts.append(CAPTURE_DEF_41)
        if s[1] == 14:
            parts.append("var fw = Fiber.new(|| { return 1; }); fw.call();")   # the run is over: fw is a finished fiber
        return " ".join(parts) or None
    return None


def metamorphic(ctx, hists, models, impl, binary, profile, mods_items, limit):
    """for every failing snippet k: the snippets after k behave exactly as when k is replaced by its completed definitions"""
    jobs = []
    for h, m, irs in zip(hists, models, impl):
        if m is None or irs is None:
            continue
        items = m["items"].split(" ")
        for k, s in enumerate(h):
            if k >= len(irs) - 1 or not is_failing(s) or not (irs[k]["res"] or "").startswith("err"):
                continue
            d = completed_definitions(s)
            repl = items[:k] + ([hx(d)] if d else []) + items[k + 1:]
            jobs.append((h, m, irs, k, len(items[:k]) + (1 if d else 0), " ".join(repl)))
    ctx.rng.shuffle(jobs)
    jobs = jobs[:limit]
    recs = run_impl(binary, [j[5] for j in jobs], mods_items)
    nbad = 0
    for (h, m, irs, k, off, _), rec in zip(jobs, recs):
        alt = impl_records(rec)
        for j in range(k + 1, len(irs)):
            a = alt[off + (j - k - 1)] if off + (j - k - 1) < len(alt) else None
            if a is None or fmt_obs(a) != fmt_obs(irs[j]):
                # the deviation is attributed to a known class when the model predicts one at this position
                kc = m["known"][j] if m["known"][j] != "-" else None
                nbad += 1
                if nbad <= 10:
                    ctx.violation("snippet %d behaves differently after the failing snippet %d than after just its completed definitions [%s build]" % (j, k, profile),
                                  input=describe(h, m), wire=wire(h), snippet=j, failing=k, known_class=kc, profile=profile,
                                  expected=readable(fmt_obs(a)) if a else None, actual=readable(fmt_obs(irs[j])))
                break
            if ended(irs[j]):
                break
    return len(jobs)


def reset_vs_fresh(ctx, hists, models, impl, binary, profile, mods_items, limit):
    """RESET followed by a suffix == a newly created Vm followed by that suffix (output, outcome, loader calls, modules, chunks)"""
    jobs = []
    for h, m, irs in zip(hists, models, impl):
        if m is None or irs is None or SN_RESET not in h:
            continue
        k = max(i for i, s in enumerate(h) if s == SN_RESET)
        if k + 1 >= len(h) or k >= len(irs):
            continue
        jobs.append((h, m, irs, k, " ".join(m["items"].split(" ")[k + 1:])))
    jobs = jobs[:limit]
    recs = run_impl(binary, [j[4] for j in jobs], mods_items)

    def key(r):
        cs = dict(kv.split("=") for kv in (r["cs"] or "").split(" ") if "=" in kv)
        return fmt_obs(r) + ";modules=%s;chunks=%s" % (cs.get("modules"), cs.get("chunks"))
    for (h, m, irs, k, _), rec in zip(jobs, recs):
        fresh = impl_records(rec)
        for j in range(k + 1, len(irs)):
            a = fresh[j - k - 1] if j - k - 1 < len(fresh) else None
            if a is None or key(a) != key(irs[j]):
                ctx.violation("after RESET snippet %d behaves differently than on a newly created interpreter [%s build]" % (j, profile),
                              input=describe(h, m), wire=wire(h), snippet=j, profile=profile,
                              expected=readable(key(a)) if a else None, actual=readable(key(irs[j])))
                break
            if ended(irs[j]):
                break
    return len(jobs)


def reference_interpreter(ctx, hists, models, impl, limit):
    """per-snippet output and outcome against the full reference interpreter (SpecScripts.run_repl_case), when built"""
    if not os.path.exists(os.path.join(yvlib.COQ, "theories", "SpecScripts.vo")):
        ctx.notes.append("full reference interpreter (SpecScripts.vo) not built: comparison with run_repl skipped")
        return 0
    sel = [(h, m, irs) for h, m, irs in zip(hists, models, impl) if m and irs][:limit]
    mods = '[("good", "%s"); ("bad", "%s"); ("syn", "%s"); ("nest", "%s")]' % tuple(hx(s) for s in MOD_SRC)
    terms = []
    for h, m, irs in sel:
        snips = "; ".join('"%s"' % x for x in m["items"].split(" "))
        terms.append("run_repl_case 2000 %s [%s]" % (mods, snips))
    try:
        vals = yvlib.coq_eval(["YV:SpecScripts"], terms, shard_size=max(4, len(terms) // yvlib.NPROC + 1), tag="C15ref", timeout=400, preamble=PRE)
    except Exception as e:  # the reference interpreter belongs to other owners: never fail on it
        ctx.notes.append("reference interpreter evaluation failed: %r" % (e,))
        return 0
    n = 0
    disagreements = []
    for (h, m, irs), v in zip(sel, vals):
        if v is None:
            continue
        outs = parse_ref(v)
        if outs is None or len(outs) != len(h):
            ctx.notes.append("reference interpreter: unparsable answer for " + wire(h))
            continue
        n += 1
        for i, (ro, rr) in enumerate(outs):
            if i >= len(irs) or ended(irs[i]):
                break
            if m["known"][i] != "-" or h[i] == SN_RESET:
                continue
            io = ",".join(irs[i]["out"])
            ir = irs[i]["res"]
            if ir.startswith("err:"):
                ir += ":" + (irs[i]["msgs"][0] if irs[i]["msgs"] else "")
            if (ro, rr) != (io, ir):
                disagreements.append((describe(h, m), i, "%s %s" % (ro, rr), "%s %s" % (io, ir)))
                break
    for d in disagreements[:3]:
        ctx.violation("snippet %d differs from the reference interpreter (SpecRun.run_repl)" % d[1], input=d[0], snippet=d[1],
                      expected=d[2], actual=d[3])
    return n


MOD_SRC = ['var v = 10; print("load good");', 'var v = 5; print("load bad"); throw 9;', "var = ;", 'import "bad" as b; var v = 1;']


def parse_ref(v):
    """[out=[h,h];res=ok:hex, ...] -> list of (out csv, res string in the impl's format)"""
    v = v.strip()
    if not (v.startswith("[") and v.endswith("]")):
        return None
    body = v[1:-1]
    res = []
    for part in body.split(",out=") if body else []:
        part = part if part.startswith("out=") else "out=" + part
        o, _, r = part.partition(";res=")
        outs = o[len("out=["):-1]
        if r.startswith("ok:"):
            rr = "ok"
        elif r.startswith("err:"):
            _, k, msgs = r.split(":", 2)
            first = msgs[1:-1].split(",")[0] if len(msgs) > 2 else ""
            rr = "err:%s:%s" % (k, first)
        else:
            rr = r
        res.append((outs, rr))
    return res


# ---- failing statements with a PROVISIONAL side effect (raw sources, implementation-only oracle) ----
# (name, setup, failing statement, probe).  The Spec: nothing but completed definitions persists, so after
# setup / <failing statement at some place> / probe the probe must print exactly what it prints after setup / probe.
SIDEFX = [
    ("set_undeclared_global", "var q0 = 1;", "total = 41;", "print(total);"),
    ("set_undeclared_global_expr", "var q0 = 1;", "total2 = q0 + 1;", "print(total2);"),
    ("set_property_non_instance", "var sp = 5;", "sp.foo = 1;", "print(type(sp)); print(sp); print(sp.foo);"),
    ("set_property_on_class", "class PC {}", "PC.zz = 1;", "print(PC); print(PC.zz);"),
    ("set_item_bad_index", "var v = [1, 2];", "v[5] = 9;", "print(v.len()); print(v[0]); print(v[1]);"),
    ("set_item_negative_index", "var v = [1, 2];", "v[-7] = 9;", "print(v.len()); print(v[0]); print(v[1]);"),
    ("set_item_non_vec", "var t = (1, 2);", "t[0] = 9;", "print(t.len()); print(t[0]);"),
    ("set_item_bad_index_type", "var v = [1, 2];", "v[\"a\"] = 9;", "print(v.len()); print(v[0]);"),
    ("map_insert_unhashable", "var hm = {1: 2};", "hm.insert([1], 3);", "print(hm.len()); print(hm.has_key(1)); print(hm.get(1));"),
    ("map_literal_unhashable_after_entries", "var q0 = 1;", "var ml = {1: 2, 3: 4, [1]: 5};", "print(ml);"),
    ("map_literal_assigned", "var hm = {1: 2};", "hm = {7: 8, [1]: 5};", "print(hm.len()); print(hm.has_key(1)); print(hm.has_key(7));"),
    ("vec_literal_failing_element", "var v = [1, 2];", "v = [3, 4, nil.foo];", "print(v.len()); print(v[0]);"),
    ("inherit_non_class", "var q0 = 1;", "#[derive(q0)] class DX { fn m(self) { return 1; } }", "print(type(q0)); print(q0);"),
    ("inherit_then_class_again", "#[constructor(new)] class DY { fn m(self) { return 1; } }", "#[derive(print)] class DZ { fn m(self) { return 2; } }",
     "print(DY.new().m()); #[constructor(new)] class DW { fn k(self) { return 3; } } print(DW.new().k());"),
    ("field_set_then_fail", "#[constructor(new)] class FC {} var fi = FC.new(); fi.a = 1;", "fi.a = nil.foo;", "print(fi.a);"),
    ("compound_assign_undeclared", "var q0 = 1;", "total3 += 1;", "print(total3);"),
    ("upvalue_assign_then_fail", "var q0 = 1;", "(|| { var x = 1; var f = || { x = 2; total4 = x; }; f(); })();", "print(total4);"),
    ("import_alias_failing", "var q0 = 1;", "import \"bad\" as mbx;", "print(mbx);"),
    ("string_index_assign", "var st = \"abc\";", "st[0] = \"z\";", "print(st);"),
]
SIDEFX_PLACES = [("top", "%s"), ("nested_call", "(|| { %s })();"), ("fiber", "Fiber.new(|| { %s }).call();"),
                 ("in_try_finally", "try { %s } finally { print(\"fin\"); }"), ("method", "#[constructor(new)] class PL { fn go(self) { %s } } PL.new().go();")]


def sidefx_histories():
    """(label, [setup, failing, probe, probe-again])"""
    res = []
    for name, setup, fail, probe in SIDEFX:
        for pname, wrap in SIDEFX_PLACES:
            if pname != "top" and (fail.startswith(("var ", "#[", "import ")) and pname in ("method",)):
                continue   # declarations inside a method body would be locals / not allowed
            if pname != "top" and fail.startswith("var "):
                continue   # `var` inside a function declares a local: a different statement
            res.append(("%s@%s" % (name, pname), [setup, wrap % fail, probe, probe]))
    return res


def run_raw(binary, histories, mods_items):
    lines = ["replmods - %s %s" % (mods_items, " ".join(hx(x) for x in h)) for h in histories]
    return [impl_records(r) for r in harness(binary, lines)]


def sidefx_check(ctx, binary, profile, mods_items, only=None):
    """a failing statement with a provisional side effect must leave NOTHING: the probe after it behaves as without it"""
    cases = [c for c in sidefx_histories() if only is None or c[1] == only]
    if only is not None and not cases:
        cases = [("replay", only)]
    with_fail = run_raw(binary, [c[1] for c in cases], mods_items)
    without = run_raw(binary, [[c[1][0]] + c[1][2:] for c in cases], mods_items)
    n = nfailing = 0
    for (label, h), a, b in zip(cases, with_fail, without):
        n += 1
        if len(a) < 2 or not (a[1]["res"] or "").startswith("err"):
            # the statement did not fail where it was put (e.g. a construct the language accepts there): nothing to compare
            continue
        nfailing += 1
        got = [fmt_obs(r) for r in a[2:]]
        want = [fmt_obs(r) for r in b[1:]]
        if got != want:
            ctx.violation("a statement that failed (%s) left a side effect that a later snippet observes [%s build]" % (label, profile),
                          input=h, raw=h, profile=profile, expected=[readable(x) for x in want], actual=[readable(x) for x in got])
    return n, nfailing


# ---- VM-level working state left by a failing snippet: the SAME feature exercised afresh must work by value ----
# failing snippets, by the working state they can leave behind
RESIDUE_FAILS = [
    ("class:undefined_super", "#[constructor(new), derive(Shape)] class Circle { fn area(self) { return 1; } }"),
    ("class:non_class_super", "#[constructor(new), derive(print)] class Circle { fn area(self) { return 1; } }"),
    ("class:in_call", "(|| { #[derive(clock)] class Circle { fn area(self) { return 1; } } })();"),
    ("class:in_fiber", "Fiber.new(|| { #[derive(Shape)] class Circle { fn area(self) { return 1; } } }).call();"),
    ("class:in_try_finally", "try { #[derive(Shape)] class Circle { fn area(self) { return 1; } } } finally { print(\"fin\"); }"),
    ("return:pending_finally_throws", "(|| { try { return 1; } finally { throw 4; } })();"),
    ("flag:throw_top", "throw 1;"),
    ("flag:throw_in_finally_path", "try { throw 1; } finally { print(\"fin\"); }"),
    ("flag:throw_in_catch", "try { throw 1; } catch e { throw 2; }"),
    ("flag:builtin_in_try", "try { nil.foo; } finally { print(\"nf\"); }"),
    ("errorip:deep_line", "fn deep() {\n\n\n  throw 1;\n}\nfn mid() {\n  deep();\n}\nmid();"),
    ("errorip:caught_then_builtin", "try { throw 1; } catch e { }\n\n\nnil.foo;"),
    ("range:built_then_fail", "for i in 0..3 { print(i); } var r = 5..9; throw 1;"),
    ("range:many_then_fail", "var a = [0..1, 0..2, 0..3, 0..4, 0..5, 0..6, 0..7, 0..8, 0..9, 1..3]; nil.foo;"),
    ("module:body_throws", "import \"bad\" as mb;"),
    ("module:nested_throws", "import \"nest\" as mn;"),
    ("module:missing", "import \"missing\" as mm;"),
    ("module:uncompilable", "import \"syn\" as ms;"),
    ("upvalue:open_in_failing_frame", "var c = nil; (|| { var x = 41; c = || x; throw 1; })();"),
    ("upvalue:open_in_caller_fiber", "var c = nil; (|| { var x = 41; c = || x; Fiber.new(|| { throw 1; }).call(); })();"),
    ("handlers:nested_try", "try { try { throw 1; } finally { print(\"a\"); } } finally { print(\"b\"); }"),
    ("handlers:in_call_in_try", "fn th() { throw 1; } try { th(); } finally { print(\"x\"); }"),
    ("handlers:fiber_in_try", "try { Fiber.new(|| { try { throw 3; } finally { print(\"ff\"); } }).call(); } finally { print(\"outer\"); }"),
    ("fiber:waiting_chain", "var fw = Fiber.new(|| { Fiber.new(|| { throw 1; }).call(); }); fw.call();"),
    ("fiber:yielded_then_throw", "var fy = Fiber.new(|| { Fiber.yield(1); throw 2; }); fy.call(); fy.call();"),
    ("compile:after_function", "fn hh() { return 0; } var = ;"),
    ("compile:in_class", "class Broken { fn m(self) { return ; } fn }"),
    ("setglobal:undeclared", "total = 41;"),
]
# self-contained probes (fresh names, no addresses printed): the same features, observed by value
RESIDUE_PROBES = [
    ("class", "#[constructor(new)] class Point { fn x(self) { return 3; } } print(Point); print(type(Point.new())); print(Point.new().x()); "
              "#[constructor(new), derive(Point)] class Point3 { fn z(self) { return 5; } } print(Point3); print(type(Point3.new())); "
              "print(Point3.new().x()); print(Point3.new().z()); print(Point3.new().derives(Point));"),
    ("class_static", "class Util { #[static] fn twice(n) { return n * 2; } } print(Util); print(Util.twice(4)); print(type(Util));"),
    ("return", "fn r2() { try { return 7; } finally { print(\"f\"); } } print(r2()); fn r3() { try { return 8; } catch e { return 9; } } print(r3()); print(\"after\");"),
    ("try", "try { print(\"t\"); } finally { print(\"f\"); } try { throw 2; } catch e { print(e); } finally { print(\"g\"); } print(\"after\");"),
    ("try_nested", "try { try { throw 5; } finally { print(\"i\"); } } catch e { print(e); } print(\"after\");"),
    ("error_trace", "fn bad2() {\n  nil.bar;\n}\n\nbad2();"),
    ("range", "for i in 0..3 { print(i); } print(0..3); print((0..3) == (0..3)); var rs = [0..1, 0..2, 0..3, 0..4, 0..5, 0..6, 0..7, 0..8, 0..9]; print(rs.len()); print(5..9);"),
    ("import_good", "import \"good\" as mg2; print(mg2.v);"),
    ("import_bad_again", "import \"bad\" as mb2;"),
    ("import_nest_again", "import \"nest\" as mn2;"),
    ("closure", "var c2 = nil; (|| { var x = 5; c2 = || x; })(); print(c2()); var mk = |n| { return || n + 1; }; print(mk(1)());"),
    ("fiber", "var f2 = Fiber.new(|| { try { Fiber.yield(1); throw 6; } catch e { print(e); } return 5; }); print(f2.call()); print(f2.call()); print(f2.has_finished());"),
    ("global", "var fresh = 1; fresh = fresh + 1; print(fresh);"),
]


def fmt_full(r):
    """observation with EVERY message line (trace lines included)"""
    return fmt_obs(r) + ";msgs=" + ",".join(r["msgs"])


def residue_check(ctx, binary, profile, mods_items, only=None):
    """[failing snippet, probe, probe'] : the probes behave as on a newly created interpreter"""
    if only is not None:
        cases = [("replay", only[0], only[1:])]
    else:
        cases = [("%s / %s" % (fn, pn), f, [p, RESIDUE_PROBES[(i + 1) % len(RESIDUE_PROBES)][1]])
                 for fn, f in RESIDUE_FAILS for i, (pn, p) in enumerate(RESIDUE_PROBES)]
    with_fail = run_raw(binary, [[f] + ps for _, f, ps in cases], mods_items)
    fresh_cache = {}
    todo = sorted({tuple(ps) for _, _, ps in cases})
    for ps, recs in zip(todo, run_raw(binary, [list(ps) for ps in todo], mods_items)):
        fresh_cache[ps] = recs
    n = 0
    for (label, f, ps), a in zip(cases, with_fail):
        n += 1
        b = fresh_cache[tuple(ps)]
        if not a or not (a[0]["res"] or "").startswith("err"):
            note = "residue family: %r did not fail on this tree" % f
            if label != "replay" and note not in ctx.notes:
                ctx.notes.append(note)
            continue
        got = [fmt_full(r) for r in a[1:]]
        want = [fmt_full(r) for r in b]
        # a probe that imports a module the failing snippet already imported does not load it again: compare without loader calls
        strip = lambda l: [";".join(kv for kv in x.split(";") if not kv.startswith("loads=")) for x in l]
        if strip(got) != strip(want):
            ctx.violation("after a failing snippet (%s) the same feature exercised afresh behaves differently than on a new interpreter [%s build]" % (label, profile),
                          input=[f] + ps, raw_residue=[f] + ps, profile=profile,
                          expected=[readable(x.split(";msgs=")[0]) for x in want], actual=[readable(x.split(";msgs=")[0]) for x in got],
                          expected_messages=[[unmsg(m) for m in x.split(";msgs=")[1].split(",") if m] for x in want],
                          actual_messages=[[unmsg(m) for m in x.split(";msgs=")[1].split(",") if m] for x in got])
    return n


# ---- reset == new: every start-up name and every core.yl feature after RESET ----
HARD_NAMES = ["clock", "type", "print", "Type", "Object", "Nil", "Bool", "Num", "Func", "BuiltIn", "Method", "BuiltInMethod", "String",
              "Iter", "MapIter", "FilterIter", "Tuple", "Vec", "Range", "HashMap", "Fiber", "Error", "RuntimeError", "AttributeError",
              "CompileError", "ImportError", "IndexError", "NameError", "TypeError", "ValueError", "StopIter"]


def candidate_names():
    """start-up names: the hard-wired list + what own-c14's translator reads from init_built_in_globals (gen/manifest.json)
    + the classes core.yl declares (read from the CURRENT core.yl) + the iterator classes of gen/IterFns.v (c18_iter_fns)"""
    import json
    import re
    names = list(HARD_NAMES)
    try:
        with open(os.path.join(yvlib.COQ, "gen", "manifest.json")) as fh:
            man = json.load(fh)
        names += [n for n, _ in man.get("c14", {}).get("builtin_installs", [])]
        names += list(man.get("c18_iter_fns", {}).keys())
    except Exception:
        pass
    try:
        with open(os.path.join(yvlib.REPO, "yarel", "src", "core.yl")) as fh:
            names += re.findall(r"^\s*class\s+([A-Za-z_][A-Za-z0-9_]*)", fh.read(), re.M)
    except Exception:
        pass
    seen = []
    for n in names:
        if n not in seen:
            seen.append(n)
    return seen


def iter_methods():
    """core.yl iterator methods listed by own-c18's translator (fallback: the five known ones)"""
    import json
    try:
        with open(os.path.join(yvlib.COQ, "gen", "manifest.json")) as fh:
            fns = json.load(fh).get("c18_iter_fns", {})
        return sorted({f["name"] for cl in fns.values() for f in cl})
    except Exception:
        return ["iter", "map", "collect", "filter", "reduce", "new", "next"]


# one probe per core.yl method / adapter and per family of start-up names; no addresses printed
FEATURE_PROBES = [
    "print([1, 2, 3, 4].iter().map(|x| x * 2).collect());",
    "print([1, 2, 3, 4].iter().filter(|x| x > 2).collect());",
    "print([1, 2, 3, 4].iter().reduce(|a, x| a + x, 0));",
    "print([1, 2, 3, 4].iter().map(|x| x + 1).filter(|x| x > 2).map(|x| x * 10).collect());",
    "print((1, 2, 3).iter().filter(|x| x != 2).collect()); print((0..5).iter().map(|x| x * x).collect());",
    "print(\"abc\".iter().map(|c| c + c).collect()); print({1: 2}.keys().iter().collect());",
    "for x in [1, 2, 3].iter().map(|x| x * 3) { print(x); } for y in [1, 2, 3].iter().filter(|x| x > 1) { print(y); }",
    "var mi = MapIter.new([1, 2].iter(), |x| x + 1); print(type(mi)); print(mi.next()); print(mi.iter().collect());",
    "var fi = FilterIter.new([1, 2, 3].iter(), |x| x > 1); print(type(fi)); print(fi.next()); print(fi.iter().collect());",
    "var it = [7].iter(); print(it.next()); var e2 = it.next(); print(type(e2)); print(type(e2) == StopIter); print(e2.derives(Error)); print(type(StopIter.new()));",
    "try { nil.foo; } catch e { print(type(e)); print(type(e) == AttributeError); } try { zzz; } catch e { print(type(e) == NameError); }",
    "try { [1][5]; } catch e { print(type(e) == IndexError); } try { 1 + nil; } catch e { print(type(e)); } try { var um = {[1]: 2}; } catch e { print(type(e)); print(type(e) == ValueError); }",
    "try { throw Error.new(\"x\"); } catch e { print(type(e)); print(e.derives(Error)); } print(RuntimeError.derives(Error)); try { import \"missing\" as q; } catch e { print(type(e) == ImportError); }",
    "print(type(1)); print(type(\"s\")); print(type(nil)); print(type(true)); print(type([1])); print(type((1, 2))); print(type(0..1)); print(type({}));",
    "print(type(|| 1)); print(type(print)); print(type([1].push)); print(type(clock()) == Num); print(String.from(12)); print(type(type));",
    "print(Fiber.new(|| { Fiber.yield(1); return 2; }).call()); #[constructor(new)] class RC { fn m(self) { return 1; } } print(type(RC.new().m)); print(type(RC) == Type);",
]
RESET_PRES = [
    ("nothing", []),
    ("definitions", ["var g0 = 5; fn f0() { return g0; } #[constructor(new)] class C0 { fn m(self) { return 1; } } import \"good\" as mg;"]),
    ("shadowed_builtins", ["var Iter = 1; var FilterIter = 2; var print2 = print; var Vec = nil; var StopIter = 3;"]),
    ("failing_throw", ["var g0 = 5; throw 1;"]),
    ("failing_class", ["#[derive(print)] class D {}"]),
    ("failing_import", ["import \"bad\" as mb;"]),
    ("failing_in_iter", ["[1, 2].iter().map(|x| nil.foo).collect();"]),
    ("failing_in_fiber", ["Fiber.new(|| { [1].iter().filter(|x| throw 2).collect(); }).call();"]),
    ("compile_error", ["var = ;"]),
]


def reset_check(ctx, binary, profile, mods_items, only=None):
    """after RESET (alone, after definitions, after a failing snippet): the SET of main's global names and every start-up name /
    core.yl feature behave exactly as on a brand-new interpreter"""
    names = candidate_names()
    names_item = "NAMES:" + ",".join(hx(n) for n in names + ["g0", "f0", "C0", "mg", "print2", "D", "mb"])
    probes = ["print(type(%s));" % n for n in names] + FEATURE_PROBES
    missing = [m for m in iter_methods() if not any(("." + m + "(") in p for p in FEATURE_PROBES)]
    if missing and "core.yl methods without a probe: %s" % missing not in ctx.notes:
        ctx.notes.append("core.yl methods without a probe: %s" % missing)
    pres = RESET_PRES if only is None else [("replay", only)]

    def line(pre, reset):
        items = [hx(x) for x in pre] + (["RESET"] if reset else ["FRESH"]) + [names_item] + [hx(p) for p in probes]
        return "replmods - %s %s" % (mods_items, " ".join(items))
    recs = harness(binary, [line(pre, True) for _, pre in pres] + [line([], False)], case_timeout_ms=20000)
    ref = impl_records(recs[-1])[1:]          # after FRESH: names + probes on a brand-new Vm
    n = 0
    for (label, pre), rec in zip(pres, recs[:-1]):
        got = impl_records(rec)[len(pre) + 1:]
        n += 1
        if len(got) != len(ref):
            ctx.violation("after RESET (%s) the probe run ended early [%s build]" % (label, profile), input=pre + ["RESET", "<probes>"],
                          raw_reset=pre, profile=profile, expected=len(ref), actual=[readable(fmt_obs(r)) for r in got[-2:]])
            continue
        gn, rn = got[0].get("names", {}), ref[0].get("names", {})
        if gn != rn:
            diff = sorted(k for k in set(gn) | set(rn) if gn.get(k) != rn.get(k))
            ctx.violation("after RESET (%s) the set of main's global names differs from a new interpreter's [%s build]" % (label, profile),
                          input=pre + ["RESET", "<which names are globals of main>"], raw_reset=pre, profile=profile,
                          expected={k: rn.get(k) for k in diff}, actual={k: gn.get(k) for k in diff})
        for p, a, b in zip(probes, got[1:], ref[1:]):
            if fmt_full(a) != fmt_full(b):
                ctx.violation("after RESET (%s) a start-up name / core library feature behaves differently than on a new interpreter [%s build]" % (label, profile),
                              input=pre + ["RESET", p], raw_reset=pre, profile=profile, expected=readable(fmt_obs(b)), actual=readable(fmt_obs(a)))
                break
    return n * (1 + len(probes))


# ---- a failed import must not disturb modules that load later (identity and state of modules) ----
XMODS = {"flag": "var ready = false;\n",
         "xb": "import \"flag\" as flag;\nif !flag.ready { throw \"b is not ready\"; }\nvar v = 7;\n",
         "xa": "print(\"loading a\");\nimport \"xb\" as b;\nvar counter = 0;\nfn bump() { counter = counter + 1; return counter; }\n",
         "xc": "print(\"loading c\");\nimport \"xa\" as a;\nvar w = a.bump() + 100;\n",
         "xd": "print(\"loading d\");\nimport \"xb\" as b1;\nimport \"xa\" as a;\nimport \"xb\" as b2;\nvar same = b1 == b2;\n"}
MODULE_FAILS = [("top", "import \"xb\" as b;"), ("nested_call", "(|| { import \"xb\" as b; })();"),
                ("fiber", "Fiber.new(|| { import \"xb\" as b; }).call();"), ("in_try_finally", "try { import \"xb\" as b; } finally { print(\"fin\"); }"),
                ("through_a", "import \"xa\" as a0;"), ("through_c", "import \"xc\" as c0;"), ("twice", "import \"xb\" as b; "),
                ]
MODULE_TAILS = [
    ["import \"xa\" as a; print(a.bump());", "import \"xa\" as a2; print(a2.bump()); print(a2 == a);", "import \"xb\" as b9; print(b9.v); print(b9 == a.b);"],
    ["import \"xc\" as c; print(c.w);", "import \"xa\" as a; print(a.bump()); import \"xc\" as c2; print(c2 == c); print(c2.a == a);"],
    ["import \"xd\" as d; print(d.same); print(d.a.bump());", "import \"xa\" as a; print(a.bump()); print(a == d.a); print(a.b == d.b1);"],
    ["(|| { import \"xa\" as a; print(a.bump()); })();", "Fiber.new(|| { import \"xa\" as a; print(a.bump()); }).call(); import \"xa\" as a3; print(a3.bump());"],
]


def module_check(ctx, binary, profile, mods_items, only=None):
    """[import flag; <import of xb fails: not ready>; flag.ready = true; tail…] must behave as the same history without the
    failing snippet: every module is loaded once, one object per module, its state persists"""
    xm = mods_items + " " + " ".join("%s=%s" % (hx(n), hx(src)) for n, src in XMODS.items())
    head = "import \"flag\" as flag;"
    if only is not None:
        cases = [("replay", only)]
    else:
        cases = [("%s/%d" % (fn, i), [head, f] + (["import \"xb\" as bb;"] if fn == "twice" else []) + ["flag.ready = true;"] + t)
                 for fn, f in MODULE_FAILS for i, t in enumerate(MODULE_TAILS)]
    a_recs = run_raw(binary, [h for _, h in cases], xm)
    refs = {}
    for _, h in cases:
        k = h.index("flag.ready = true;")
        refs[tuple(h[k:])] = None
    keys = sorted(refs)
    for k, r in zip(keys, run_raw(binary, [[head] + list(k) for k in keys], xm)):
        refs[k] = r
    n = 0
    for (label, h), a in zip(cases, a_recs):
        n += 1
        k = h.index("flag.ready = true;")
        failing = a[1:k]
        if not failing or not all((r["res"] or "").startswith("err") for r in failing):
            note = "module family: %r did not fail on this tree" % h[1]
            if label != "replay" and note not in ctx.notes:
                ctx.notes.append(note)
            continue
        got = [fmt_obs(r) for r in a[k:]]
        want = [fmt_obs(r) for r in refs[tuple(h[k:])][1:]]
        if got != want:
            ctx.violation("after an import that failed uncaught (%s), modules imported by later snippets are not loaded exactly once / lose identity or state [%s build]" % (label, profile),
                          input=h, raw_modules=h, modules=XMODS, profile=profile, expected=[readable(x) for x in want], actual=[readable(x) for x in got])
    return n


# ---- runs that end SUCCESSFULLY and still leave VM-level working state (round 7) ----
# Every other directed family starts from a FAILING snippet.  A run can also end successfully with working state set: the
# exception flag (a finally block entered by an exception that is left by return / break / continue, or whose fiber parks itself for
# good), parked fibers holding handlers / a pending return / open upvalues / a half-imported module, a full range cache.
# [such a snippet, probe, probe'] must behave as [probe, probe'] on a new interpreter.  The prefix's own outcome is NOT judged here
# (abrupt exits from a finally block are C08's business as far as the single run is concerned); it only has to end without error.
OKMODS = {"xsw": "fn s() { try { throw 1; } finally { return 8; } }\nvar v = s();\n",
          "xpk": "var f = Fiber.new(|| { try { throw 1; } finally { Fiber.yield(3); } });\nvar v = f.call();\n",
          "xfin": "var v = 1;\ntry { print(\"mt\"); } finally { print(\"mf\"); }\nvar w = 2;\n",
          "xyield": "var v = 1;\nFiber.yield(v);\nvar w = 2;\n"}
# the ways a finally block entered by an exception can be left without EndFinally ({R} = how the exception is raised)
FLAG_RAISES = [("throw", "throw 1;"), ("builtin", "nil.foo;"), ("callee", "(|| { throw 2; })();"), ("native_callee", "[1][5];")]
FLAG_CORES = [
    ("finally_returns", "fn cl() { try { %s } finally { return 8; } } print(cl());"),
    ("finally_returns_lambda", "print((|| { try { %s } finally { return 8; } })());"),
    ("finally_returns_method", "#[constructor(new)] class SW { fn go(self) { try { %s } finally { return 8; } } } print(SW.new().go());"),
    ("finally_breaks", "while true { try { %s } finally { break; } } print(\"out\");"),
    ("finally_continues", "var i = 0; while i < 2 { i = i + 1; try { %s } finally { continue; } } print(\"out\");"),
    ("finally_breaks_for", "for i in 0..3 { try { %s } finally { break; } } print(\"out\");"),
    ("fiber_parks_in_finally", "print(Fiber.new(|| { try { %s } finally { Fiber.yield(3); } }).call());"),
    ("fiber_parks_in_finally_kept", "var fp = Fiber.new(|| { try { %s } finally { Fiber.yield(3); } }); print(fp.call());"),
    ("fiber_parks_in_callee_of_finally", "fn park() { Fiber.yield(4); } print(Fiber.new(|| { try { %s } finally { park(); } }).call());"),
    ("fiber_parks_in_inner_finally", "print(Fiber.new(|| { try { try { %s } finally { Fiber.yield(3); } } finally { print(\"never\"); } }).call());"),
    ("fiber_finishes_by_finally_return", "print(Fiber.new(|| { try { %s } finally { return 8; } }).call());"),
    ("swallow_inside_outer_try_catch", "try { print((|| { try { %s } finally { return 8; } })()); } catch e { print(\"no\"); }"),
]
DIRTY_FLAG_CORES = [("flag:%s/%s" % (cn, rn), core % raise_, ci, ri) for ci, (cn, core) in enumerate(FLAG_CORES) for ri, (rn, raise_) in enumerate(FLAG_RAISES)]
DIRTY_OTHER = [
    ("flag:module_body_swallows", "import \"xsw\" as xs; print(xs.v);"),
    ("flag:module_body_parks_fiber", "import \"xpk\" as xp; print(xp.v);"),
    ("flag:twice", "fn cl() { try { throw 1; } finally { return 8; } } print(cl()); print(cl());"),
    ("flag:swallow_then_caught_throw", "fn cl() { try { throw 1; } finally { return 8; } } print(cl()); try { throw 2; } catch e { print(e); }"),
    ("flag:caught_throw_then_swallow", "fn cl() { try { throw 1; } finally { return 8; } } try { throw 2; } catch e { print(e); } print(cl());"),
    # other working state that a SUCCESSFUL run leaves behind
    ("fiber:parked_in_try_catch", "var fh = Fiber.new(|| { try { Fiber.yield(2); throw 5; } catch e { print(e); } return 9; }); print(fh.call());"),
    ("fiber:parked_in_try_finally", "var ff = Fiber.new(|| { try { Fiber.yield(2); } finally { print(\"ff\"); } }); print(ff.call());"),
    ("fiber:parked_with_pending_return", "var fr = Fiber.new(|| { try { return 1; } finally { Fiber.yield(2); } }); print(fr.call());"),
    ("fiber:parked_with_open_upvalue", "var c3 = nil; var fu = Fiber.new(|| { var x = 41; c3 = || x; Fiber.yield(1); x = 42; }); print(fu.call()); print(c3());"),
    ("fiber:parked_chain", "var fo = Fiber.new(|| { var fi = Fiber.new(|| { Fiber.yield(1); }); fi.call(); Fiber.yield(2); }); print(fo.call());"),
    ("module:half_imported_in_parked_fiber", "print(Fiber.new(|| { import \"xyield\" as xy; }).call());"),
    ("range:full_cache", "var rs0 = [0..1, 0..2, 0..3, 0..4, 0..5, 0..6, 0..7, 0..8, 0..9, 1..3]; print(rs0.len());"),
]
# probes in addition to RESIDUE_PROBES: a finally block reached normally in every context code can run in
DIRTY_PROBES = [
    ("finally_in_fiber", "print(Fiber.new(|| { try { print(\"t\"); } finally { print(\"f\"); } return 5; }).call()); print(\"after\");"),
    ("finally_in_method", "#[constructor(new)] class FM { fn go(self) { try { print(\"t\"); } finally { print(\"f\"); } return 6; } } print(FM.new().go()); print(\"after\");"),
    ("finally_in_module", "import \"xfin\" as xf; print(xf.w);"),
    ("finally_in_loop", "for i in 0..2 { try { print(i); } finally { print(\"f\"); } } print(\"after\");"),
    ("finally_in_adapter", "print([1, 2].iter().map(|x| { try { print(x); } finally { print(\"f\"); } return x * 2; }).collect());"),
    ("finally_in_resumed_fiber", "var fq = Fiber.new(|| { Fiber.yield(1); try { print(\"t\"); } finally { print(\"f\"); } return 2; }); print(fq.call()); print(fq.call());"),
    ("finally_nested_normal", "try { try { print(\"a\"); } finally { print(\"b\"); } } finally { print(\"c\"); } print(\"after\");"),
]
# snippets that run nothing / fail / reset between the prefix and the probe: the state must not come back through them
DIRTY_BETWEEN = [("compile_error", "var = ;"), ("uncaught_throw", "throw 1;"), ("failing_import", "import \"bad\" as mb;"), ("reset", "RESET")]


def run_items(binary, histories, mods_items):
    """like run_raw, but the word RESET / FRESH is passed through"""
    lines = ["replmods - %s %s" % (mods_items, " ".join(x if x in ("RESET", "FRESH") else hx(x) for x in h)) for h in histories]
    return [impl_records(r) for r in harness(binary, lines)]


def strip_loads(l):
    return [";".join(kv for kv in x.split(";") if not kv.startswith("loads=")) for x in l]


def dirty_ok_check(ctx, binary, profile, mods_items, only=None):
    """[snippet that ends successfully with working state set, (snippet in between,) probe, probe'] : the probes behave as on a
    newly created interpreter.  Returns (histories, prefixes that ended ok, prefixes that left the flag set)"""
    xm = mods_items + " " + " ".join("%s=%s" % (hx(n), hx(src)) for n, src in OKMODS.items())
    probes = RESIDUE_PROBES + DIRTY_PROBES
    if only is not None:
        k = max(1, len(only) - 2) if len(only) > 2 else 1
        cases = [("replay", only[:k], only[k:])]
    else:
        quick = ctx.quick() if hasattr(ctx, "quick") else True
        # quick: the first two shapes with every way of raising, the other shapes with one way each (rotating with the seed)
        rot = ctx.rng.randrange(len(FLAG_RAISES)) if quick and hasattr(ctx, "rng") else 0
        prefixes = [(dn, d) for dn, d, ci, ri in DIRTY_FLAG_CORES if not quick or ci in (0, 6) or ri == (ci + rot) % len(FLAG_RAISES)] + DIRTY_OTHER
        # quick: after a flag prefix every probe with a finally block + 3 of the others (rotating); everything after the other prefixes
        nofin = [pn for pn, p in probes if "finally" not in p]
        keep = set(nofin[(rot + j * 3) % len(nofin)] for j in range(3)) if quick else set(nofin)
        cases = [("%s / %s" % (dn, pn), [d], [p, probes[(i + 1) % len(probes)][1]])
                 for dn, d in prefixes for i, (pn, p) in enumerate(probes)
                 if not dn.startswith("flag:") or "finally" in p or pn in keep]
        key = [p for p in probes if p[0] in (("try", "finally_in_fiber") if quick else ("try", "return", "finally_in_fiber"))]
        cases += [("%s / %s / %s" % (dn, bn, pn), [d, b], [p, probes[0][1]])
                  for j, (dn, d) in enumerate(prefixes) if dn.startswith("flag:") and (not quick or j % 3 == rot % 3)
                  for bn, b in DIRTY_BETWEEN for pn, p in key]
    got_all = run_items(binary, [pre + ps for _, pre, ps in cases], xm)
    fresh_cache = {}
    todo = sorted({(pre[-1] == "RESET", tuple(ps)) for _, pre, ps in cases})
    # after RESET the modules are gone as well: the reference for a case with RESET in between is RESET + probes on a new interpreter
    for k, recs in zip(todo, run_items(binary, [(["RESET"] if k[0] else []) + list(k[1]) for k in todo], xm)):
        fresh_cache[k] = recs[1:] if k[0] else recs
    n = nok = 0
    flagged = set()
    bad = []
    for (label, pre, ps), a in zip(cases, got_all):
        n += 1
        if not a or a[0]["res"] != "ok":
            note = "dirty-ok family: %r did not end successfully on this tree" % pre[0]
            if label != "replay" and note not in ctx.notes:
                ctx.notes.append(note)
            continue
        nok += 1
        if (a[0]["cs"] or "").startswith("he=1"):
            flagged.add(pre[0])
        got = [fmt_full(r) for r in a[len(pre):]]
        want = [fmt_full(r) for r in fresh_cache[(pre[-1] == "RESET", tuple(ps))]]
        if strip_loads(got) != strip_loads(want):
            sg, sw = strip_loads(got), strip_loads(want)
            first = next((i for i in range(min(len(sg), len(sw))) if sg[i] != sw[i]), min(len(sg), len(sw)))
            bad.append((first, len(pre), dict(
                what="after a snippet that ended SUCCESSFULLY but left working state behind (%s) a later snippet behaves differently than on a new interpreter [%s build]" % (label, profile),
                input=pre + ps, raw_dirty=pre + ps, modules=OKMODS, profile=profile,
                expected=[readable(x.split(";msgs=")[0]) for x in want], actual=[readable(x.split(";msgs=")[0]) for x in got],
                expected_messages=[[unmsg(m) for m in x.split(";msgs=")[1].split(",") if m] for x in want],
                actual_messages=[[unmsg(m) for m in x.split(";msgs=")[1].split(",") if m] for x in got])))
    # the shortest explanations first: the probe right after the prefix differs, nothing in between
    bad.sort(key=lambda t: (t[0], t[1]))
    for _, _, v in bad[:10]:
        ctx.violation(v.pop("what"), **v)
    return n, nok, len(flagged)


# ---- one program run piecewise: objects parked by one snippet and continued by the next ----
# (A, B): A ends successfully; [A, B] on one interpreter must print what the single snippet "A B" prints and end the same way.
# Only constructs whose single-run behaviour is outside C08's open classes (no abrupt exit from a finally block).
SPLIT_CASES = [
    ("handler_of_parked_fiber", "var fh = Fiber.new(|| { try { Fiber.yield(2); throw 5; } catch e { print(e); } return 9; }); print(fh.call());",
     "print(fh.call()); print(fh.has_finished());"),
    ("finally_of_parked_fiber", "var ff = Fiber.new(|| { try { Fiber.yield(2); print(\"r\"); } finally { print(\"ff\"); } return 3; }); print(ff.call());",
     "print(ff.call()); print(ff.has_finished());"),
    ("finally_of_parked_fiber_throwing", "var ft = Fiber.new(|| { try { try { Fiber.yield(2); throw 6; } finally { print(\"ff\"); } } catch e { print(e); } return 4; }); print(ft.call());",
     "print(ft.call());"),
    ("pending_return_of_parked_fiber", "var fr = Fiber.new(|| { try { return 1; } finally { Fiber.yield(2); print(\"late\"); } }); print(fr.call());",
     "print(fr.call()); print(fr.has_finished());"),
    ("parked_inside_normal_finally", "var fn_ = Fiber.new(|| { try { print(\"t\"); } finally { Fiber.yield(1); print(\"f2\"); } return 7; }); print(fn_.call());",
     "print(fn_.call()); try { print(\"b\"); } finally { print(\"bf\"); } print(\"after\");"),
    ("open_upvalue_of_parked_fiber", "var c3 = nil; var fu = Fiber.new(|| { var x = 41; c3 = || x; Fiber.yield(1); x = 42; Fiber.yield(2); }); print(fu.call()); print(c3());",
     "print(fu.call()); print(c3()); (|| { var y = 1; print(y + c3()); })();"),
    ("callee_of_parked_fiber_throws", "fn inner() { Fiber.yield(1); throw 8; } var fc = Fiber.new(|| { try { inner(); } catch e { print(e); return 10; } return 11; }); print(fc.call());",
     "print(fc.call()); print(fc.has_finished());"),
    ("generator", "var gen = Fiber.new(|| { for i in 0..4 { Fiber.yield(i * i); } return -1; }); print(gen.call()); print(gen.call());",
     "print(gen.call()); print(gen.call()); print(gen.call()); print(gen.has_finished());"),
    ("resumed_inside_try_and_fiber", "var fz = Fiber.new(|| { try { Fiber.yield(1); throw 3; } finally { print(\"zf\"); } });  print(fz.call());",
     "try { fz.call(); } catch e { print(e); } finally { print(\"bf\"); } print(Fiber.new(|| { return 12; }).call());"),
    ("parked_in_adapter", "var fa = Fiber.new(|| { return [1, 2].iter().map(|x| { Fiber.yield(x); return x * 2; }).collect(); }); print(fa.call());",
     "print(fa.call()); print(fa.call());"),
    ("parked_chain", "var fo = Fiber.new(|| { var fi = Fiber.new(|| { Fiber.yield(1); return 5; }); print(fi.call()); Fiber.yield(2); print(fi.call()); return 6; }); print(fo.call());",
     "print(fo.call()); print(fo.has_finished());"),
    ("uncaught_from_resumed_fiber", "var fx = Fiber.new(|| { try { Fiber.yield(1); throw 13; } finally { print(\"xf\"); } }); print(fx.call());",
     "fx.call();"),
    ("class_instance_closure", "#[constructor(new)] class Ctr { fn inc(self) { self.n = self.n + 1; return self.n; } } var ct = Ctr.new(); ct.n = 0; var up = || ct.inc(); print(up());",
     "print(up()); print(ct.n); print(type(ct)); print(Ctr);"),
]


def split_check(ctx, binary, profile, mods_items, only=None):
    cases = SPLIT_CASES if only is None else [("replay", only[0], only[1])]
    two = run_items(binary, [[a, b] for _, a, b in cases], mods_items)
    one = run_items(binary, [[a + " " + b] for _, a, b in cases], mods_items)
    n = 0
    for (label, a, b), t, o in zip(cases, two, one):
        n += 1
        if len(t) < 2 or not o or t[0]["res"] != "ok":
            note = "split family: %r did not end successfully on this tree" % a
            if label != "replay" and note not in ctx.notes:
                ctx.notes.append(note)
            continue
        first = lambda r: (r["res"] or "none") + ":" + (r["msgs"][0] if r["msgs"] else "")
        got = (t[0]["out"] + t[1]["out"], first(t[1]))
        want = (o[0]["out"], first(o[0]))
        if got != want:
            dec = lambda x: ([yvlib.unhx(l).decode("utf-8", "replace") for l in x[0]], x[1].split(":")[0] + ":" + unmsg(x[1].split(":")[-1]) if x[1].count(":") else x[1])
            ctx.violation("an object parked by one snippet and continued by the next (%s) behaves differently than in one program [%s build]" % (label, profile),
                          input=[a, b], raw_split=[a, b], profile=profile, expected=dec(want), actual=dec(got))
    return n


# ---- scale: failed runs / resets whose clean-up has to walk MANY fibers / frames / open upvalues / handlers / modules (round 8) ----
# Every other family builds a handful of waiting fibers, handlers, frames or modules before the failure, so a clean-up loop that is
# bounded by a constant or stops early (first 64 fibers, first N upvalues / handlers / modules) behaves as the full loop on all of them.
# Here every shape is a function of a size n, taken at 2, around the VM's limits (FRAMES_MAX = 64: 63 64 65 66; 250 locals) and far
# beyond (130).  Two oracles, on the implementation alone:
#  (1) [setup(n), run that FAILS, probes] == [setup(n), the same run completing normally, probes] on the probes (the failing snippet
#      matters only through its completed definitions: the same fibers are over, the same closures hold the same values, the same
#      modules are absent); for RESET: [definitions at scale, RESET, probes] == [RESET, probes] on a new interpreter, modules and chunks
#      of the H5 record included;
#  (2) scale independence: the probes print only size-independent summaries (differences from the expected counts), so the probe
#      records at size n must equal those at the smallest size (which the model and the other families tie to the Spec).
SCALE_FAILS = {"throw": "throw \"boom\";", "builtin": "nil.foo;", "import": "import \"bad\" as mb;", "overflow": "over(0);",
               "undeclared": "total = 41;", "class": "#[derive(Shape)] class Circle {}"}
SCALE_OVER = "fn over(k) { return over(k + 1) + 1; }"
CLS_PROBE = "var wrong = 0; for i in 0..cls.len() { if cls[i]()[0] != i * 10 { wrong = wrong + 1; } } print(wrong); print(cls.len() - want);"
AFTER_PROBE = ("try { print(\"t\"); } finally { print(\"f\"); } print(Fiber.new(|| { return 5; }).call()); var c2 = nil; "
               "(|| { var x = 5; c2 = || x; })(); print(c2()); try { try { throw 5; } finally { print(\"i\"); } } catch e { print(e); } print(\"after\");")


def sc_chain(n, kind, where):
    """n fibers waiting in the caller chain (each: 2 frames, a try/finally handler, an open upvalue) + the innermost one, which fails.
    where = fresh: the chain is built by the failing run; parked: every fiber was started and parked by an EARLIER snippet"""
    parked = where == "parked"
    setup = ("var fibers = []; var cls = []; var want = %d; var done = 0; %s fn step(i, n) { if i < n { return fibers[i + 1].call(); } return -1; } "
             "fn make(i, n, boom) { return Fiber.new(|| { var x = [i * 10, \"v\"]; cls.push(|| x); %stry { if i < n { step(i, n); } else { if boom { %s } } } "
             "finally { done = done + 1; } return i; }); }" % (n + 1, SCALE_OVER, "Fiber.yield(i); " if parked else "", SCALE_FAILS[kind]))
    build = "for i in 0..%d { fibers.push(make(i, %d, %%s)); }" % (n + 1, n) + (" for f in fibers { f.call(); }" if parked else "")
    run = "fibers[0].call();"
    probes = ["var fin = 0; var firstlive = -1; for i in 0..fibers.len() { if fibers[i].has_finished() { fin = fin + 1; } else { if firstlive < 0 { firstlive = i; } } } "
              "print(fibers.len() - fin); print(firstlive); print(fibers.len() - want);", CLS_PROBE,
              "fibers[0].call();", "fibers[1].call();", "fibers[(fibers.len() - fibers.len() % 2) / 2].call();", "fibers[fibers.len() - 2].call();", "fibers[fibers.len() - 1].call();",
              "var again = []; fn mk2(i) { return Fiber.new(|| { var y = i; try { if i + 1 < again.len() { again[i + 1].call(); } } finally { y = y + 1; } return y - i; }); } "
              "for i in 0..fibers.len() { again.push(mk2(i)); } print(again[0].call()); var live = 0; for f in again { if !f.has_finished() { live = live + 1; } } print(live);",
              AFTER_PROBE]
    return {"a": [setup, build % "true", run] + probes, "b": [setup, build % "false", run] + probes, "k": 2, "np": len(probes)}


def sc_frames(n, kind, where):
    """n nested calls, each frame with a captured local (an open upvalue) and a try/finally; the deepest one fails.
    where: top / fiber (the calls run in a fiber) / caller (the deepest frame calls a fiber that fails: n frames of a WAITING fiber)"""
    fail = SCALE_FAILS[kind] if where != "caller" else "Fiber.new(|| { %s }).call();" % SCALE_FAILS[kind]
    setup = ("var cls = []; var want = %d; var done = 0; %s fn rec(i, n, boom) { var x = [i * 10, \"v\"]; cls.push(|| x); "
             "try { if i + 1 < n { rec(i + 1, n, boom); } else { if boom { %s } } } finally { done = done + 1; } return i; }" % (n, SCALE_OVER, fail))
    run = ("rec(0, %d, %%s);" if where != "fiber" else "Fiber.new(|| { rec(0, %d, %%s); }).call();") % n
    probes = [CLS_PROBE, "cls = []; " + (run % "false") + " " + CLS_PROBE, AFTER_PROBE]
    return {"a": [setup, run % "true"] + probes, "b": [setup, run % "false"] + probes, "k": 1, "np": len(probes)}


def sc_locals(n, kind, where):
    """ONE frame with n captured locals (n open upvalues of one frame) that fails"""
    fail = SCALE_FAILS[kind] if where != "caller" else "Fiber.new(|| { %s }).call();" % SCALE_FAILS[kind]
    body = " ".join("var a%d = [%d, \"v\"]; cls.push(|| a%d);" % (i, i * 10, i) for i in range(n))
    setup = "var cls = []; var want = %d; %s fn wide(boom) { %s if boom { %s } return 0; }" % (n, SCALE_OVER, body, fail)
    run = "wide(%s);" if where != "fiber" else "Fiber.new(|| { wide(%s); }).call();"
    probes = [CLS_PROBE, "cls = []; " + (run % "false") + " " + CLS_PROBE, AFTER_PROBE]
    return {"a": [setup, run % "true"] + probes, "b": [setup, run % "false"] + probes, "k": 1, "np": len(probes)}


def sc_handlers(n, kind, where):
    """n nested try blocks (finally-only, every third one catches and rethrows) around the failing statement.
    where = callee: in a fiber whose caller fiber waits inside a try/finally of its own; caller: the n handlers belong to a WAITING
    fiber (the statement inside them calls a fiber that fails), they are never run and stay with the dead fiber"""
    fail = SCALE_FAILS[kind] if where != "caller" else "Fiber.new(|| { %s }).call();" % SCALE_FAILS[kind]
    inner = "if boom { %s }" % fail
    for i in range(n):
        inner = ("try { %s } catch e { h = h + 1; throw e; }" if i % 3 == 2 else "try { %s } finally { h = h + 1; }") % inner
    nfin = len([i for i in range(n) if i % 3 != 2])
    setup = "var h = 0; %s fn deep(boom) { %s return 1; }" % (SCALE_OVER, inner)
    run = {"top": "deep(%s);", "fiber": "Fiber.new(|| { deep(%s); }).call();", "caller": "Fiber.new(|| { deep(%s); }).call();",
           "callee": "Fiber.new(|| { try { Fiber.new(|| { deep(%s); }).call(); } finally { h = h + 1000; } }).call();"}[where]
    probes = ["h = 0; " + (run % "false") + " print(h %% 1000 - %d);" % nfin, AFTER_PROBE]
    return {"a": [setup, run % "true"] + probes, "b": [setup, run % "false"] + probes, "k": 1, "np": len(probes)}


def sc_modules(n, kind, where):
    """n + 1 modules in the middle of their import when the innermost body fails (kind throw / builtin: not ready; cycle: it imports the
    outermost again).  where = direct: nested imports (frames); fiber: every body imports the next one inside a fiber (the loading
    modules are spread over a chain of n waiting fibers); wide: n imports that failed and were CAUGHT + one uncaught (n + 1 stale entries)"""
    tag = "%s%d%s" % (where[0], n, kind[0])
    flag, nm = "sf" + tag, lambda k: "sm%s_%d" % (tag, k)
    mods = {flag: "var ready = false;\nvar count = 0;\n"}
    inner_fail = {"throw": "throw \"not ready\";", "builtin": "nil.foo;", "cycle": "import \"%s\" as again;" % nm(0)}[kind]
    head = "import \"%s\" as flag;\nflag.count = flag.count + 1;\n" % flag
    if where == "wide":
        for k in range(n + 1):
            mods[nm(k)] = head + "if !flag.ready { %s }\nvar v = %d;\n" % (inner_fail if kind != "cycle" else "throw 3;", k)
        fail = " ".join("try { import \"%s\" as w%d; } catch e { }" % (nm(k), k) for k in range(n)) + " import \"%s\" as wl;" % nm(n)
        probes = ["var sum = 0; " + " ".join("import \"%s\" as w%d; sum = sum + w%d.v;" % (nm(k), k, k) for k in range(n + 1)) +
                  " print(sum - %d); print(flag.count - %d);" % (n * (n + 1) // 2, n + 1),
                  "import \"%s\" as again0; print(again0 == w0); import \"%s\" as againl; print(againl == w%d); print(flag.count - %d);" % (nm(0), nm(n), n, n + 1)]
    else:
        for k in range(n):
            imp = "import \"%s\" as nx;\n" % nm(k + 1) if where == "direct" else "var nx = Fiber.new(|| { import \"%s\" as m; return m; }).call();\n" % nm(k + 1)
            mods[nm(k)] = head + imp + "var v = nx.v + 1;\n"
        mods[nm(n)] = head + "if !flag.ready { %s }\nvar v = 0;\n" % inner_fail
        fail = "import \"%s\" as c0;" % nm(0)
        probes = ["import \"%s\" as c; print(c.v - %d); print(flag.count - %d);" % (nm(0), n, n + 1),
                  "import \"%s\" as c2; print(c2 == c); import \"%s\" as last; print(last.v); print(c.nx.v - c.v); print(flag.count - %d);" % (nm(0), nm(n), n + 1)]
    probes += ["import \"good\" as mg2; print(mg2.v);", AFTER_PROBE]
    first = "import \"%s\" as flag;" % flag
    ready = "flag.ready = true; flag.count = 0;"
    return {"a": [first, fail, ready] + probes, "b": [first, ready] + probes, "k": 1, "np": len(probes), "mods": mods}


def sc_reset(n, kind, where):
    """RESET after n definitions of every kind (+ a failed run at scale): vs RESET on a new interpreter, names, modules, chunks"""
    mods = {"sr%d_%d" % (n, k): "var v = %d;\n" % k for k in range(n)}
    pre = [" ".join("var g%d = %d; fn f%d() { return g%d; } class K%d {} import \"sr%d_%d\" as m%d;" % (k, k, k, k, k, n, k, k) for k in range(n))]
    if kind != "none":
        c = sc_chain(n, kind, where)
        pre += c["a"][:3]
    names = ["g%d" % k for k in range(n)] + ["f%d" % k for k in range(n)] + ["K%d" % k for k in range(n)] + ["m%d" % k for k in range(n)] + ["fibers", "cls", "make", "print", "Fiber"]
    probes = ["NAMES:" + ",".join(hx(x) for x in names), "print(g0);", "print(f%d());" % (n - 1), "print(K%d);" % (n // 2),
              "import \"sr%d_%d\" as again; print(again.v);" % (n, n - 1), "print(fibers);", AFTER_PROBE]
    return {"a": pre + ["RESET"] + probes, "b": ["RESET"] + probes, "k": None, "np": len(probes), "mods": mods, "cs": True}


# family -> (constructor, kinds, places, sizes).  Sizes: 2, the frame limit 64 and its neighbours, far beyond; for frames the
# deepest recursion that fits (63 calls at top level, 62 in a fiber) and one less; 250 = just under the limit of locals per function
SCALE_FAMILIES = {
    "waiting_fibers": (sc_chain, ["throw", "builtin", "import", "overflow", "undeclared", "class"], ["fresh", "parked"], [2, 63, 64, 65, 66, 130]),
    "frames": (sc_frames, ["throw", "builtin", "overflow", "undeclared"], ["top", "fiber", "caller"], [2, 31, 61, 62, 63]),
    "open_upvalues_one_frame": (sc_locals, ["throw", "builtin", "overflow"], ["top", "fiber", "caller"], [2, 63, 64, 65, 66, 130, 250]),
    "handlers": (sc_handlers, ["throw", "builtin", "overflow", "import"], ["top", "caller", "fiber", "callee"], [2, 63, 64, 65, 66, 130]),
    "modules_mid_import": (sc_modules, ["throw", "builtin", "cycle"], ["fiber", "direct", "wide"], [2, 30, 63, 64, 65, 66, 130]),
    "reset": (sc_reset, ["none", "throw", "builtin"], ["fresh", "parked"], [2, 63, 64, 65, 66, 130]),
}


def scale_cases(quick, rot, profile="release"):
    res = []
    for fam, (fn, kinds, places, sizes) in SCALE_FAMILIES.items():
        if profile == "debug" and fam in ("reset", "modules_mid_import"):
            # 130 modules take 7 - 20 s per history on the debug build (it collects at every allocation) on an idle machine: too close
            # to the case time-out under load; the release build runs them
            sizes = [n for n in sizes if n <= 66]
        if quick and profile == "debug":
            # the debug build is ~50x slower: the smallest and the largest size, the first size beyond the frame limit, the deepest
            # recursion that fits, and one of the remaining sizes (rotating with the seed); the release build runs every size
            rest = [n for n in sizes[1:-1] if n not in (65, 62)]
            sizes = sorted(set([sizes[0], sizes[-1]] + [n for n in sizes if n in (65, 62)] + ([rest[rot % len(rest)]] if rest else [])))
        combos = [(k, p) for k in kinds for p in places]
        if quick:
            # the first (kind, place) + two more that rotate with the seed
            combos = [combos[0]] + [combos[1 + (rot + j * 5) % (len(combos) - 1)] for j in range(2)]
        for kind, place in dict.fromkeys(combos):
            for n in sizes:
                if fam == "frames" and n > (63 if place == "top" else 62):
                    continue
                if fam == "modules_mid_import" and place == "direct" and n > 30:
                    continue
                c = fn(n, kind, place)
                c.update(label="%s/%s/%s/n=%d" % (fam, kind, place, n), group=(fam, kind, place), n=n)
                res.append(c)
    return res


def scale_items(binary, hist, mods_items, mods):
    xm = mods_items + "".join(" %s=%s" % (hx(n), hx(s)) for n, s in (mods or {}).items())
    return "replmods - %s %s" % (xm, " ".join(x if x in ("RESET", "FRESH") or x.startswith("NAMES:") else hx(x) for x in hist))


def scale_obs(r, cs):
    s = strip_loads([fmt_full(r)])[0]
    if "names" in r:
        s += ";names=" + ",".join(k for k, v in sorted(r["names"].items()) if v == "1")
    if cs:
        d = dict(kv.split("=") for kv in (r["cs"] or "").split(" ") if "=" in kv)
        s += ";modules=%s;chunks_over_core=%s" % (d.get("modules"), int(d.get("chunks", 0)) - int(d.get("core_chunks", 0)) if d else None)
    return s


def scale_check(ctx, binary, profile, mods_items, only=None):
    """returns (histories run, cases whose failing run failed as intended)"""
    if only is not None:
        pairs = [dict(only, label="replay")]   # keeps a / b / k / np / mods / why
    else:
        quick = ctx.quick() if hasattr(ctx, "quick") else True
        cases = scale_cases(quick, ctx.rng.randrange(1000) if hasattr(ctx, "rng") else 0, profile)
        pairs = [dict(c, why="completed") for c in cases]
        smallest = {}
        for c in cases:
            if c["group"] not in smallest or c["n"] < smallest[c["group"]]["n"]:
                smallest[c["group"]] = c
        for c in cases:
            s = smallest[c["group"]]
            if s is not c and not c.get("cs"):
                pairs.append({"label": c["label"] + " vs n=%d" % s["n"], "a": c["a"], "b": s["a"], "k": c["k"], "np": c["np"], "mods": c.get("mods"),
                              "mods_b": s.get("mods"), "why": "scale"})
    lines = {}
    for p in pairs:
        for h, m in ((p["a"], p.get("mods")), (p["b"], p.get("mods_b", p.get("mods")))):
            lines.setdefault(scale_items(binary, h, mods_items, m), None)
    keys = list(lines)
    for k, rec in zip(keys, harness(binary, keys, case_timeout_ms=20000)):
        lines[k] = impl_records(rec)
    n = nfail = 0
    bad = []
    for p in pairs:
        a = lines[scale_items(binary, p["a"], mods_items, p.get("mods"))]
        b = lines[scale_items(binary, p["b"], mods_items, p.get("mods_b", p.get("mods")))]
        n += 1
        k, np_ = p["k"], p["np"]
        if p.get("why") != "scale":
            # the run that has to fail failed, the one that has to complete completed (else: a note, nothing to compare)
            if k is not None and (len(a) <= k or not (a[k]["res"] or "").startswith("err")):
                note = "scale family: %s did not fail on this tree" % p["label"]
                if only is None and note not in ctx.notes:
                    ctx.notes.append(note)
                continue
            if k is not None and p.get("why") == "completed" and (len(b) <= k or any(r["res"] != "ok" for r in b[:k + 1])):
                note = "scale family: the reference of %s did not complete on this tree" % p["label"]
                if only is None and note not in ctx.notes:
                    ctx.notes.append(note)
                continue
        nfail += 1
        got = [scale_obs(r, p.get("cs")) for r in a[len(p["a"]) - np_:]] if len(a) >= len(p["a"]) - np_ else []
        want = [scale_obs(r, p.get("cs")) for r in b[len(p["b"]) - np_:]]
        if p.get("why") == "scale" and k is not None:
            # the failing run itself ends the same way at every size (names / sizes inside the message aside)
            import re
            how = lambda l: re.sub(r"[0-9]+", "#", "%s:%s" % (l[k]["res"], unmsg(l[k]["msgs"][0]) if l[k]["msgs"] else "")) if len(l) > k else "no record (crash or time-out)"
            if how(a) != how(b):
                bad.append((True, p.get("n", 0), dict(
                    what="a run that fails at the smallest size ends differently at a larger size (%s) [%s build]" % (p["label"], profile),
                    input=p["a"][:k + 1] if len(str(p["a"][:k + 1])) < 6000 else "(see the replay file)", profile=profile, expected=how(b), actual=how(a),
                    raw_scale={"a": p["a"], "b": p["b"], "k": k, "np": np_, "mods": p.get("mods"), "mods_b": p.get("mods_b", p.get("mods")), "cs": False, "why": "scale"})))
                continue
        if got != want or len(want) != np_:
            first = next((i for i in range(min(len(got), len(want))) if got[i] != want[i]), min(len(got), len(want)))
            what = {"completed": "after a run that failed with MANY fibers / frames / open upvalues / handlers / modules to clean up (%s) later snippets behave differently than after the same run completing normally [%s build]",
                    "scale": "a failed run behaves differently at a larger size than at the smallest one (%s): its clean-up stops early [%s build]"}.get(p.get("why"), "replayed scale history (%s) [%s build]")
            if p.get("cs"):
                what = "after RESET following definitions at scale (%s) the interpreter differs from a new one that was reset [%s build]"
            dec = lambda l: [readable(x.split(";msgs=")[0]) + (";" + x.split(";", 4)[-1] if ";names=" in x or ";modules=" in x else "") for x in l]
            msgs = lambda l: [[unmsg(m) for m in x.split(";msgs=")[1].split(";")[0].split(",") if m] for x in l]
            bad.append((p.get("why") != "completed", p.get("n", 0), dict(
                what=what % (p["label"], profile), input=p["a"][:len(p["a"]) - np_ + first + 1] if len(str(p["a"])) < 6000 else "(see the replay file)",
                first_differing_probe=(p["a"][len(p["a"]) - np_:] + [None])[first],
                raw_scale={"a": p["a"], "b": p["b"], "k": k, "np": np_, "mods": p.get("mods"), "mods_b": p.get("mods_b", p.get("mods")), "cs": p.get("cs", False), "why": p.get("why")},
                profile=profile, expected=dec(want), actual=dec(got), expected_messages=msgs(want), actual_messages=msgs(got))))
    # smallest failing size first, the "completed definitions" oracle before the scale-independence one
    bad.sort(key=lambda t: (t[0], t[1]))
    for _, _, v in bad[:6]:
        ctx.violation(v.pop("what"), **v)
    return len(keys), nfail


# ---- import x escaping object x failed run x retry (round 9) ----
# A module body defines globals, lets an object that USES them escape (closure / named fn / bound method / instance / class; stored
# into another module's global or vec, handed to a callback of main, thrown as the error value, yielded from a fiber) and then fails
# uncaught (throw / built-in error / nested failing import / circular import).  Later snippets re-import the module (the retry fails
# earlier / at the same place / later / succeeds; directly or through a wrapper module) and use the escaped object, in both orders.
# Oracle by construction: every value the object prints names the ATTEMPT that created it and a counter kept in that attempt's
# globals: the k-th use prints "hello from em #1/<100 + k>" whatever happened in between.  The retry's own outcome is not judged.
ESC_STATE = "var loads = 0; var mode = 0; var hook = nil; var box = []; var cb = nil;\n"
ESC_BAD = "throw \"ebad: broken\";\n"
ESC_WRAP = "import \"em\" as m;\nvar wtag = \"wrap complete\";\n"
ESC_KINDS = [("closure", "lam", "print(%s());"), ("named_fn", "named", "print(%s());"), ("bound_method", "inst.m", "print(%s());"),
             ("instance", "inst", "print(%s.m());"), ("class", "K", "print(%s.new().m());")]
ESC_WAYS = [("throw", "throw \"em: broken\";"), ("builtin_error", "nil.foo;"), ("nested_failing_import", "import \"ebad\" as eb;"),
            ("circular_import", "import \"em\" as me;")]
ESC_ROUTES = [("other_module_global", "if st.hook == nil { st.hook = obj; }", "st.hook"), ("other_module_vec", "st.box.push(obj);", "st.box[0]"),
              ("callback_into_main", "st.cb(obj);", "saved"), ("thrown", None, "saved"), ("yielded", "Fiber.yield(obj);", "saved")]
ESC_MODES = [(0, "fails_same_place"), (1, "fails_earlier"), (2, "fails_later"), (3, "succeeds")]
ESC_PLACES = [("top", "%s"), ("nested_call", "(|| { %s })();"), ("fiber", "Fiber.new(|| { %s }).call();"),
              ("try_finally", "try { %s } finally { print(\"fin\"); }")]
ESC_SETUP = "import \"est\" as st; var saved = nil; st.cb = |x| { if saved == nil { saved = x; } };"


def esc_module(kind_expr, route_stmt, way_stmt):
    fail = way_stmt if route_stmt is not None else "throw obj;"
    return ("import \"est\" as st;\nst.loads = st.loads + 1;\nvar attempt = st.loads;\n"
            "if attempt > 1 && st.mode == 1 { throw \"em: early\"; }\n"
            "var greeting = \"hello from em #\" + String.from(attempt);\nvar count = 100 * attempt;\n"
            "fn bump() { count = count + 1; return count; }\n"
            "#[constructor(new)] class K { fn m(self) { return greeting + \"/\" + String.from(bump()); } }\n"
            "fn named() { return greeting + \"/\" + String.from(bump()); }\nvar inst = K.new();\n"
            "var lam = || { return greeting + \"/\" + String.from(bump()); };\n"
            "var obj = %s;\n%s\n"
            "if attempt > 1 && st.mode == 2 { var late = 5; throw \"em: late\"; }\n"
            "if !(attempt > 1 && st.mode == 3) { %s }\n"
            "var tag = \"em complete #\" + String.from(attempt);\n" % (kind_expr, route_stmt or "", fail))


def esc_cases(quick, rot, profile):
    res = []
    i = 0
    for rn, rstmt, acc in ESC_ROUTES:
        vias = ["direct"] if rn in ("thrown", "yielded") else ["direct", "wrapper"]
        ways = ESC_WAYS if rstmt is not None else [("throws_the_object", None)]
        for via in vias:
            for wn, wstmt in ways:
                for kn, kexpr, puse in ESC_KINDS:
                    for mode, mn in ESC_MODES:
                        for order in ("use_first", "retry_first"):
                            i += 1
                            # the debug build is ~50x slower: a slice rotating with the seed (every route/way/kind/mode is hit)
                            if profile == "debug" and (i + rot) % (11 if quick else 3) != 0:
                                continue
                            imp = "ewrap" if via == "wrapper" else "em"
                            place = ""
                            if rn == "thrown":
                                fail = "try { import \"em\" as m; } catch e { if saved == nil { saved = e; } } throw \"main: gives up\";"
                                retry = "import \"em\" as m2; print(m2.tag);"
                            elif rn == "yielded":
                                fail = "var fb = Fiber.new(|| { import \"em\" as m; return 0; }); saved = fb.call(); fb.call();"
                                retry = "var fb2 = Fiber.new(|| { import \"em\" as m2; print(m2.tag); return 0; }); fb2.call(); fb2.call();"
                            else:
                                # where the failing import / the retry stands rotates (every place meets every route, way and kind)
                                fp, rp = ESC_PLACES[i % len(ESC_PLACES)], ESC_PLACES[(i // 3) % len(ESC_PLACES)]
                                place = "/import_%s/retry_%s" % (fp[0], rp[0])
                                fail = fp[1] % ("import \"%s\" as m;" % imp)
                                retry = rp[1] % ("import \"%s\" as m2; print(\"retried\");" % imp)
                            probe = puse % acc
                            setm = "st.mode = %d;" % mode
                            if order == "use_first":
                                h = [ESC_SETUP, fail, probe, setm, retry, probe, retry, probe]
                            else:
                                h = [ESC_SETUP, fail, setm, retry, probe, probe]
                            mods = {"est": ESC_STATE, "ebad": ESC_BAD, "ewrap": ESC_WRAP, "em": esc_module(kexpr, rstmt, wstmt)}
                            res.append({"label": "%s/%s/%s/%s/retry_%s/%s%s" % (rn, via, wn, kn, mn, order, place), "h": h, "mods": mods,
                                        "probe": probe, "fail": 1})
    return res


ESC_STATS = {}


def escape_check(ctx, binary, profile, mods_items, only=None):
    """the k-th use of an object that escaped from a module body that then failed prints the values of the attempt that made it"""
    quick = ctx.quick() if hasattr(ctx, "quick") else True
    cases = [dict(only, label="replay")] if only is not None else esc_cases(quick, ctx.rng.randrange(1000) if hasattr(ctx, "rng") else 0, profile)
    recs = harness(binary, [scale_items(binary, c["h"], mods_items, c["mods"]) for c in cases])
    n = judged = 0
    retry_outcomes = {}
    for c, rec in zip(cases, recs):
        n += 1
        a = impl_records(rec)
        if len(a) <= c["fail"] or not (a[c["fail"]]["res"] or "").startswith("err"):
            note = "escape family: the import in %r did not fail on this tree" % c["label"]
            if only is None and note not in ctx.notes:
                ctx.notes.append(note)
            continue
        judged += 1
        k = 0
        want, got = [], []
        for j, src in enumerate(c["h"]):
            if src != c["probe"]:
                if j > c["fail"] and j < len(a) and "import" in src:
                    key = (a[j]["res"] or "none").split(":")[0]
                    retry_outcomes[key] = retry_outcomes.get(key, 0) + 1
                continue
            k += 1
            want.append("out=%s;res=ok" % hx("hello from em #1/%d" % (100 + k)))
            got.append(";".join(fmt_obs(a[j]).split(";")[:2]) if j < len(a) else "missing")
        if got != want:
            ctx.violation("an object that escaped from a module body which then failed uncaught (%s) no longer sees the definitions that "
                          "attempt completed: a later snippet (the retry of the import) disturbed them [%s build]" % (c["label"], profile),
                          input=c["h"], raw_escape={"h": c["h"], "mods": c["mods"], "probe": c["probe"], "fail": c["fail"]},
                          modules=c["mods"], profile=profile, expected=[readable(x) for x in want], actual=[readable(x) for x in got],
                          all_snippets=[readable(fmt_obs(r)) for r in a])
    ESC_STATS[profile] = {"histories": n, "judged": judged, "retry_outcomes": retry_outcomes}
    return n



DIRTY_STATS = {}
SCALE_STATS = {}


def directed_families(ctx, bins, mods_items):
    """the cheap directed oracles on the implementation alone (both builds); returns the number of harness histories"""
    n = nf = 0
    for profile, binary in bins.items():
        n += escape_check(ctx, binary, profile, mods_items)
        phase("  escape (%s)" % profile)
        a, b = sidefx_check(ctx, binary, profile, mods_items)
        n += 2 * a
        nf += b
        n += residue_check(ctx, binary, profile, mods_items)
        n += reset_check(ctx, binary, profile, mods_items)
        n += module_check(ctx, binary, profile, mods_items)
        phase("  sidefx/residue/reset/module (%s)" % profile)
        a, b, c = dirty_ok_check(ctx, binary, profile, mods_items)
        phase("  dirty_ok (%s)" % profile)
        n += a
        DIRTY_STATS[profile] = {"histories": a, "prefix_ended_ok": b, "distinct_prefixes_leaving_flag_set": c}
        n += 2 * split_check(ctx, binary, profile, mods_items)
        a, b = scale_check(ctx, binary, profile, mods_items)
        phase("  scale (%s)" % profile)
        n += a
        SCALE_STATS[profile] = {"histories": a, "pairs_compared": b}
    return n, nf


def nontrivial(h, m, irs):
    """>= 1 failing snippet followed by >= 1 snippet that uses a definition made BEFORE the failure and by a construct of the
    same kind as the one that failed (measured on the implementation's own outcomes)"""
    for k, s in enumerate(h):
        if not is_failing(s) or k >= len(irs) or not (irs[k]["res"] or "").startswith("err"):
            continue
        fam = family(s)
        defined = set()
        for p in h[:k]:
            if p == SN_RESET:
                defined = set()
            elif p[0] == 0:
                defined.add(("g", p[1]))
            elif p[0] == 2:
                defined.add(("f", p[1]))
            elif p[0] == 4:
                defined.add(("C", p[1]))
            elif p == (14, 0):
                defined.add(("m", 0))
            elif p == SN_CAPOK:
                defined.add(("c",))
        uses_def = same = False
        for j in range(k + 1, min(len(h), len(irs))):
            q = h[j]
            if q == SN_RESET:
                break
            ok = irs[j]["res"] == "ok"
            if ok and ((q[0] == 1 and ("g", q[1]) in defined) or (q[0] == 3 and ("f", q[1]) in defined) or
                       (q[0] == 5 and ("C", q[1]) in defined) or (q == (15, 0) and ("m", 0) in defined) or
                       (q == SN_USELEAK and ("c",) in defined)):
                uses_def = True
            if same_kind(fam, q):
                same = True
        if uses_def and same:
            return True
    return False


def shrink(h, fails, budget=30):
    cur = list(h)
    i = 0
    while i < len(cur) and budget > 0 and len(cur) > 1:
        cand = cur[:i] + cur[i + 1:]
        budget -= 1
        if fails(cand):
            cur = cand
        else:
            i += 1
    return cur


T0 = [0.0]


def phase(name):
    import time
    now = time.time()
    if T0[0]:
        log("[C15] %-28s %6.1fs" % (name, now - T0[0]))
    T0[0] = now


def run(ctx):
    quick = ctx.quick()
    phase("start")
    rng = ctx.rng
    pool = all_snippets()
    bins = {"debug": ctx.harness("debug"), "release": ctx.harness("release")}
    core = core_chunks(bins["debug"])
    if core is None:
        # not even `var q = 1;` runs on a new Vm and yields an H5 record
        rec = yvlib.run_harness(bins["debug"], ["replmods - " + hx("var q = 1;") + " " + hx("print(q);")], shards=1, quarantine=True)[0]
        ctx.violation("the first snippets on a new interpreter do not run", input=["var q = 1;", "print(q);"],
                      expected=["ok", "ok, prints 1"], actual=[str(rec.result), rec.output, rec.crashed])
        return
    if not load_msg_table():
        ctx.corr_broken.append("ReuseSpec.show_msg_table could not be evaluated")
        return
    if ctx.replay_only and "raw" in ctx.replay_only:
        mods_items = " ".join("%s=%s" % (hx(n), hx(s)) for n, s in zip(["good", "bad", "syn", "nest"], MOD_SRC))
        sidefx_check(ctx, bins[ctx.replay_only.get("profile", "debug")], ctx.replay_only.get("profile", "debug"), mods_items,
                     only=ctx.replay_only["raw"])
        ctx.cov.update({"evaluations": 2, "distinct_nontrivial": 1, "rule": "replay of one raw side-effect history", "samples": [ctx.replay_only["raw"]]})
        return
    for key, fn in (("raw_reset", reset_check), ("raw_modules", module_check), ("raw_dirty", dirty_ok_check), ("raw_split", split_check),
                    ("raw_scale", scale_check), ("raw_escape", escape_check)):
        if ctx.replay_only and key in ctx.replay_only:
            mods_items = " ".join("%s=%s" % (hx(n), hx(s)) for n, s in zip(["good", "bad", "syn", "nest"], MOD_SRC))
            load_msg_table()
            prof = ctx.replay_only.get("profile", "debug")
            fn(ctx, bins[prof], prof, mods_items, only=ctx.replay_only[key])
            ctx.cov.update({"evaluations": 2, "distinct_nontrivial": 1, "rule": "replay of one directed history (%s)" % key, "samples": [ctx.replay_only[key]]})
            return
    if ctx.replay_only and "raw_residue" in ctx.replay_only:
        mods_items = " ".join("%s=%s" % (hx(n), hx(s)) for n, s in zip(["good", "bad", "syn", "nest"], MOD_SRC))
        load_msg_table()
        residue_check(ctx, bins[ctx.replay_only.get("profile", "debug")], ctx.replay_only.get("profile", "debug"), mods_items,
                      only=ctx.replay_only["raw_residue"])
        ctx.cov.update({"evaluations": 2, "distinct_nontrivial": 1, "rule": "replay of one raw residue history", "samples": [ctx.replay_only["raw_residue"]]})
        return
    if ctx.replay_only:
        hists = [[tuple(int(x) for x in g.split(" ")) for g in ctx.replay_only["wire"].split(";")]]
    else:
        fails = [s for s in pool if is_failing(s)]
        # exhaustive: every failing snippet followed by every snippet, after a fixed block of definitions
        pre = [sn_var(0, 5), sn_fn(0, 0), sn_class(0, 7), sn_import(0)]
        hists = [pre + [f, p, sn_call(0), sn_use(0), sn_usemod(0)] for f in fails for p in pool if not quick or f[0] != 7 or len(f) == 2]
        if not quick:
            hists += [[f, p] for f in fails for p in pool]
        # every (successful run that leaves the flag set, any snippet) pair; and with a failing / non-running snippet in between
        readers = [SN_TRYFIN, SN_TRYCATCH, sn_throw(5), sn_throw(7), sn_throw(8), sn_throw(12), SN_FIBEROK]
        hists += [pre + [d, p, sn_call(0), sn_use(0), sn_usemod(0)] for d in DIRTY_OK for p in pool]
        between = [SN_RESET, sn_syntax(False), sn_syntax(True), sn_throw(0), sn_throw(4), sn_throw(9), sn_import(1)] + DIRTY_OK
        if not quick:
            hists += [[d, p] for d in DIRTY_OK for p in pool]
            between = [f for f in fails if len(f) <= 2] + DIRTY_OK + [SN_RESET]
        hists += [[d, f, r] for d in DIRTY_OK for f in between for r in readers]
        corpus_dir = os.path.join(yvlib.VERIF, "corpus", "C15")
        if os.path.isdir(corpus_dir):
            import json
            for fn in sorted(os.listdir(corpus_dir)):
                with open(os.path.join(corpus_dir, fn)) as fh:
                    hists.append([tuple(int(x) for x in g.split(" ")) for g in json.load(fh)["wire"].split(";")])
        hists += [gen_history(rng, pool, 8) for _ in range(400 if quick else 8000)]
        if getattr(ctx, "_search", False):
            # bounded search: the systematic part was run already; only new random histories (the rng has moved on)
            hists = [gen_history(rng, pool, 8) for _ in range(2500)]
    phase("setup")
    models = coq_cases(hists, core, "hist")
    phase("coq models (%d histories)" % len(hists))
    mods_items = next((m for m in models if m), None)
    if mods_items is None:
        ctx.corr_broken.append("coq_eval produced no model result")
        return
    mods_items = " ".join("%s=%s" % (hx(n), hx(s)) for n, s in zip(["good", "bad", "syn", "nest"], MOD_SRC))
    # the module sources used here are the ones ReplLang.render_mods states
    rm = yvlib.coq_eval(["YV:ReplLang"], ["render_mods"], tag="C15mods", preamble=PRE)[0]
    if rm != mods_items:
        ctx.corr_broken.append("module sources of tools/props/C15.py differ from ReplLang.render_mods")
    nontriv = set()
    meta = fresh = ref = 0
    impl_by_profile = {}
    sfx = sfx_failing = 0
    if not ctx.replay_only and not getattr(ctx, "_directed_done", False):
        sfx, sfx_failing = directed_families(ctx, bins, mods_items)
        ctx._directed_done = True
        phase("directed families")
    for profile, binary in bins.items():
        impl = check_histories(ctx, hists, binary, profile, core, mods_items, models)
        impl_by_profile[profile] = impl
        phase("histories on impl (%s)" % profile)
        for h, m, irs in zip(hists, models, impl):
            if m and irs and nontrivial(h, m, irs):
                nontriv.add(wire(h))
        meta += metamorphic(ctx, hists, models, impl, binary, profile, mods_items, 400 if quick else 6000)
        fresh += reset_vs_fresh(ctx, hists, models, impl, binary, profile, mods_items, 200 if quick else 3000)
        phase("metamorphic + reset (%s)" % profile)
    # dev and release agree with each other snippet by snippet (the removed debug_assert only mattered in dev)
    for h, m, a, b in zip(hists, models, impl_by_profile["debug"], impl_by_profile["release"]):
        if a and b and [fmt_mech(r) for r in a] != [fmt_mech(r) for r in b]:
            ctx.violation("debug and release builds behave differently on a history", input=describe(h, m) if m else wire(h), wire=wire(h),
                          expected=[readable(fmt_mech(r)) for r in a], actual=[readable(fmt_mech(r)) for r in b])
            break
    if not ctx.replay_only and not getattr(ctx, "_search", False):
        # `return` / Fiber.yield inside a finally block entered by a throw is inside C08's open classes as far as the SINGLE run is
        # concerned (what the language says such a run does is C08's business): those histories are not given to the reference interpreter
        sample = [i for i in range(len(hists)) if models[i] and impl_by_profile["debug"][i] and not any(s in DIRTY_OK for s in hists[i])]
        rng.shuffle(sample)
        sample = sample[:(24 if quick else 300)]
        ref = reference_interpreter(ctx, [hists[i] for i in sample], [models[i] for i in sample],
                                    [impl_by_profile["debug"][i] for i in sample], len(sample))
    phase("reference interpreter")
    # shrink the first NEW violation (one that is not attributed to a known class)
    fresh_v = [v for v in ctx.violations if not v.get("known_class") and "wire" in v and "Spec" in v["what"]]
    if fresh_v and not ctx.replay_only:
        v = fresh_v[0]
        h0 = [tuple(int(x) for x in g.split(" ")) for g in v["wire"].split(";")]
        binary = bins[v.get("profile", "debug")]

        def fails(h):
            m = coq_cases([h], core, "shrink")[0]
            if m is None:
                return False
            irs = impl_records(run_impl(binary, [m["items"]], mods_items)[0])
            for i in range(min(len(h), len(irs))):
                if fmt_obs(irs[i]) != m["spec"][i] and m["known"][i] == "-":
                    return True
                if ended(irs[i]):
                    break
            return False
        small = shrink(h0, fails)
        m = coq_cases([small], core, "shrink")[0]
        if m:
            irs = impl_records(run_impl(binary, [m["items"]], mods_items)[0])
            v.update({"wire": wire(small), "input": describe(small, m), "expected": [readable(x) for x in m["spec"]],
                      "actual": [readable(fmt_obs(r)) for r in irs]})
            v.pop("snippet", None)
    # report: known-class violations collapse to one per class; new ones first
    seen = set()
    keep = []
    for v in ctx.violations:
        k = v.get("known_class")
        if k:
            if k in seen:
                continue
            seen.add(k)
        keep.append(v)
    new = [v for v in keep if not v.get("known_class")]
    ctx.violations[:] = new[:5] + [v for v in keep if v.get("known_class")]
    # keep the correspondence report short
    if len(ctx.corr_broken) > 6:
        n = len(ctx.corr_broken)
        ctx.corr_broken[:] = ctx.corr_broken[:6] + ["... %d more impl != M mismatches" % (n - 6)]
    kinds = {}
    for h in hists:
        for s in h:
            key = {0: "var", 1: "print", 2: "fn", 3: "call", 4: "class", 5: "use_class", 6: "compile_error", 8: "try_finally_ok",
                   9: "try_catch_ok", 10: "fiber_ok", 11: "capture_ok", 12: "range", 13: "use_closure", 16: "RESET", 17: "use_fiber", 18: "probe_undeclared_global",
                   19: "ok_run_leaves_flag:finally_returns", 20: "ok_run_leaves_flag:fiber_parks_in_finally"}.get(s[0])
            if s[0] == 7:
                key = "uncaught:" + W_NAMES[s[1]]
            elif s[0] == 14:
                key = "import:" + MODS[s[1]]
            elif s[0] == 15:
                key = "use_module"
            kinds[key] = kinds.get(key, 0) + 1
    nsn = sum(len(h) for h in hists)
    m0 = next(m for m in models if m)
    ctx.cov.update({
        "evaluations": len(hists) * 2 + meta + fresh + ref + sfx,
        "side_effect_histories": sfx, "side_effect_histories_failing_as_intended": sfx_failing,
        "side_effect_kinds": [c[0] for c in SIDEFX],
        "residue_failing_kinds": [c[0] for c in RESIDUE_FAILS], "residue_probes": [c[0] for c in RESIDUE_PROBES],
        "ok_runs_leaving_state": dict(DIRTY_STATS), "ok_runs_leaving_state_kinds": [c[0] for c in DIRTY_FLAG_CORES] + [c[0] for c in DIRTY_OTHER],
        "ok_runs_leaving_state_probes": [c[0] for c in RESIDUE_PROBES + DIRTY_PROBES], "split_cases": [c[0] for c in SPLIT_CASES],
        "scale_families": {k: {"kinds": v[1], "places": v[2], "sizes": v[3]} for k, v in SCALE_FAMILIES.items()}, "scale_runs": dict(SCALE_STATS),
        "escape_family": {"routes": [r[0] for r in ESC_ROUTES], "kinds": [k[0] for k in ESC_KINDS], "ways": [w[0] for w in ESC_WAYS],
                          "retries": [m[1] for m in ESC_MODES], "runs": dict(ESC_STATS)},
        "distinct_nontrivial": len(nontriv),
        "rule": "histories of <= 9 snippets of the mini-language ReplLang.v (definitions, uses, compile errors, uncaught errors from 18 places, "
                "try/finally and fibers that complete, imports of a good/throwing/missing/uncompilable/nested module, RESET): every "
                "(failing snippet, any snippet) pair alone and after a block of definitions, plus random histories in 6 styles; each history "
                "runs on ONE Vm in the debug and the release build. non-trivial = the history contains a snippet that fails ON THE "
                "IMPLEMENTATION, followed (before any RESET) by a snippet that successfully uses a definition made before the failure AND by a "
                "construct of the same kind as the failed one (try/finally family, class, import, call, fiber, closure); distinct wire strings counted",
        "samples": [describe(hists[-1], models[-1]) if models[-1] else wire(hists[-1]), describe(hists[0], m0) if models[0] else wire(hists[0])],
        "histories": len(hists), "snippets": nsn, "snippet_kinds": kinds, "core_chunks": core,
        "traces_validated_against_impl": len(hists) * 2,
        "metamorphic_replacements": meta, "reset_vs_fresh_vm": fresh, "reference_interpreter_histories": ref,
        "builds": sorted(bins), "harness_cases_rerun_after_crash_or_timeout": dict(RETRIES),
    })


def search(ctx):
    """obligations broken and nothing found: the directed families first (cheap, both builds, stop at the first violations); only
    if they find nothing, a BOUNDED number of further random histories against the Spec"""
    bins = {"debug": ctx.harness("debug"), "release": ctx.harness("release")}
    mods_items = " ".join("%s=%s" % (hx(n), hx(s)) for n, s in zip(["good", "bad", "syn", "nest"], MOD_SRC))
    if not getattr(ctx, "_directed_done", False) and load_msg_table():
        directed_families(ctx, bins, mods_items)
        if ctx.violations:
            ctx.violations[:] = ctx.violations[:5]
            return
    # bounded: 2500 further random histories in the quick configuration (about a minute), never the thorough tier
    ctx._directed_done = True
    ctx._search = True
    keep_b, keep_c = list(ctx.broken), list(ctx.corr_broken)
    try:
        run(ctx)
    finally:
        ctx._search = False
        ctx.broken[:] = keep_b + [b for b in ctx.broken if b not in keep_b]
        ctx.corr_broken[:] = keep_c + [c for c in ctx.corr_broken if c not in keep_c]
