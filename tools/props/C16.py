"""C16 - garbage is reclaimed: heap size is bounded by live data.

Theorems (coq/props/C16.v): pacing_bound (+ _nth, from any state satisfying the invariant), replay_sound (a log
that replays through Pacing.v satisfies the bound), stress_collects_every_time, bytes_is_live_sum,
collect_only_reach / collect_exact / freed_exact (tables HeapTablesRef), num_roots_exact / last_drop_zero /
zero_count_no_handle, range_cache_bounded / hit_identity / ids_distinct / no_panic, all instantiated with
HEAP_INIT_BYTES_MAX, HEAP_GROWTH_FACTOR, RANGE_CACHE_SIZE regenerated from common.rs / vm.rs, and
C16_constants_as_stated (factor 2, 64 KiB as the property text says).

Tie on every run:
 (a) impl == M, pacing: the complete allocation log (hook H2, from the birth of the heap) of every generated loop
     program in the RELEASE build is replayed through Pacing.v by coqc (`run_pacing_log_chunks`): continuity,
     `collected` == (threshold <= bytes), threshold_after == GROWTH * survivors, bytes_after; and the inequality of
     pacing_bound is checked on the log itself with the property's stated constants (impl == S).
     Byte accounting (bytes_is_live_sum): bytes_allocated == sum of size_of over live boxes at `heap_probe()` calls
     made by the program and after the final collection, in both builds.  Debug build: every allocation collects
     (stress_collects_every_time) and threshold == GROWTH * survivors.
 (b) impl == S, reclamation: loop programs with a bounded live set run for N and 2N iterations (release, and debug
     with a small N): after a final forced collection the object counts by kind are EQUAL (ObjString, Chunk,
     ObjFunction excluded: retained by design).
 (c) roots: after the run, with no host handle left but the Vm, the boxes with num_roots > 0 (by kind) do not
     grow between N and 2N, at most RANGE_CACHE_SIZE ranges are rooted, and after dropping the Vm and collecting
     the heap is EMPTY (every root count returned to zero: last_drop_zero).
 (d) impl == M, range cache: request sequences over a small pool of bounds; the identities (`==` on ranges is
     box identity) handed out by the Vm have the pattern RangeCache.v computes (FIFO eviction, no refresh on hit).
 (e) retention chains (round 4) and hand-outs (round 7): a leftover built through a temporary owner (fiber, frame, try/finally,
     closed upvalue, import) must not pin the owner; round 7: the owner is ABANDONED suspended / resumed-and-suspended /
     inside call, try, loop, catch with the previous leftover on its stack while its product lives on.
 (f) live-set profiles (round 7): programs whose live set grows above the budget and SHRINKS again (8 shapes); whole
     release log through Pacing.v and pacing_bound.  PacingRule.v: any threshold rule bounded by max(INIT, GROWTH * survivors)
     keeps the bound; ratchet / damping / averaging are refuted by a grow-then-drop history and equal the source's rule
     while the survivors do not shrink.
 (g) the size the allocator charges against size_of::<T>() computed by the harness itself (TI record).
 (h) live-set shapes (round 9): the loop-program oracle (b), (a), (c) with the bounded live set held during the loop as a scale
     dimension: deep chains through 9 link kinds (ladder 17 ... 3000, mixed 12000), wide containers of 12 item kinds, many fibers,
     deep class hierarchy, tree with parent links; anchored by a global / closed upvalue / suspended fiber / field; first in search()."""
import json
import os
import re

import yvlib
from yvlib import hx, log

LEVEL = "proof"
TRUSTED = [
    "Coq 8.16.1 kernel (coqc), vm_compute; no native_compute, no extraction",
    "translator/translate.py (HEAP_INIT_BYTES_MAX, HEAP_GROWTH_FACTOR from common.rs; RANGE_CACHE_SIZE from vm.rs)",
    "hook H2 (memory.rs verif: allocation log, stats, object_kinds, snapshot, force_collect; feature verif_hooks), "
    "the harness `yv` (harness/src/ext_c16.rs), tools/*.py (lossless compression of the log for the wire)",
    "coq/theories/HeapTablesRef.v: hand transcription of mark/blacken (its tie to the code is C01's)",
    "modelled, not verified: usize as unbounded N; Instant ordering of the range cache as insertion order",
]
ASSUMPTIONS = [
    "size of a box = size_of::<T>() as counted by allocate_raw (memory owned by Vec/HashMap/String buffers is outside the managed heap's accounting, as in the code)",
    "interned strings, chunks and functions are retained for the Vm's lifetime by design (property text) and excluded from the N/2N comparison",
    "each harness case runs on a fresh thread, hence a fresh thread-local heap",
]

STATED_GROWTH = 2
STATED_INIT = 65536
EXCLUDED = ("ObjString", "Chunk", "ObjFunction")

PRELUDE = '''#[constructor(new)] class A { fn m(self) { return self; } fn get(self) { return self.x; } }
#[derive(A)] class D { #[constructor] fn new(self, x) { self.x = x; self.y = [x]; } }
fn mk(n) { var c = n; return || { c = c + 1; return c; }; }
fn boom(x) { throw x; }
'''

# (name, code, variable that may be kept in the ring of live data or None)
FRAGS = [
    ("vec2", "var w = []; w.push(i); w.push(v); w.push(w.len());", "w"),
    ("tuple", "var t = (i, v, \"t\");", "t"),
    ("map", "var m = {i: v, \"k\": i, (i % 3): [v]}; m.insert(i + 1, v); m.remove(i);", "m"),
    ("strcat", "var s = \"a\" + \"b${i % 7}\" + \"c\";", None),
    ("strnew", "var sn = \"n${i}\";", None),
    ("strops", "var sp = \"a,b,c\".split(\",\"); var su = \"x\" + sp[i % 3];", "sp"),
    ("strfmt", "var sf = \"${v} ${i % 11}\";", None),
    ("closure", "var c = || { return v; }; c();", "c"),
    ("counter", "var cn = mk(i); cn(); cn();", "cn"),
    ("inst", "var a = A.new(); a.x = v; a.get();", "a"),
    ("derived", "var d = D.new(v); d.get(); d.m();", "d"),
    ("bound", "var a2 = A.new(); a2.x = i; var bm = a2.get; bm();", "bm"),
    ("boundnative", "var pn = v.push; pn(i);", "pn"),
    ("range", "var r = i..(i + 3); var r2 = (i % 5)..9;", None),
    ("rangeiter", "var acc = 0; for x in (i % 4)..6 { acc = acc + x; }", None),
    ("rangemany", "var q = 0; while q < 12 { var rq = (i + q)..(i + q + 1); q = q + 1; }", None),
    ("veciter", "for x in v { }", None),
    ("tupleiter", "for x in (1, 2, v) { }", None),
    ("striter", "for ch in \"héy\" { }", None),
    ("mapiter", "var m2 = {1: v, 2: i}; for k in m2.keys() { } for x in m2.values() { } for kv in m2.items() { }", None),
    ("iterchain", "var col = v.iter().map(|x| x).filter(|x| true).collect();", "col"),
    ("fiberdone", "var f = Fiber.new(|| { return v; }); f.call();", "f"),
    ("fiberarg", "var f2 = Fiber.new(|a| { var l = [a]; return l; }); f2.call(v);", "f2"),
    ("fibersusp", "var g = Fiber.new(|a| { var l = [a, i]; Fiber.yield(l); return 2; }); g.call(v);", "g"),
    ("fibernever", "var g0 = Fiber.new(|| { return 1; });", "g0"),
    ("fibernest", "var g2 = Fiber.new(|| { var h = Fiber.new(|| { Fiber.yield([i]); return 0; }); h.call(); Fiber.yield(h); return 1; }); g2.call();", "g2"),
    ("throwstr", "try { throw \"x${i % 3}\"; } catch e { }", None),
    ("throwinst", "var ex = nil; try { throw A.new(); } catch e { ex = e; }", "ex"),
    ("throwerr", "var ex2 = nil; try { [1][5]; } catch e { ex2 = e; }", "ex2"),
    ("throwdeep", "try { boom([i]); } catch e { }", None),
    ("finally", "try { try { throw (i, 1); } finally { var z = [i]; } } catch e { }", None),
    ("classdef", "class B { fn q(self) { return 1; } }", None),
    ("classdefinst", "#[constructor(new)] class B2 { fn q(self) { return v; } } var b2 = B2.new(); b2.q();", "b2"),
    ("fndef", "fn h(x) { return [x]; } var hv = h(i);", "hv"),
    ("lambda", "var lam = |x| (x, i); lam(v);", "lam"),
    ("selfcycle", "var cy = [i]; cy.push(cy);", "cy"),
    ("instcycle", "var ca = A.new(); var cb = A.new(); ca.x = cb; cb.x = ca;", "ca"),
    ("mapcycle", "var mc = {}; mc.insert(1, mc);", "mc"),
    ("closurecycle", "var rec = nil; rec = || { return rec; };", "rec"),
    ("boundcycle", "var bc = A.new(); bc.f = bc.m; bc.f();", "bc"),
    ("boundcycle2", "var b1 = []; var x1 = b1.push; var b3 = []; var y1 = b3.push; b1.push(y1); b3.push(x1);", "b1"),
    ("tuplekeymap", "var tk = (i, 1); var mt = {tk: v}; mt.has_key(tk);", None),
]
FRAG_BY_NAME = {f[0]: f for f in FRAGS}
WRAPS = ["top", "fn", "method", "fiber", "closure"]


def gen_spec(rng, tier_quick):
    """a loop program, as a small JSON-able spec"""
    nfr = rng.choice([1, 2, 3, 4, 6, 8, 12])
    names = [rng.choice(FRAGS)[0] for _ in range(nfr)]
    seen = []
    for n in names:
        if n not in seen:
            seen.append(n)
    ring = rng.choice([0, 1, 5, 16])
    kept = [n for n in seen if FRAG_BY_NAME[n][2] and ring and rng.random() < 0.6]
    return {"frags": seen, "kept": kept, "ring": ring, "wrap": rng.choice(WRAPS),
            "ballast": rng.choice([0, 0, 0, 300, 1500] if tier_quick else [0, 0, 300, 1500, 4000]),
            "probe": rng.choice([0, 7, 50])}


def render(spec, n):
    """yarel source of the loop program running n iterations"""
    body = ["var v = [i, i + 1];"]
    for name in spec["frags"]:
        body.append(FRAG_BY_NAME[name][1])
    if spec["kept"]:
        body.append("keep[i %% %d] = [%s];" % (spec["ring"], ", ".join(FRAG_BY_NAME[k][2] for k in spec["kept"])))
    if spec.get("probe"):
        body.append("if i %% %d == 0 { heap_probe(); }" % spec["probe"])
    src = [PRELUDE]
    if spec["ballast"]:
        src.append("var ballast = []; { var j = 0; while j < %d { ballast.push([j]); j = j + 1; } }" % spec["ballast"])
    if spec.get("live"):
        src.append(render_live(spec["live"]))
    src.append("var keep = [%s];" % ", ".join(["nil"] * max(1, spec["ring"])))
    ind = "\n    ".join(body)
    w = spec["wrap"]
    if w == "top":
        src.append("var i = 0;\nwhile i < %d {\n    %s\n    i = i + 1;\n}\nprint(i);" % (n, ind))
    elif w == "fn":
        src.append("fn body(i, keep) {\n    %s\n}\nvar i = 0;\nwhile i < %d { body(i, keep); i = i + 1; }\nprint(i);" % (ind, n))
    elif w == "method":
        src.append("#[constructor(new)] class Runner { fn body(self, i, keep) {\n    %s\n} }\nvar rn = Runner.new();\nvar i = 0;\n"
                   "while i < %d { rn.body(i, keep); i = i + 1; }\nprint(i);" % (ind, n))
    elif w == "fiber":
        src.append("var main_fiber = Fiber.new(|keep| {\n  var i = 0;\n  while i < %d {\n    %s\n    i = i + 1;\n  }\n  return i;\n});\n"
                   "print(main_fiber.call(keep));" % (n, ind))
    else:
        src.append("var i = 0;\nwhile i < %d {\n  var step = |i| {\n    %s\n  };\n  step(i);\n  i = i + 1;\n}\nprint(i);" % (n, ind))
    return "\n".join(src) + "\n"


# ---------------------------------------------------------------------------------------------------------
# round 9: the SHAPE of the bounded live set held while the garbage loop runs, as a scale dimension (notes/C16.md, Round 9).
# The oracle is the one of every loop program and does not depend on the size: counts by kind after N and 2N iterations are
# equal, the pacing bound holds at every record of the release log, bytes_allocated == sum of live sizes.
LIVE_PRE = """fn lk_c(v, n) { return |k| { if k == 0 { return v; } return n; }; }
fn lk_f(v, n) { var f = Fiber.new(|a| { Fiber.yield(0); return a; }); f.call((v, n)); return f; }
fn lk_s(v, n) { var pair = (v, n); fn a() { return pair[0]; } fn b() { return pair[1]; } return (a, b); }
fn lk_sub(c) { #[derive(c), constructor(new)] class S_ {} return S_; }
var live_ = nil;
"""
# one link of a deep chain: live_ := a fresh object holding (j, live_); boxes per link on the path in the comment
LIVE_LINK = {
    "field": "var o_ = A.new(); o_.x = j; o_.nx = live_; live_ = o_;",           # instance field (1)
    "vec": "live_ = [j, live_];",                                               # vec element (1)
    "tuple": "live_ = (j, live_);",                                             # tuple element (1)
    "map": 'live_ = {"v": j, "n": live_};',                                     # map value (1)
    "closure": "live_ = lk_c(j, live_);",                                       # closure -> closed upvalue (2)
    "bound": "live_ = D.new((j, live_)).get;",                                  # bound method -> receiver -> tuple (3)
    "iter": "live_ = [j, live_].iter();",                                       # vec iterator -> vec (2)
    "shared": "live_ = lk_s(j, live_);",                                        # tuple -> closure -> shared upvalue -> tuple (4)
    "fiber": "live_ = lk_f(j, live_);",                                         # suspended fiber's stack -> tuple (2), 256 KB stack each
}
LIVE_ITEM = {"num": "j", "vec": "[j]", "inst": "D.new(j)", "closure": "mk(j)", "tuple": "(j, j)", "map": "{j: j}", "bound": "D.new(j).get",
             "iter": "[j].iter()", "fiber": "lk_f(j, nil)", "fiber_new": "Fiber.new(|a| a)", "range": "(j..(j + 2))", "str": '"s${j}"'}
LIVE_ANCHOR = {
    "global": "",
    "upvalue": "var live_h = (|| { var x = live_; return || x; })(); live_ = nil;",
    "fiber": "var live_f = Fiber.new(|a| { var x = a; Fiber.yield(0); return x; }); live_f.call(live_); live_ = nil;",
    "field": "var live_o = A.new(); live_o.x = [live_]; live_ = nil;",
}
CHAIN_LADDER = [17, 129, 600, 1100, 3000]
WIDE_LADDER = [300, 5000, 12000]   # boxes; a collection of the unchanged tree is quadratic in the number of live boxes (20000: 5 s, 40000: 35 s): 70000 only for unboxed items
# collect-at-every-allocation (debug build) re-traces the live set at every allocation: caps per shape
LIVE_DEBUG_CAP = {"chain": 600, "append": 600, "wide_vec": 1000, "wide_map": 1000, "class": 129, "tree": 511}
LIVE_DEBUG_CAP_KIND = {"fiber": 65, "fiber_new": 300, "shared": 300, "bound": 300, "closure": 300, "iter": 300}


# boxes per link / item (measured, approximate): a collection of the unchanged tree is quadratic in the number of live boxes
# (9000 boxes: 3.6 s for the whole run, 15000: 20 s), so the LENGTH of the chain / container is capped by a box budget
LIVE_BOXES = {"field": 1, "vec": 1, "tuple": 1, "map": 1, "closure": 3, "bound": 4, "iter": 2, "shared": 5, "fiber": 2,
              "num": 0, "inst": 2, "str": 1, "range": 1, "fiber_new": 2}
LIVE_ITEM_BOXES = {"closure": 2, "bound": 3, "fiber": 4, "tuple": 1, "vec": 1, "map": 1, "iter": 2}


def live_fit(lv, budget):
    if lv["shape"] == "chain":
        per = sum(LIVE_BOXES[k] for k in lv["kinds"]) / float(len(lv["kinds"]))
    elif lv["shape"] in ("wide_vec", "wide_map"):
        per = LIVE_ITEM_BOXES.get(lv["item"], LIVE_BOXES.get(lv["item"], 1))
    else:
        per = 3 if lv["shape"] == "class" else 1
    return dict(lv, n=min(lv["n"], int(budget / per))) if per else lv


def render_live(lv):
    n, shape = lv["n"], lv["shape"]
    loop = "{ var j = 0; while j < %d { %%s } }" % n
    if shape == "chain":
        kinds = lv["kinds"]
        body = " ".join("{ %s } j = j + 1;" % LIVE_LINK[k] for k in kinds)    # (own block: `var o_` of two field links must not collide)
        code = "{ var j = 0; while j < %d { %s } }" % (n - n % len(kinds), body)
    elif shape == "append":        # built from the head: the OLDEST link is the one the root points to
        code = "{ var t_ = A.new(); t_.x = 0; live_ = t_; var j = 1; while j < %d { var o_ = A.new(); o_.x = j; t_.nx = o_; t_ = o_; j = j + 1; } }" % n
    elif shape == "wide_vec":
        code = "live_ = []; " + loop % ("live_.push(%s); j = j + 1;" % LIVE_ITEM[lv["item"]])
    elif shape == "wide_map":
        code = "live_ = {}; " + loop % ("live_.insert(j, %s); j = j + 1;" % LIVE_ITEM[lv["item"]])
    elif shape == "class":         # deep class hierarchy, an instance of the newest class is the live data
        code = "{ var h_ = A; var j = 0; while j < %d { h_ = lk_sub(h_); j = j + 1; } live_ = h_.new(); }" % n
    elif shape == "tree":          # n nodes, heap-shaped binary tree of instances (depth log n, every node has a parent link too)
        code = ("{ var ns_ = []; var pi_ = 0; var j = 0; while j < %d { var o_ = A.new(); o_.x = j; if j > 0 { var p_ = ns_[pi_]; o_.up = p_; "
                "if j %% 2 == 1 { p_.l = o_; } else { p_.r = o_; pi_ = pi_ + 1; } } ns_.push(o_); j = j + 1; } live_ = ns_[0]; }" % n)
    else:
        raise ValueError(shape)
    return LIVE_PRE + code + "\n" + LIVE_ANCHOR[lv.get("anchor", "global")]


def live_debug(lv):
    """the same shape, small enough for the debug build"""
    cap = LIVE_DEBUG_CAP[lv["shape"]]
    for k in lv.get("kinds", []) + ([lv["item"]] if lv.get("item") else []):
        cap = min(cap, LIVE_DEBUG_CAP_KIND.get(k, cap))
    return dict(lv, n=min(lv["n"], cap))


def live_name(lv):
    return "%s/%s/%d/%s" % (lv["shape"], "+".join(lv.get("kinds", [])) or lv.get("item", "-"), lv["n"], lv.get("anchor", "global"))


def live_loop_spec(rng, lv):
    """a garbage loop (1-3 fragments, small ring) running while the live set `lv` is held"""
    frs = []
    for _ in range(rng.choice([1, 2, 3])):
        f = rng.choice(FRAGS)[0]
        if f not in frs:
            frs.append(f)
    if rng.random() < 0.5 and "inst" not in frs:
        frs.append("inst")
    ring = rng.choice([0, 5])
    return {"frags": frs, "kept": [f for f in frs if FRAG_BY_NAME[f][2] and ring and rng.random() < 0.5], "ring": ring,
            "wrap": rng.choice(WRAPS), "ballast": 0, "probe": rng.choice([0, 50]), "live": lv}


def gen_live_specs(rng, level):
    """level 'quick': every chain kind once at a rung >= 1100 + a few small rungs + wide/class/fiber/tree sets;
    'thorough' / 'search': every kind x the whole ladder"""
    kinds = [k for k in LIVE_LINK if k != "fiber"]
    anchors = list(LIVE_ANCHOR)
    lvs = []
    if level == "quick":
        for k in kinds:
            lvs.append({"shape": "chain", "kinds": [k], "n": rng.choice([1100, 3000]), "anchor": rng.choice(anchors)})
        lvs.append({"shape": "append", "n": rng.choice([1100, 3000]), "anchor": rng.choice(anchors)})
        lvs.append({"shape": "chain", "kinds": [rng.choice(kinds) for _ in range(rng.randint(2, 4))], "n": rng.choice([1100, 3000, 5000]), "anchor": rng.choice(anchors)})
        for _ in range(2):
            lvs.append({"shape": "chain", "kinds": [rng.choice(kinds)], "n": rng.choice([17, 129, 600]), "anchor": rng.choice(anchors)})
        lvs.append({"shape": "chain", "kinds": ["fiber"], "n": rng.choice([17, 129, 600]), "anchor": "global"})
        lvs.append({"shape": "wide_vec", "item": rng.choice(["vec", "inst", "closure", "tuple", "bound"]), "n": rng.choice([5000, 12000]), "anchor": rng.choice(anchors)})
        lvs.append({"shape": rng.choice(["wide_vec", "wide_map"]), "item": "num", "n": 70000, "anchor": rng.choice(anchors)})
        lvs.append({"shape": "wide_vec", "item": rng.choice(list(LIVE_ITEM)), "n": rng.choice([300, 5000]), "anchor": rng.choice(anchors)})
        lvs.append({"shape": "wide_map", "item": rng.choice(["vec", "inst"]), "n": rng.choice([300, 5000]), "anchor": rng.choice(anchors)})
        lvs.append({"shape": "wide_vec", "item": rng.choice(["fiber", "fiber_new"]), "n": rng.choice([129, 600]), "anchor": "global"})
        lvs.append({"shape": "class", "n": rng.choice([17, 129, 1100]), "anchor": "global"})
        lvs.append({"shape": "tree", "n": rng.choice([1023, 12000]), "anchor": rng.choice(anchors)})
    elif level == "thorough":
        return gen_live_specs(rng, "quick") + gen_live_specs(rng, "quick") + gen_live_specs(rng, "quick")
    else:
        big_first = sorted(CHAIN_LADDER, key=lambda x: -x)
        for n in big_first:
            for k in kinds:
                lvs.append({"shape": "chain", "kinds": [k], "n": n, "anchor": rng.choice(anchors)})
            lvs.append({"shape": "append", "n": n, "anchor": rng.choice(anchors)})
            lvs.append({"shape": "chain", "kinds": [rng.choice(kinds) for _ in range(rng.randint(2, 5))], "n": n, "anchor": rng.choice(anchors)})
        lvs.append({"shape": "wide_vec", "item": "num", "n": 70000, "anchor": "global"})
        lvs.append({"shape": "wide_map", "item": "num", "n": 70000, "anchor": "upvalue"})
        lvs.append({"shape": "chain", "kinds": ["field", "tuple"], "n": 12000, "anchor": "upvalue"})
        for n in (17, 129, 600, 1100):
            lvs.append({"shape": "chain", "kinds": ["fiber"], "n": n, "anchor": "global"})
        for n in WIDE_LADDER[::-1]:
            for item in LIVE_ITEM:
                if item.startswith("fiber") and n > 600:
                    continue
                lvs.append({"shape": "wide_vec", "item": item, "n": n, "anchor": rng.choice(anchors)})
            for item in ("num", "vec", "inst", "closure"):
                lvs.append({"shape": "wide_map", "item": item, "n": n, "anchor": rng.choice(anchors)})
        for item in ("fiber", "fiber_new"):
            for n in (17, 129, 600):
                lvs.append({"shape": "wide_vec", "item": item, "n": n, "anchor": "global"})
        for n in (17, 129, 600, 1100, 3000):
            lvs.append({"shape": "class", "n": n, "anchor": "global"})
        for n in (1023, 5000, 12000):
            lvs.append({"shape": "tree", "n": n, "anchor": rng.choice(anchors)})
    budget = 6500 if level == "quick" else 11000
    return [live_loop_spec(rng, live_fit(lv, budget)) for lv in lvs]


def check_live_shapes(ctx, specs, quick, tag, stop_after=None):
    """the loop-program oracle on the live-shape programs, in batches (largest first in search); a program that did not
    complete is run once more alone before it is believed"""
    out = []
    step = 12
    for at in range(0, len(specs), step):
        res = check_programs(ctx, specs[at:at + step], quick, tag + str(at // step))
        for j, info in enumerate(res):
            if any("did not run to completion" in w for _, w, _ in info["problems"]):
                log("[C16] live-shape program %s did not complete: once more alone" % live_name(info["spec"]["live"]))
                res[j] = check_programs(ctx, [info["spec"]], quick, tag + "again")[0]
        out += res
        if stop_after and sum(1 for i in res if any(l == "violation" for l, _, _ in i["problems"])) >= stop_after:
            break
    return out


def kinds_of(rec, tag):
    t = rec.tagged(tag)
    if not t:
        return None
    out = {}
    for x in t[0]:
        if x:
            k, n = x.split("=")
            out[yvlib.unhx(k).decode()] = int(n)
    return out


def counted(k):
    return {a: b for a, b in (k or {}).items() if not any(e in a for e in EXCLUDED)}


def short(k):
    return {a.replace("yarel::object::", "").replace("core::cell::RefCell", "").replace("yarel::chunk::", ""): b for a, b in k.items()}


def consts():
    with open(os.path.join(yvlib.COQ, "gen", "manifest.json")) as fh:
        return json.load(fh).get("consts", {})


def compress(recs):
    """lossless wire form of a log (see PacingRun.lrec_of); recs = lists of 6 ints"""
    out = []
    prev = None
    for r in recs:
        s, bb, tb, c, ba, ta = r
        cont = prev is not None and bb == prev[4] and tb == prev[5]
        if cont and c == 0 and ba == bb + s and ta == tb:
            out.append("%d" % s)
        elif cont:
            out.append("%d %d %d %d" % (s, c, ba, ta))
        else:
            out.append("%d %d %d %d %d %d" % tuple(r))
        prev = r
    return out


def decompress(groups):
    out = []
    for g in groups:
        f = [int(x) for x in g.split(" ")]
        if len(f) == 6:
            out.append(f)
        elif len(f) == 4:
            out.append([f[0], out[-1][4], out[-1][5], f[1], f[2], f[3]])
        else:
            out.append([f[0], out[-1][4], out[-1][5], 0, out[-1][4] + f[0], out[-1][5]])
    return out


def pacing_term(recs, c):
    groups = compress(recs)
    assert decompress(groups) == recs
    chunks = [";".join(groups[i:i + 1000]) for i in range(0, len(groups), 1000)]
    return "run_pacing_log_chunks %d%%N %d%%N %d%%N %d%%N [%s]" % (
        c.get("HEAP_INIT_BYTES_MAX", STATED_INIT), c.get("HEAP_GROWTH_FACTOR", STATED_GROWTH), STATED_INIT, STATED_GROWTH,
        ";".join('"%s"%%string' % ch for ch in chunks))


def eval_logs(terms, shard_size, tag):
    """coq_eval of replay terms; a term that came back empty (coqc killed / timed out on a loaded machine) is evaluated once more, alone"""
    if not terms:
        return []
    vals = yvlib.coq_eval(["YV:PacingRun"], terms, shard_size=shard_size, tag=tag, preamble="Open Scope string_scope.")
    for i, v in enumerate(vals):
        if v is None:
            vals[i] = yvlib.coq_eval(["YV:PacingRun"], [terms[i]], shard_size=1, tag=tag + "retry", preamble="Open Scope string_scope.")[0]
    return vals


def alloc_log(rec):
    return [[int(x) for x in a] for a in rec.tagged("A")]


UNKNOWN_KIND_BOXES = [0]


class Run:
    """one execution of a program: parsed records"""

    def __init__(self, rec):
        self.rec = rec
        self.ok = rec.result[0] == "ok" and not rec.crashed
        s = rec.tagged("S")
        self.S = [int(x) for x in s[0]] if s else None
        t = rec.tagged("T")
        self.T = int(t[0][0]) if t else None
        ti = rec.tagged("TI")
        self.TI = [int(x) for x in ti[0]] if ti else None    # [sum of size_of::<T>() taken by the harness itself, boxes of unknown kind]
        if self.TI and self.TI[1]:
            UNKNOWN_KIND_BOXES[0] = max(UNKNOWN_KIND_BOXES[0], self.TI[1])
        self.K = kinds_of(rec, "K")
        self.RK = kinds_of(rec, "RK")
        d = rec.tagged("D")
        self.D = [int(x) for x in d[0]] if d else None
        self.P = [[int(x) for x in p] for p in rec.tagged("P")]
        b = rec.tagged("B")
        self.B = int(b[0][0]) if b else 0


def indep_size_problem(r, where):
    """the size the allocator charges (hook H2 log) against size_of::<T>() computed by the harness for the same kinds"""
    cands = [(r.T, r.TI)] if r.TI and r.T is not None else []
    cands += [(p[4], p[5:7]) for p in r.P if len(p) >= 7]
    for logged, ti in cands:
        if ti[1] == 0 and ti[0] != logged:
            return ("corr", "the size allocate_raw charges for a box is not size_of::<T>() of its payload (%s): Pacing.v's `size` and the "
                    "property's 'heap size' are no longer the payload bytes" % where, "sum of logged sizes of the live boxes = %d, sum of size_of::<T>() = %d" % (logged, ti[0]))
    return None


def sizes(quick):
    return {"rel": (240, 480) if quick else (360, 720), "dbg": (24, 48) if quick else (30, 60)}


def check_programs(ctx, specs, quick, tag, want_pacing=True):
    """runs every program (release N/2N, debug n/2n), returns per-program list of problems:
    (level, what, detail) with level in {'violation', 'corr'}; also stats"""
    rel = ctx.harness("release")
    dbg = ctx.harness("debug")
    c = consts()
    growth = c.get("HEAP_GROWTH_FACTOR", STATED_GROWTH)
    cache = c.get("RANGE_CACHE_SIZE", 8)
    (n1, n2), (d1, d2) = sizes(quick)["rel"], sizes(quick)["dbg"]
    lines_rel, lines_dbg = [], []
    for sp in specs:
        lines_rel.append("c16 log=1,dropvm=1 " + hx(render(sp, n1)))
        lines_rel.append("c16 dropvm=1 " + hx(render(sp, n2)))
        dsp = dict(sp, ballast=min(sp["ballast"], 300))   # collect-at-every-allocation: keep the heap small
        if sp.get("live"):
            dsp["live"] = live_debug(sp["live"])
        lines_dbg.append("c16 log=1,dropvm=1 " + hx(render(dsp, d1)))
        lines_dbg.append("c16 dropvm=1 " + hx(render(dsp, d2)))
    import time
    t0 = time.time()
    rrel = yvlib.run_harness(rel, lines_rel, case_timeout_ms=30000, recycle=8)
    t1 = time.time()
    rdbg = yvlib.run_harness(dbg, lines_dbg, case_timeout_ms=60000, recycle=8)
    log("[C16] %d programs: release runs %.1fs, debug runs %.1fs" % (len(specs), t1 - t0, time.time() - t1))
    terms, term_ix = [], []
    results = []
    for ix, sp in enumerate(specs):
        probs = []
        runs = {"rel1": Run(rrel[2 * ix]), "rel2": Run(rrel[2 * ix + 1]), "dbg1": Run(rdbg[2 * ix]), "dbg2": Run(rdbg[2 * ix + 1])}
        info = {"spec": sp, "problems": probs, "collections": 0, "freed": 0, "records": 0, "nontrivial": False}
        results.append(info)
        bad = [k for k, r in runs.items() if not r.ok]
        if bad:
            r = runs[bad[0]]
            probs.append(("violation", "the loop program did not run to completion in %s" % bad[0],
                          "%s %s" % (r.rec.result, r.rec.messages[:2])))
            continue
        for build, a, b, na, nb in (("release", runs["rel1"], runs["rel2"], n1, n2), ("debug", runs["dbg1"], runs["dbg2"], d1, d2)):
            ka, kb = counted(a.K), counted(b.K)
            if ka != kb:
                diff = {k: (ka.get(k, 0), kb.get(k, 0)) for k in set(ka) | set(kb) if ka.get(k, 0) != kb.get(k, 0)}
                probs.append(("violation", "objects left behind grow with the iteration count (%s build, %d vs %d iterations)" % (build, na, nb),
                              "kind: (count after N, after 2N) = %s" % short(diff)))
            ra, rb = counted(a.RK), counted(b.RK)
            grow = {k: (ra.get(k, 0), rb.get(k, 0)) for k in rb if rb.get(k, 0) > ra.get(k, 0)}
            if grow:
                probs.append(("violation", "rooted boxes (num_roots > 0 with no host handle left) grow with the iteration count (%s build)" % build,
                              "kind: (rooted after N, after 2N) = %s" % short(grow)))
            for r, n in ((a, na), (b, nb)):
                nr = sum(v for k, v in (r.RK or {}).items() if "ObjRange" in k and "Iter" not in k)
                if nr > cache:
                    probs.append(("violation", "more than RANGE_CACHE_SIZE ranges are rooted after the run (%s build, %d iterations)" % (build, n),
                                  "%d rooted ObjRange > %d" % (nr, cache)))
                if r.D and (r.D[0] or r.D[2]):
                    probs.append(("violation", "boxes survive dropping the Vm and collecting: a root count did not return to zero (%s build, %d iterations)" % (build, n),
                                  "objects, bytes, rooted = %s" % r.D))
                elif r.D != [0, 0, 0]:
                    probs.append(("violation", "bytes_allocated is not zero when the heap is empty (after dropping the Vm and collecting; %s build, %d iterations)" % (build, n),
                                  "objects, bytes, rooted = %s" % r.D))
                if r.S and r.T is not None and r.S[0] != r.T:
                    probs.append(("violation", "bytes_allocated is not the sum of the sizes of the live boxes after the final collection: the heap is paced on a wrong size (%s build, %d iterations)" % (build, n),
                                  "bytes_allocated=%d, live sizes=%d" % (r.S[0], r.T)))
                badp = [p for p in r.P if p[0] != p[4]]
                if badp:
                    probs.append(("violation", "bytes_allocated is not the sum of the sizes of the live boxes at a heap_probe() call (%s build, %d iterations)" % (build, n),
                                  "bytes, threshold, nobjects, collections, live sizes = %s" % badp[0]))
                ip = indep_size_problem(r, "%s build" % build)
                if ip and not any(q[1] == ip[1] for q in probs):
                    probs.append(ip)
        info["nobj"] = runs["rel2"].S[2] if runs["rel2"].S else 0
        if runs["rel2"].S and runs["rel2"].S[3] <= 1:
            info["trivial"] = True   # only the forced collection: the program did not allocate enough
        # debug build: every allocation collects, threshold = GROWTH * survivors
        dl = alloc_log(runs["dbg1"].rec)
        for j, r in enumerate(dl):
            if r[3] != 1 or r[5] != growth * (r[4] - r[0]) or (j and (r[1] != dl[j - 1][4])):
                probs.append(("corr", "debug build: allocation %d is not a collect-then-allocate step of Pacing.alloc_stress" % j, str(r)))
                break
        rl = alloc_log(runs["rel1"].rec)
        info["records"] = len(rl)
        if want_pacing and rl:
            term_ix.append(ix)
            terms.append(pacing_term(rl, c))
    t2 = time.time()
    vals = eval_logs(terms, max(1, min(3, (len(terms) + yvlib.NPROC - 1) // yvlib.NPROC)), "C16" + tag)
    log("[C16] replay of %d logs (%d records) in Coq: %.1fs" % (len(terms), sum(r["records"] for r in results), time.time() - t2))
    for ix, val in zip(term_ix, vals):
        info = results[ix]
        if val is None or val == "BADLOG":
            info["problems"].append(("corr", "the allocation log could not be replayed (coq_eval failed or malformed log)", str(val)))
            continue
        m, s, st = val.split("|")
        info["verdict"] = val
        mm = re.match(r"n=(\d+) col=(\d+) freed=(\d+) max=(\d+)", st)
        info["collections"], info["freed"], info["max"] = int(mm.group(2)), int(mm.group(3)), int(mm.group(4))
        info["nontrivial"] = info["collections"] > 0 and info["freed"] > 0
        if s != "S:OK":
            at = int(s.split("@")[1])
            rl = alloc_log(rrel[2 * ix])
            info["problems"].append(("violation", "the heap exceeds max(64 KiB, 2 x size after the previous collection) by more than the allocation in flight (release build)",
                                     "log record %d: size bytes_before threshold_before collected bytes_after threshold_after = %s" % (at, rl[at])))
        if m != "M:OK":
            at, why = m.split("@")[1].split("#")
            rl = alloc_log(rrel[2 * ix])
            names = {"1": "bytes_before is not the previous bytes_after", "2": "threshold_before is not the previous threshold_after",
                     "3": "collected != (threshold_before <= bytes_before)", "4": "collected differs from the model", "5": "bytes_after < size or survivors > bytes_before",
                     "6": "bytes_after differs from the model", "7": "threshold_after != GROWTH * survivors (or changed without a collection)",
                     "8": "first record is not Heap::default", "9": "length"}
            info["problems"].append(("corr", "allocation log is not a run of Pacing.v: record %s: %s" % (at, names.get(why, why)),
                                     "records %s" % rl[max(0, int(at) - 1):int(at) + 1]))
    return results


def report(ctx, results, limit_v=5):
    nv = 0
    for info in results:
        for level, what, detail in info["problems"]:
            if level == "violation":
                if nv < limit_v and len(ctx.violations) < 5:
                    ctx.violation(what, input=render(info["spec"], sizes(ctx.quick())["rel"][0]), expected="(see what)", actual=detail,
                                  spec=info["spec"], kind="loop")
                nv += 1
            else:
                msg = "%s | %s | program spec %s" % (what, detail[:300], json.dumps(info["spec"]))
                if len(ctx.corr_broken) < 5:
                    ctx.corr_broken.append(msg)
    return nv


def shrink_first(ctx, quick):
    """minimise the loop body of the first loop violation (bounded effort)"""
    v = next((v for v in ctx.violations if v.get("kind") == "loop"), None)
    if not v or "timeout" in str(v.get("actual")):
        return
    spec = dict(v["spec"])
    budget = [16]

    def fails(sp):
        if budget[0] <= 0:
            return False
        budget[0] -= 1
        res = check_programs(ctx, [sp], quick, "shrink", want_pacing="exceeds" in v["what"])
        return any(l == "violation" and w.split("(")[0] == v["what"].split("(")[0] for l, w, _ in res[0]["problems"])
    if spec.get("live"):
        # the smallest rung of the size ladder at which it still fails (the threshold lies between it and the next smaller rung)
        lv = spec["live"]
        for n in sorted({x for x in CHAIN_LADDER + WIDE_LADDER + [2000, 1500, 1300, 1200, 1050, 1000, 900] if x < lv["n"]}, reverse=True):
            cand = dict(spec, live=dict(lv, n=n))
            if not fails(cand):
                v["passes_at_live_set_size"] = n
                break
            spec = cand
        if spec["live"].get("anchor") != "global":
            cand = dict(spec, live=dict(spec["live"], anchor="global"))
            if fails(cand):
                spec = cand
    for simpl in ({"ballast": 0}, {"wrap": "top"}, {"probe": 0}, {"kept": [], "ring": 0}):
        cand = dict(spec, **simpl)
        if cand != spec and fails(cand):
            spec = cand
    for name in list(spec["frags"]):
        if len(spec["frags"]) <= 1:
            break
        cand = dict(spec, frags=[f for f in spec["frags"] if f != name], kept=[k for k in spec["kept"] if k != name])
        if fails(cand):
            spec = cand
    if spec != v["spec"]:
        res = check_programs(ctx, [spec], quick, "shrunk", want_pacing="exceeds" in v["what"])
        for l, w, d in res[0]["problems"]:
            if l == "violation" and w.split("(")[0] == v["what"].split("(")[0]:
                v.update({"spec": spec, "input": render(spec, sizes(quick)["rel"][0]), "actual": d, "what": w})
                break


# ---------------------------------------------------------------------------------------------------------
# range cache


def gen_range_case(rng):
    pool = [(rng.randint(-3, 6), rng.randint(-3, 9)) for _ in range(rng.choice([3, 9, 10, 12, 20]))]
    return [rng.choice(pool) for _ in range(rng.choice([6, 20, 40, 60]))]


def range_program(reqs):
    src = ["var rs = [];", "fn spin() { var k = 0; while k < 40 { k = k + 1; } }"]
    for b, e in reqs:
        src.append("rs.push((%d)..(%d)); spin();" % (b, e))
    src.append("var i = 0; while i < rs.len() { var j = 0; while !(rs[j] == rs[i]) { j = j + 1; } print(j); i = i + 1; }")
    return "\n".join(src) + "\n"


def check_range_cases(ctx, cases, tag):
    rel = ctx.harness("release")
    c = consts()
    size = c.get("RANGE_CACHE_SIZE", 8)
    recs = yvlib.run_harness(rel, ["c16 dropvm=1 " + hx(range_program(r)) for r in cases], case_timeout_ms=20000)
    off = 2 ** 40
    terms = ['run_range_case %d%%N "%s"%%string' % (size, ";".join("%d %d" % (b + off, e + off) for b, e in r)) for r in cases]
    vals = yvlib.coq_eval(["YV:PacingRun"], terms, shard_size=40, tag="C16rc" + tag, preamble="Open Scope string_scope.")
    evict = 0
    for reqs, rec, val in zip(cases, recs, vals):
        run = Run(rec)
        if val is None:
            ctx.corr_broken.append("range cache model evaluation failed")
            continue
        ids, ents, pan = val.split("|")
        ids = [int(x) for x in ids.split(",")]
        pat = [ids.index(x) for x in ids]
        nent = len([e for e in ents.split(";") if e])
        if len(set(ids)) > len(set(reqs)):
            evict += 1
        if len(ctx.violations) >= 5:
            continue
        if not run.ok:
            ctx.violation("range request program failed", input=range_program(reqs), actual=str(rec.result), kind="range", reqs=reqs)
            continue
        got = [int(x) for x in rec.output]
        nrooted = sum(v for k, v in (run.RK or {}).items() if "ObjRange" in k and "Iter" not in k)
        if nrooted > size:
            ctx.violation("more than RANGE_CACHE_SIZE ranges are rooted by the cache", input=range_program(reqs),
                          expected="<= %d" % size, actual=nrooted, kind="range", reqs=reqs)
        elif got != pat or nrooted != nent:
            # the code picks the victim by comparing elapsed() values read at different instants: a thread
            # descheduled between two reads (loaded machine) mis-orders them.  Only a mismatch that persists
            # over three more solitary runs is reported.
            again = [yvlib.run_harness(rel, ["c16 dropvm=1 " + hx(range_program(reqs))], case_timeout_ms=20000, shards=1)[0] for _ in range(3)]
            if any(r.result[0] == "ok" and [int(x) for x in r.output] == pat for r in again):
                ctx.cov["range_cases_timing_retries"] = ctx.cov.get("range_cases_timing_retries", 0) + 1
                continue
            ctx.corr_broken.append("impl != M (RangeCache.v): requests %s: identities impl %s model %s; rooted ranges impl %d model %d" % (
                reqs, got, pat, nrooted, nent))
    return evict


BOUND_CYCLE = '''var v = []; var x = v.push; var w = []; var y = w.push; v.push(y); w.push(x);
var junk = 0; var i = 0; while i < 3000 { junk = [i]; i = i + 1; }
print(i);
'''


def bound_method_cycle(ctx):
    """former class gc_bound_method_regrey (ObjBoundMethod::blacken re-marked its receiver, fixed): the collector must not hang"""
    rel = ctx.harness("release")
    rec = yvlib.run_harness(rel, ["c16 - " + hx(BOUND_CYCLE)], case_timeout_ms=3000, shards=1)[0]
    if rec.crashed or rec.result[0] != "ok":
        # fixed in /repo (ee7595b): a recurrence is a violation
        ctx.violation("a cycle through two bound methods hangs the collector: garbage is never reclaimed", input=BOUND_CYCLE,
                      expected="3000", actual=str(rec.result), kind="boundcycle")
        return False
    return True


SNIPPETS = {
    "throw": "var a = [1, 2, 3]; throw a;",
    "throw_in_fn": "fn f() { var b = [1]; throw (b, 2); } f();",
    "ok_cycle": "var a = [1, 2, 3]; a.push(a);",
    "fiber_throw": "var f = Fiber.new(|| { var z = [1]; throw z; }); f.call();",
    "fiber_yield": "var f = Fiber.new(|| { var z = [1]; Fiber.yield(z); }); f.call();",
    "native_error": "var v = [1]; v[7];",
    "closure_thrown": "{ var a = [1, 2, 3]; var c = || a; throw c; }",
    "finally_rethrow": "try { throw [1]; } finally { var q = [2]; }",
    "instance": "#[constructor(new)] class T { fn m(self) { return self; } } var t = T.new(); t.f = t.m; throw t;",
    "deep": "fn d(n) { var l = [n]; if n == 0 { throw l; } return d(n - 1); } d(20);",
}


def check_repl(ctx, only=None):
    """histories on ONE Vm: the same snippet interpreted n and 2n times (most end in an uncaught error, which
    unwinds the Vm): nothing but strings and compiled code may be left behind"""
    names = [only] if only else sorted(SNIPPETS)
    n = 0
    for build, binary, (a, b) in (("release", ctx.harness("release"), (20, 40)), ("debug", ctx.harness("debug"), (6, 12))):
        lines = []
        for nm in names:
            for k in (a, b):
                lines.append("repl stats=1,collect_end=1 " + " ".join([hx(SNIPPETS[nm])] * k))
        recs = yvlib.run_harness(binary, lines, case_timeout_ms=20000)
        for i, nm in enumerate(names):
            ra, rb = recs[2 * i], recs[2 * i + 1]
            n += 2
            if ra.crashed or rb.crashed or ra.result[0] == "panic" or rb.result[0] == "panic":
                if len(ctx.violations) < 5:
                    ctx.violation("repeated snippets on one Vm crash (%s build)" % build, input=SNIPPETS[nm], actual=str((ra.result, rb.result)),
                                  kind="repl", snippet=nm)
                continue
            ka, kb = counted(kinds_of(ra, "K")), counted(kinds_of(rb, "K"))
            if ka != kb and len(ctx.violations) < 5:
                diff = {k: (ka.get(k, 0), kb.get(k, 0)) for k in set(ka) | set(kb) if ka.get(k, 0) != kb.get(k, 0)}
                ctx.violation("objects left behind grow with the number of snippets interpreted on one Vm (%s build, %d vs %d)" % (build, a, b),
                              input=SNIPPETS[nm], expected="equal counts by kind", actual=str(short(diff)), kind="repl", snippet=nm)
    return n


def check_run_logs(ctx, specs, quick):
    """the plain `run log=1` path: the log starts after the Vm's start-up allocations, the first record seeds
    the model (PacingRun.seed_last)"""
    rel = ctx.harness("release")
    c = consts()
    n1 = sizes(quick)["rel"][0]
    recs = yvlib.run_harness(rel, ["run log=1,stats=1,collect_end=1 " + hx(render(dict(sp, probe=0), n1)) for sp in specs], case_timeout_ms=30000)
    terms = [pacing_term(alloc_log(r), c) for r in recs if alloc_log(r)]
    vals = yvlib.coq_eval(["YV:PacingRun"], terms, shard_size=1, tag="C16runlog", preamble="Open Scope string_scope.")
    for sp, val in zip(specs, vals):
        if val is None or not val.startswith("M:OK|"):
            ctx.corr_broken.append("`run log=1` allocation log (seeded at its first record) is not a run of Pacing.v: %s | spec %s" % (val, json.dumps(sp)))
        elif "|S:OK|" not in val and len(ctx.violations) < 5:
            ctx.violation("the heap exceeds the bound of pacing_bound (log of `run log=1`)", input=render(sp, n1), actual=val, spec=sp, kind="loop")
    return len(terms)

# ---------------------------------------------------------------------------------------------------------
# live-set profiles (round 7): the fragment loops have a STEADY live set (ring + ballast fixed for the whole run), so the
# threshold only ever follows 2 x survivors upwards or stays; any pacing rule that differs from `2 x survivors` only
# when the survivors SHRINK (threshold floors, ratchets, damping, hysteresis, "do not shrink below ...") is invisible
# to them.  A profile program moves the live set through phases (grow well above the 64 KiB budget, drop, regrow,
# stairs, spikes) and churns garbage after every move, long enough for the next two collections at the largest
# threshold the history could have produced.  The whole release log goes through Pacing.v (M) and pacing_bound (S).
PHASE_ITEMS = {   # expression building one live item / one piece of garbage from the counter j
    "vec": "[j]", "tuple": "(j, 1)", "map": "{j: 1}", "inst": "A.new()", "derived": "D.new(j)", "closure": "mk(j)",
    "pair": "[[j], (j, j)]", "bound": "pv.push", "fiber": "Fiber.new(|| j)",
}
PHASE_BYTES = {"vec": 48, "tuple": 40, "map": 56, "inst": 48, "derived": 96, "closure": 128, "pair": 136, "bound": 32, "fiber": 256}   # measured, approximate: only sizes the phases
PHASE_PROFILES = ["updown", "sawtooth", "stairs_down", "slow_down", "spike", "stairs_up_drop", "replace", "truncate"]


def gen_phase_spec(rng, profile=None):
    """a live-set profile: list of phases {op, live, churn} (counts of items)"""
    profile = profile or rng.choice(PHASE_PROFILES)
    item = rng.choice(sorted(PHASE_ITEMS))
    citem = rng.choice(sorted(PHASE_ITEMS))
    big = rng.randint(120000, 200000) // PHASE_BYTES[item]     # live bytes well above the 64 KiB budget
    if profile == "updown":
        lives = [big, 0]
    elif profile == "sawtooth":
        lives = [big // 2, 0, big, rng.choice([0, 40])]
    elif profile == "stairs_down":
        lives = [big, big // 3, big // 10, 0]
    elif profile == "slow_down":
        lives = [big, big * 2 // 3, big * 4 // 9, 0]
    elif profile == "spike":
        lives = [rng.choice([0, 100]), big, rng.choice([0, 60])]
    elif profile == "stairs_up_drop":
        lives = [big // 4, big // 2, big, 0]
    else:
        lives = [big, rng.choice([0, 30, big // 5])]
    op = {"replace": "replace", "truncate": "truncate"}.get(profile, "set")
    phases = []
    peak = 0
    for k, lv in enumerate(lives):
        peak = max(peak, lv * PHASE_BYTES[item])
        # garbage after the move: enough to reach the largest threshold any earlier phase could have left behind (2 x peak)
        # and then to refill the initial budget, in items of the churn kind
        churn = int((rng.uniform(1.15, 1.5) * peak + 110000) / PHASE_BYTES[citem])
        phases.append({"op": op if k else "set", "live": lv, "churn": churn})
    return {"profile": profile, "item": item, "citem": citem, "phases": phases, "wrap": rng.choice(["top", "top", "fn", "fiber"]),
            "probe": rng.choice([0, 1])}


def render_phases(ps):
    src = [PRELUDE, "var pv = [];", "var keep = [];",
           "fn fill(n) { var b = []; var j = 0; while j < n { b.push(%s); j = j + 1; } return b; }" % PHASE_ITEMS[ps["item"]],
           "fn churn(n) { var j = 0; while j < n { var t = %s; j = j + 1; } }" % PHASE_ITEMS[ps["citem"]]]
    body = []
    for ph in ps["phases"]:
        if ph["op"] == "set":
            body.append("keep = nil; keep = fill(%d);" % ph["live"])
        elif ph["op"] == "replace":
            body.append("keep = fill(%d);" % ph["live"])
        else:
            body.append("while keep.len() > %d { keep.pop(); }" % ph["live"])
        if ps.get("probe"):
            body.append("heap_probe();")
        body.append("churn(%d);" % ph["churn"])
        if ps.get("probe"):
            body.append("heap_probe();")
    if ps["wrap"] == "top":
        src += body
    elif ps["wrap"] == "fn":
        src.append("fn phases() {\n  %s\n}\nphases();" % "\n  ".join(body))
    else:
        src.append("var pf = Fiber.new(|| {\n  %s\n  return 0;\n});\npf.call();" % "\n  ".join(body))
    src.append("keep = nil; print(1);")
    return "\n".join(src) + "\n"


def check_phases(ctx, pspecs, tag):
    """release build, whole log: M verdict (impl == Pacing.v), S verdict (pacing_bound with the stated constants), byte accounting
    at the probes / after the final collection / on the empty heap.  Returns per-program info dicts."""
    rel = ctx.harness("release")
    c = consts()
    recs = yvlib.run_harness(rel, ["c16 log=1,dropvm=1 " + hx(render_phases(ps)) for ps in pspecs], case_timeout_ms=60000, recycle=4)
    for i, r in enumerate(recs):
        if r.crashed and "timeout" in str(r.result):   # loaded machine: once more, alone
            recs[i] = yvlib.run_harness(rel, ["c16 log=1,dropvm=1 " + hx(render_phases(pspecs[i]))], case_timeout_ms=120000, shards=1)[0]
    infos, terms, term_ix = [], [], []
    for ix, (ps, rec) in enumerate(zip(pspecs, recs)):
        run = Run(rec)
        info = {"pspec": ps, "problems": [], "records": 0, "collections": 0, "max": 0, "shrinks": 0}
        infos.append(info)
        if not run.ok:
            info["problems"].append(("violation", "the live-set profile program did not run to completion (release build)", "%s %s" % (rec.result, rec.messages[:2])))
            continue
        if run.D != [0, 0, 0]:
            info["problems"].append(("violation", "the heap is not empty / bytes_allocated is not zero after dropping the Vm and collecting (release build, live-set profile)",
                                     "objects, bytes, rooted = %s" % run.D))
        if run.S and run.T is not None and run.S[0] != run.T:
            info["problems"].append(("violation", "bytes_allocated is not the sum of the sizes of the live boxes after the final collection: the heap is paced on a wrong size (release build, live-set profile)",
                                     "bytes_allocated=%d, live sizes=%d" % (run.S[0], run.T)))
        badp = [p for p in run.P if p[0] != p[4]]
        if badp:
            info["problems"].append(("violation", "bytes_allocated is not the sum of the sizes of the live boxes at a heap_probe() call (release build, live-set profile)",
                                     "bytes, threshold, nobjects, collections, live sizes = %s" % badp[0]))
        ip = indep_size_problem(run, "release build, live-set profile")
        if ip:
            info["problems"].append(ip)
        rl = alloc_log(rec)
        info["records"] = len(rl)
        info["log"] = rl
        # collections after which the survivors are less than half of the survivors of the collection before
        surv = [r[4] - r[0] for r in rl if r[3]]
        info["shrinks"] = sum(1 for a, b in zip(surv, surv[1:]) if 2 * b < a and a > STATED_INIT // 2)
        if rl:
            term_ix.append(ix)
            terms.append(pacing_term(rl, c))
    vals = eval_logs(terms, 1, "C16ph" + tag)
    for ix, val in zip(term_ix, vals):
        info = infos[ix]
        rl = info.pop("log")
        if val is None or val == "BADLOG":
            info["problems"].append(("corr", "the allocation log of a live-set profile could not be replayed (coq_eval failed or malformed log)", str(val)))
            continue
        m, s, st = val.split("|")
        info["verdict"] = val
        mm = re.match(r"n=(\d+) col=(\d+) freed=(\d+) max=(\d+)", st)
        info["collections"], info["max"] = int(mm.group(2)), int(mm.group(4))
        if s != "S:OK":
            at = int(s.split("@")[1])
            last = 0
            for r in rl[:at + 1]:
                if r[3]:
                    last = r[4] - r[0]
            worst = max(rl[at:], key=lambda r: r[4])
            info["problems"].append(("violation", "live-set profile: the heap exceeds max(64 KiB, 2 x size after the previous collection) by more than the allocation in flight (release build, profile %s)" % info["pspec"]["profile"],
                                     "log record %d: size bytes_before threshold_before collected bytes_after threshold_after = %s; size after the previous collection = %d, bound = %d; largest heap later in the log = %d bytes" % (
                                         at, rl[at], last, max(STATED_INIT, STATED_GROWTH * last) + rl[at][0], worst[4])))
        if m != "M:OK":
            at, why = m.split("@")[1].split("#")
            info["problems"].append(("corr", "allocation log of a live-set profile is not a run of Pacing.v: record %s, check %s (7 = threshold_after != GROWTH * survivors)" % (at, why),
                                     "records %s" % rl[max(0, int(at) - 1):int(at) + 1]))
    for info in infos:
        info.pop("log", None)
    return infos


def report_phases(ctx, infos):
    for info in infos:
        for level, what, detail in info["problems"]:
            if level == "violation":
                if len(ctx.violations) < 5:
                    ctx.violation(what, input=render_phases(info["pspec"]), expected="(see what)", actual=detail, pspec=info["pspec"], kind="phase")
            elif len(ctx.corr_broken) < 5:
                ctx.corr_broken.append("%s | %s | profile %s" % (what, detail[:300], json.dumps(info["pspec"])))


def shrink_phase(ctx):
    """minimise the first live-set profile violation: fewer phases, top-level, no probes (at most 8 re-runs)"""
    v = next((v for v in ctx.violations if v.get("kind") == "phase"), None)
    if not v:
        return
    ps = v["pspec"]
    head = v["what"].split("(")[0]
    budget = 8
    cands = [dict(ps, wrap="top", probe=0)]
    for k in range(len(ps["phases"]) - 1):
        cands.append(dict(ps, wrap="top", probe=0, phases=ps["phases"][k:k + 2]))
    for cand in cands:
        if budget <= 0 or cand == ps:
            continue
        budget -= 1
        info = check_phases(ctx, [cand], "shrink")[0]
        hit = [(w, d) for l, w, d in info["problems"] if l == "violation" and w.split("(")[0] == head]
        if hit and len(cand["phases"]) <= len(v["pspec"]["phases"]):
            v.update({"pspec": cand, "input": render_phases(cand), "what": hit[0][0], "actual": hit[0][1]})
            if len(cand["phases"]) == 2:
                break


# ---------------------------------------------------------------------------------------------------------
# retention chains: every traced field that must be cleared when its owner is done with it
#
# Each iteration builds a leftover G from the previous leftover (global `last`) through a temporary owner T
# (a worker fiber, a call frame, a try/finally, a closed upvalue, a failed import ...); only G is kept.  If some
# traced field of G (or of something G legitimately references) still points at T after T is done, the chain
# G_n -> T_n -> G_{n-1} -> ... grows linearly although the program can reach one G only.
# Traced fields (coq/gen/GcTables.v, marks_gen) and the scenario that would leak if the field were not reset:
#   ObjFiber.caller         caller_*          (fiber finished / yielded / resumed inside another fiber, nested)
#   ObjFiber.return_value   fiber_via_finally*, fiber_upv_try_return   (return through finally blocks)
#   ObjFiber.stack          fiber_locals, fiber_caught*, fiber_looped  (frames' locals, caught values, hidden iterators)
#                           stack_finished*    (entry function's own arguments / locals of a finished fiber)
#   ObjFiber.frames         every fiber_* (popped frames' closures)
#   ObjFiber.open_upvalues  fiber_upv_*       (closed at return / block end / break / return in try / unwinding)
#   ObjUpvalue.next         upv_next, upv_next_three, upv_next_rev, upv_next_block
#   ObjUpvalue.owner        upv_owner, upv_owner_yield
#   ObjUpvalue.closed value covered by the fragments (closure / counter)
#   ObjHashMap / ObjVec / ObjInstance slots   map_churn, vec_churn, field_overwrite
#   ObjBoundMethod.receiver bound_dropped
#   Vm.modules              import_* (a failed import is dropped when the same path is imported again; compile errors
#                           and missing files register nothing)
#   Vm.range_cache          range fragments + check_range_cases
#   iterators' iterable, ObjClosure.module, class_store, intern table, chunks: held for the holder's / Vm's lifetime
#   by design; Vm.working_class_def, Vm.fiber, main fiber's return_value: single slots, O(1), cannot grow with N.
CHAIN_PRE = """#[constructor(new)] class A { fn m(self) { return self; } fn get(self) { return self.x; } }
var last = nil;
var cleanups = 0;
fn via_finally(x) { try { return x; } finally { cleanups = cleanups + 1; } }
fn via_finally2(x) { try { try { return (x, 1); } finally { cleanups = cleanups + 1; } } finally { cleanups = cleanups + 1; } }
fn via_finally_loop(x) { for q in [1, 2] { try { return [x, q]; } finally { cleanups = cleanups + 1; } } }
fn locals(x) { var a = [x]; var b = (x, 1); var o = A.new(); o.x = a; o.get(); return 0; }
fn caught(x) { try { throw [x]; } catch e { var z = (e, 1); } return 0; }
fn thrower(x) { var l = [x]; throw l; }
fn caught_deep(x) { try { thrower(x); } catch e { } return 0; }
fn caught_finally(x) { try { try { thrower(x); } finally { cleanups = cleanups + 1; } } catch e { } return 0; }
fn looped(x) { for y in [x, x] { var w = [y]; } for y in (x, 1) { if true { break; } } for y in {1: x}.values() { continue; } return 0; }
fn upv_return(x) { var a = [x]; var c = || a; c(); return 0; }
fn upv_block(x) { { var a = [x]; var c = || a; c(); } return 0; }
fn upv_break(x) { while true { var a = [x]; var c = || a; c(); break; } return 0; }
fn upv_try_return(x) { try { var a = [x]; var c = || a; return c(); } finally { cleanups = cleanups + 1; } }
fn upv_throw(x) { var a = [x]; var c = || a; throw c; }
fn upv_caught(x) { try { upv_throw(x); } catch e { } return 0; }
"""
FIBER_WORK = ["via_finally", "via_finally2", "via_finally_loop", "locals", "caught", "caught_deep", "caught_finally", "looped",
              "upv_return", "upv_block", "upv_break", "upv_try_return", "upv_caught"]
CHAINS = {
    "caller_finished": "var prev = last; var worker = Fiber.new(|| { var seen = prev; var helper = Fiber.new(|| 1); helper.call(); return helper; }); last = worker.call();",
    "caller_finished_arg": "var worker = Fiber.new(|p| { var helper = Fiber.new(|q| [q]); helper.call(1); return helper; }); last = worker.call(last);",
    "caller_yielded": "var worker = Fiber.new(|p| { var helper = Fiber.new(|| { Fiber.yield(1); return 2; }); helper.call(); return helper; }); last = worker.call(last);",
    "caller_resumed": "var worker = Fiber.new(|p| { var helper = Fiber.new(|| { Fiber.yield(1); return 2; }); helper.call(); return helper; }); last = worker.call(last); last.call();",
    "caller_twice": "var worker = Fiber.new(|p| { var helper = Fiber.new(|| { Fiber.yield(1); return 2; }); helper.call(); helper.call(); return helper; }); last = worker.call(last);",
    "caller_nested": "var worker = Fiber.new(|p| { var mid = Fiber.new(|| { var helper = Fiber.new(|| 1); helper.call(); return helper; }); return mid.call(); }); last = worker.call(last);",
    "caller_mid_kept": "var worker = Fiber.new(|p| { var mid = Fiber.new(|| { var helper = Fiber.new(|| 1); helper.call(); return 0; }); mid.call(); return mid; }); last = worker.call(last);",
    "caller_in_instance": "var worker = Fiber.new(|p| { var helper = Fiber.new(|| 1); helper.call(); var o = A.new(); o.x = helper; return o; }); last = worker.call(last);",
    "upv_next_rev": "fn mk(p) { var b = i; var cb = || b; var a = [p]; var ca = || a; ca(); return cb; } last = mk(last);",
    "upv_next_block": "fn mk(p) { var b = i; var cb = || b; { var a = [p]; var ca = || a; ca(); } return cb; } last = mk(last);",
    "upv_owner": "var worker = Fiber.new(|p| { var a = [p]; var n = 0; var cb = || n; return cb; }); last = worker.call(last);",
    "upv_owner_yield": "var worker = Fiber.new(|p| { var a = [p]; { var n = 0; var cb = || n; Fiber.yield(cb); } return 0; }); last = worker.call(last); worker.call();",
    "map_churn": "if last == nil { last = {}; } last.insert(i, [i]); last.remove(i - 1);",
    "vec_churn": "if last == nil { last = []; } last.push([i]); last.push([i]); last.pop(); if i % 4 == 3 { while last.len() > 0 { last.pop(); } }",
    "field_overwrite": "if last == nil { last = A.new(); last.x = nil; } last.x = [i, last.x == nil];",
    "bound_dropped": "var o = A.new(); o.x = last; var bm = o.get; bm(); last = A.new();",
    "retval_finally_main": "var h = [last]; via_finally(h); via_finally2(h); last = [i];",
    "import_throwing": "try { import \"throwing_mod\" as m; } catch e { last = [i]; }",
    "import_broken": "try { import \"broken_mod\" as m; } catch e { last = [i]; }",
    "import_missing": "try { import \"missing_mod\" as m; } catch e { last = [i]; }",
    "import_fine": "import \"fine_mod\" as m; last = [m.f()];",
}
for _w in FIBER_WORK:
    CHAINS["fiber_" + _w] = "var f = Fiber.new(|| { %s(last); return nil; }); f.call(); last = f;" % _w
    CHAINS["fiber_yield_" + _w] = "var f = Fiber.new(|| { %s(last); Fiber.yield(1); return nil; }); f.call(); last = f;" % _w
    CHAINS["nested_" + _w] = ("var worker = Fiber.new(|p| { var f = Fiber.new(|| { %s(last); return nil; }); f.call(); return f; }); "
                              "last = worker.call(0);" % _w)
# two scenarios that leaked until /repo 233c738 (ObjUpvalue.next of a closed upvalue) and ff9ec03 (stack of a finished
# fiber): ordinary checks now, a recurrence is a VIOLATION
CHAINS["stack_finished"] = "var f = Fiber.new(|p| { var a = [p]; return 7; }); f.call(last); last = f;"
CHAINS["stack_finished_locals"] = "var f = Fiber.new(|p| { var a = [p]; var b = (p, 1); var c = || a; return nil; }); f.call(last); last = f;"
CHAINS["stack_finished_nested"] = ("var worker = Fiber.new(|p| { var f = Fiber.new(|q| { var a = [q]; return 7; }); f.call(p); return f; }); "
                                   "last = worker.call(last);")
CHAINS["upv_next"] = "fn mk(p) { var a = [p]; var ca = || a; var b = i; var cb = || b; ca(); return cb; } last = mk(last);"
CHAINS["upv_next_three"] = ("fn mk(p) { var a = [p]; var ca = || a; var m = (p, 1); var cm = || m; var b = i; var cb = || b; ca(); cm(); return cb; } "
                            "last = mk(last);")


# ---- hand-outs (round 7) ----------------------------------------------------------------------------------------
# The scenarios above let the temporary owner T (the worker fiber) FINISH - its stack is truncated then - or keep T itself
# as the leftover.  Never built before: T hands a product G out and is then abandoned in some OTHER state (suspended at a
# yield - at the top of its entry function, inside a call, inside try/finally, inside a for loop -, resumed and suspended
# again, ended by an uncaught throw), with the previous leftover still on its stack (argument, local, captured by a
# still-open closure, instance field).  While T is garbage that is fine; any traced edge from G back to T (a closed upvalue
# that still names its owner fiber, a helper fiber that still names its caller, an iterator or bound method naming the
# frame ...) makes G_n -> T_n -> G_{n-1} -> ... grow although one G is reachable.
# Product makers: every variable a product captures is CLOSED before T stops (an open captured variable legitimately
# keeps the fiber whose stack holds it).
HANDOUT_MAKE = {
    "block": "var c = nil; { var x = i; c = || x; }",
    "block_two": "var c = nil; { var x = i; var y = [i]; c = || (x, y); }",
    "block_shared": "var c = nil; { var x = i; var c1 = || x; var c2 = || { x = x + 1; return x; }; c2(); c = (c1, c2); }",
    "block_nested": "var c = nil; { var x = i; var inner = || x; c = || inner; }",
    "block_in_block": "var c = nil; { var x = i; { var y = (x, 1); c = || (x, y); } }",
    "fn_return": "var c = mk_counter(i); c();",
    "fn_finally": "var c = fin_closure(i);",
    "fn_deep": "var c = deep_closure(i, 3);",
    "loop_var": "var c = nil; for x in [i, i] { c = || x; }",
    "while_break": "var c = nil; while true { var x = i; c = || x; break; }",
    "loop_continue": "var c = nil; var k = 0; while k < 2 { k = k + 1; var x = (i, k); c = || x; continue; }",
    "caught": "var c = nil; try { var x = i; c = || x; throw 1; } catch e { }",
    "caught_deep": "var c = nil; try { throw_closure(i); } catch e { c = e; }",
    "method_closure": "var c = Maker.new().make(i);",
    "in_instance": "var c = A.new(); { var x = i; c.x = || x; }",
    "in_map": "var c = {}; { var x = i; c.insert(1, || x); }",
    "helper_done": "var c = Fiber.new(|| 1); c.call();",
    "helper_yielded": "var c = Fiber.new(|| { Fiber.yield(1); return 2; }); c.call();",
    "helper_made": "var h = Fiber.new(|| { var x = i; return || x; }); var c = h.call();",
    "helper_made_yield": "var h = Fiber.new(|q| { var c2 = nil; { var x = i; c2 = || x; } Fiber.yield(c2); return q; }); var c = h.call(p);",
    "bound": "var o = A.new(); o.x = i; var c = o.get;",
    "bound_native": "var c = [i].push;",
    "iterator": "var c = [i, i].iter();",
    "plain": "var c = [i];",
}
# where the previous leftover (argument p of T) sits while T is abandoned
HANDOUT_HOLD = {
    "arg": "",
    "local": "var a = [p];",
    "open_capture": "var a = [p]; var ka = || a; ka();",
    "field": "var ho = A.new(); ho.x = p;",
}
# how T stops (statement after the maker, driver run by the main program)
HANDOUT_END = {
    "return": ("return c;", "last = worker.call(last);"),
    "yield_abandon": ("Fiber.yield(c); return p;", "last = worker.call(last);"),
    "yield_resume": ("Fiber.yield(c); return p;", "last = worker.call(last); worker.call();"),
    "yield_twice_abandon": ("Fiber.yield(c); Fiber.yield(0); return p;", "last = worker.call(last); worker.call();"),
    "yield_in_call": ("yield_deep(c); return p;", "last = worker.call(last);"),
    "yield_in_try": ("try { Fiber.yield(c); } finally { cleanups = cleanups + 1; } return p;", "last = worker.call(last);"),
    "yield_in_loop": ("for q in [1, 2] { Fiber.yield(c); } return p;", "last = worker.call(last);"),
    "yield_in_block": ("{ var z = [c]; Fiber.yield(c); } return p;", "last = worker.call(last);"),
    "yield_in_catch": ("try { throw c; } catch e { Fiber.yield(e); } return p;", "last = worker.call(last);"),
    "yield_in_catch_deep": ("try { thrower_of(c); } catch e { Fiber.yield(e); } return p;", "last = worker.call(last);"),
}
HANDOUT_PRE = """fn mk_counter(n) { var k = n; return || { k = k + 1; return k; }; }
fn fin_closure(n) { try { var x = n; return || x; } finally { cleanups = cleanups + 1; } }
fn deep_closure(n, d) { if d == 0 { var x = n; return || x; } var pad = [d]; return deep_closure(n, d - 1); }
fn throw_closure(n) { var x = n; var c = || x; throw c; }
fn thrower_of(c) { var l = [c]; throw c; }
fn yield_deep(c) { var l = [c]; Fiber.yield(c); return 0; }
#[constructor(new)] class Maker { fn make(self, n) { var x = n; return || x; } }
"""


def handout_body(make, hold, end, nest=0):
    stop, drive = HANDOUT_END[end]
    body = "var worker = Fiber.new(|p| { %s %s %s });" % (HANDOUT_HOLD[hold], HANDOUT_MAKE[make], stop)
    if not nest:
        return body + " " + drive
    # the same inside an outer fiber that finishes: the product travels out through one more transfer
    inner = drive.replace("last = worker.call(last);", "res = worker.call(pp);")
    return "var outer = Fiber.new(|pp| { var res = nil; %s %s return res; }); last = outer.call(last);" % (body, inner)


def handout_fixed():
    """every maker with the abandoned-suspended ending, every ending and every holder with the block-closure maker, nested forms"""
    out = {}
    for m in sorted(HANDOUT_MAKE):
        out["handout_%s_yield_abandon_arg" % m] = handout_body(m, "arg", "yield_abandon")
    for e in sorted(HANDOUT_END):
        for h in sorted(HANDOUT_HOLD):
            out["handout_block_%s_%s" % (e, h)] = handout_body("block", h, e)
    for m in ("block", "helper_yielded", "fn_return"):
        for e in ("yield_abandon", "yield_in_catch", "return"):
            out["handout_nested_%s_%s" % (m, e)] = handout_body(m, "local", e, nest=1)
    return out


def gen_handout(rng):
    return handout_body(rng.choice(sorted(HANDOUT_MAKE)), rng.choice(sorted(HANDOUT_HOLD)), rng.choice(sorted(HANDOUT_END)), nest=rng.choice([0, 0, 1]))


def chain_program(body, n):
    return CHAIN_PRE + HANDOUT_PRE + "var i = 0;\nwhile i < %d {\n    %s\n    i = i + 1;\n}\nprint(i);\n" % (n, body)


def chain_unrolled(kind, n):
    """n DISTINCT failing imports (a loop cannot vary the path): nothing may stay registered"""
    return "var k = 0;\n" + "".join('try { import "%s_%d" as m; } catch e { k = k + 1; }\n' % (kind, j) for j in range(n)) + "print(k);\n"


def gen_chain(rng):
    """random composition: 1-3 work functions inside a fiber that finishes or yields, at nesting depth 0-3"""
    works = [rng.choice(FIBER_WORK) for _ in range(rng.randint(1, 3))]
    inner = "".join("%s(last); " % w for w in works)
    tail = rng.choice(["return nil;", "Fiber.yield(1); return nil;", "return 7;"])
    depth = rng.randint(0, 3)
    if depth == 0:
        return "var f = Fiber.new(|| { %s%s }); f.call(); last = f;" % (inner, tail)
    code = "var f = Fiber.new(|| { %s%s }); f.call(); return f;" % (inner, tail)
    for _ in range(depth - 1):
        code = "var w = Fiber.new(|| { %s }); return w.call();" % code
    return "var worker = Fiber.new(|p| { %s }); last = worker.call(0);" % code


def check_chains(ctx, quick, extra, only=None):
    """N/2N retention for the chain scenarios, release and debug; returns (#runs, #scenarios)"""
    cases = []   # (name, known_class, maker(n))
    if only:
        cases.append((only["name"], only.get("class"), (lambda n, b=only["body"], u=only.get("unrolled"): chain_unrolled(u, n) if u else chain_program(b, n))))
    else:
        for nm in sorted(CHAINS):
            cases.append((nm, None, (lambda n, b=CHAINS[nm]: chain_program(b, n))))
        for nm, body in sorted(handout_fixed().items()):
            cases.append((nm, None, (lambda n, b=body: chain_program(b, n))))
        for kind in ("broken", "missing"):
            cases.append(("unrolled_import_" + kind, None, (lambda n, k=kind: chain_unrolled(k, n))))
        for j, body in enumerate(extra):
            cases.append(("random_%d" % j, None, (lambda n, b=body: chain_program(b, n))))
    nruns = 0
    all_cases = cases
    # quick tier: the debug build (same collector, collects at every allocation, slow) runs half of the fixed hand-out grid, drawn per seed
    hand = [c[0] for c in all_cases if c[0].startswith("handout_")]
    skip_dbg = set(ctx.rng.sample(hand, len(hand) // 2)) if (quick and not only and hand) else set()
    for build, binary, (a, b) in (("release", ctx.harness("release"), (60, 120)), ("debug", ctx.harness("debug"), (12, 24))):
        cases = [c for c in all_cases if not (build == "debug" and c[0] in skip_dbg)]
        lines = []
        for nm, cls, mk in cases:
            lines += ["c16 dropvm=1 " + hx(mk(a)), "c16 dropvm=1 " + hx(mk(b))]
        recs = yvlib.run_harness(binary, lines, case_timeout_ms=30000)
        nruns += len(lines)
        for ix, (nm, cls, mk) in enumerate(cases):
            ra, rb = Run(recs[2 * ix]), Run(recs[2 * ix + 1])
            extra_kw = {"kind": "chain", "name": nm, "body": None, "class": cls}
            if nm.startswith("unrolled_import_"):
                extra_kw["unrolled"] = nm[len("unrolled_import_"):]
            else:
                extra_kw["body"] = mk(0).split("while i < 0 {\n    ")[1].split("\n    i = i + 1;")[0]
            what = detail = None
            if not (ra.ok and rb.ok):
                bad = ra if not ra.ok else rb
                what, detail = "the chain program did not run to completion (%s build)" % build, "%s %s" % (bad.rec.result, bad.rec.messages[:2])
            else:
                ka, kb = counted(ra.K), counted(rb.K)
                if ka != kb:
                    diff = {k: (ka.get(k, 0), kb.get(k, 0)) for k in set(ka) | set(kb) if ka.get(k, 0) != kb.get(k, 0)}
                    what = "a leftover pins what built it: objects left behind grow with the iteration count although one leftover is reachable (%s build, %d vs %d iterations, scenario %s)" % (build, a, b, nm)
                    detail = "kind: (count after N, after 2N) = %s" % short(diff)
                elif (ra.D and (ra.D[0] or ra.D[2])) or (rb.D and (rb.D[0] or rb.D[2])):
                    what, detail = "boxes survive dropping the Vm and collecting (%s build, scenario %s)" % (build, nm), "objects, bytes, rooted = %s / %s" % (ra.D, rb.D)
            if not what:
                continue
            if len([v for v in ctx.violations if not v.get("known_class")]) < 5:
                ctx.violation(what, input=mk(a), expected="equal counts by kind", actual=detail, **extra_kw)
    return nruns, len(all_cases)


def run(ctx):
    quick = ctx.quick()
    rng = ctx.rng
    c = consts()
    if ctx.replay_only:
        v = ctx.replay_only
        if v.get("kind") == "range":
            check_range_cases(ctx, [[tuple(x) for x in v["reqs"]]], "replay")
        elif v.get("spec"):
            report(ctx, check_programs(ctx, [v["spec"]], quick, "replay"))
        elif v.get("kind") == "repl":
            check_repl(ctx, only=v["snippet"])
        elif v.get("kind") == "boundcycle":
            bound_method_cycle(ctx)
        elif v.get("kind") == "chain":
            check_chains(ctx, quick, [], only=v)
        elif v.get("kind") == "phase":
            report_phases(ctx, check_phases(ctx, [v["pspec"]], "replay"))
        ctx.cov.update({"evaluations": 1, "distinct_nontrivial": 0, "rule": "replay of one recorded case", "samples": [v.get("input", "")[:2000]]})
        return
    if (c.get("HEAP_GROWTH_FACTOR"), c.get("HEAP_INIT_BYTES_MAX")) != (STATED_GROWTH, STATED_INIT):
        ctx.notes.append("constants in common.rs (%s, %s) differ from the property text (2, 65536): the bound is checked with the stated ones" % (
            c.get("HEAP_GROWTH_FACTOR"), c.get("HEAP_INIT_BYTES_MAX")))
    nprog = 40 if quick else 200
    cycle_ok = bound_method_cycle(ctx)
    specs = []
    # every fragment alone once (kept in a ring when it can be), then random combinations
    singles = [{"frags": [f[0]], "kept": [f[0]] if f[2] else [], "ring": 5 if f[2] else 0, "wrap": WRAPS[i % len(WRAPS)],
                "ballast": [0, 1500, 0, 300][i % 4], "probe": [0, 7][i % 2]} for i, f in enumerate(FRAGS)]
    if quick:
        singles = rng.sample(singles, 10)
    specs = singles + [gen_spec(rng, quick) for _ in range(nprog - len(singles))]
    if not cycle_ok:
        # the collector would hang on these (known class gc_bound_method_regrey): keep them out of the loop bodies
        for sp in specs:
            sp["frags"] = [f for f in sp["frags"] if not f.startswith("boundcycle")] or ["vec2"]
            sp["kept"] = [k for k in sp["kept"] if k in sp["frags"]]
    # one program with a large live set: the threshold follows 2 x survivors well above the initial budget
    specs.append({"frags": ["vec2", "tuple", "inst"], "kept": [], "ring": 0, "wrap": "top", "ballast": 4000, "probe": 50})
    results = check_programs(ctx, specs, quick, "loops")
    report(ctx, results)
    import time
    tl = time.time()
    lspecs = gen_live_specs(rng, "quick" if quick else "thorough")
    lresults = check_live_shapes(ctx, lspecs, quick, "live")
    report(ctx, lresults)
    log("[C16] %d live-shape programs: %.1fs" % (len(lspecs), time.time() - tl))
    shrink_first(ctx, quick)
    rcases = [gen_range_case(rng) for _ in range(30 if quick else 400)]
    evict = check_range_cases(ctx, rcases, "cases")
    nrepl = check_repl(ctx)
    nrunlog = check_run_logs(ctx, specs[len(singles):len(singles) + (4 if quick else 16)], quick)
    import time
    t0 = time.time()
    rchains = [gen_chain(rng) for _ in range(12 if quick else 80)] + [gen_handout(rng) for _ in range(16 if quick else 120)]
    nchain_runs, nchains = check_chains(ctx, quick, rchains)
    t1 = time.time()
    # live-set profiles: 3 of the 8 profile shapes (quick) / each shape three times (thorough)
    pspecs = [gen_phase_spec(rng, p) for p in (rng.sample(PHASE_PROFILES, 3) if quick else PHASE_PROFILES * 3)]
    pinfos = check_phases(ctx, pspecs, "profiles")
    report_phases(ctx, pinfos)
    shrink_phase(ctx)
    log("[C16] %d chain scenarios (%d runs): %.1fs; %d live-set profiles (%d log records): %.1fs" % (
        nchains, nchain_runs, t1 - t0, len(pspecs), sum(i["records"] for i in pinfos), time.time() - t1))
    flat = [i["pspec"]["profile"] for i in pinfos if not i["problems"] and i.get("verdict") and not i["shrinks"]]
    if flat:
        ctx.notes.append("live-set profiles without a collection whose survivors fell below half of the previous survivors (object sizes changed? "
                         "re-measure PHASE_BYTES): %s" % flat)
    nontriv = {render(r["spec"], 0) for r in results if r["nontrivial"]}
    trivial = sum(1 for r in results if r.get("trivial"))
    from collections import Counter
    fr = Counter(f for r in results for f in r["spec"]["frags"])
    ctx.cov.update({
        "evaluations": 4 * len(specs) + 4 * len(lspecs) + len(rcases) + 1 + nrepl + nrunlog + nchain_runs + len(pspecs),
        "profile_programs": len(pspecs), "profile_shapes": dict(Counter(i["pspec"]["profile"] for i in pinfos)),
        "profile_log_records_replayed": sum(i["records"] for i in pinfos), "profile_paced_collections": sum(i["collections"] for i in pinfos),
        "profile_collections_after_live_set_halved": sum(i["shrinks"] for i in pinfos), "profile_max_heap_bytes": max([i["max"] for i in pinfos] + [0]),
        "live_shape_programs": len(lspecs), "live_shapes": sorted({live_name(r["spec"]["live"]) for r in lresults}),
        "live_shape_max_live_boxes_after_run": max([r.get("nobj", 0) for r in lresults] + [0]),
        "live_shape_paced_collections": sum(r["collections"] for r in lresults), "live_shape_log_records_replayed": sum(r["records"] for r in lresults),
        "handout_scenarios_fixed": len(handout_fixed()),
        "live_boxes_of_a_kind_unknown_to_the_harness_size_table_max": UNKNOWN_KIND_BOXES[0],
        "chain_scenarios": nchains, "chain_runs": nchain_runs,
        "repl_histories": nrepl, "run_log_replays": nrunlog,
        "distinct_nontrivial": len(nontriv),
        "rule": "loop programs = random subsets of %d allocation fragments (vectors, tuples, maps, strings, closures, instances, bound methods, iterators, "
                "ranges, finished/suspended/nested fibers, exceptions, class/function definitions, cycles), optionally kept in a ring of bounded live data, "
                "wrapped as top-level loop / function / method / fiber / closure, optional ballast of live vectors; each run in release for N and 2N and in "
                "debug for n and 2n iterations.  Non-trivial = distinct program whose release allocation log contains at least one PACED collection "
                "that freed > 0 bytes (measured from the log replayed in Coq)" % len(FRAGS),
        "traces_validated_against_impl": sum(1 for r in results if r.get("verdict")),
        "samples": [render(specs[len(singles)], sizes(quick)["rel"][0]), {"range_requests": rcases[0]},
                    {"verdicts": [r.get("verdict") for r in results[:3]]}, {"chain_body": rchains[0]}, {"chain_body": CHAINS["caller_finished"]},
                    {"handout_body": rchains[-1]}, {"profile": pspecs[0], "verdict": pinfos[0].get("verdict")}],
        "programs": len(specs), "iterations": sizes(quick), "log_records_replayed": sum(r["records"] for r in results),
        "paced_collections_in_logs": sum(r["collections"] for r in results), "bytes_freed_in_logs": sum(r["freed"] for r in results),
        "programs_without_paced_collection_at_2N": trivial,
        "fragment_use": dict(fr), "wraps": dict(Counter(r["spec"]["wrap"] for r in results)),
        "ballast": dict(Counter(str(r["spec"]["ballast"]) for r in results)), "ring": dict(Counter(str(r["spec"]["ring"]) for r in results)),
        "range_cases": len(rcases), "range_cases_with_eviction": evict, "bound_method_cycle_completes": cycle_ok,
        "max_heap_bytes_seen": max([r.get("max", 0) for r in results] + [0]),
    })


def search(ctx):
    """obligations broken: thorough generators, biased to large live sets (the factor matters above the initial budget)"""
    old = ctx.tier
    ctx.tier = "thorough"
    try:
        rng = ctx.rng
        # directed first (round 9): the shape of the live set as a scale dimension, the largest rungs first, whole ladder
        lres = check_live_shapes(ctx, gen_live_specs(rng, "search"), False, "searchlive", stop_after=3)
        report(ctx, lres)
        if len(ctx.violations) >= 3:
            shrink_first(ctx, False)
            return
        # live-set profiles (every shape twice): pacing rules that differ from 2 x survivors only when the
        # survivors shrink, floors, ratchets; accounting drift shows at their probes and on the empty heap
        pinfos = check_phases(ctx, [gen_phase_spec(rng, p) for p in PHASE_PROFILES * 2], "search")
        report_phases(ctx, pinfos)
        shrink_phase(ctx)
        if len(ctx.violations) >= 3:
            return
        specs = [dict(gen_spec(rng, False), ballast=rng.choice([1500, 4000])) for _ in range(32)]
        results = check_programs(ctx, specs, False, "search")
        report(ctx, results)
        if not ctx.violations:
            check_range_cases(ctx, [gen_range_case(rng) for _ in range(100)], "search")
        if not ctx.violations:
            check_chains(ctx, False, [gen_chain(rng) for _ in range(80)] + [gen_handout(rng) for _ in range(120)])
        shrink_first(ctx, False)
    finally:
        ctx.tier = old
