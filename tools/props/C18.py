"""C18 - iteration is uniform over built-in and user-defined iterables.

Theorems (coq/props/C18.v over IterModel/IterSpec/IterLang/IterProofs): the native cursors enumerate the
elements and then give the sentinel for ever, MapIter/FilterIter/collect/reduce equal List.map/filter/fold_left
on the elements, iterators are independent, index-based semantics under mutation, the for protocol visits the
elements and leaves the stack of hidden locals as it found it.
Tie: programs of the mini-language IterLang (wire-encoded AST) are rendered to yarel BY THE COQ SIDE, run on the
real VM under the harness `trace` command (hook H4) and compared
  impl == M  printed lines vs IterLang.eval_mech, and the height of the VM stack at the `nil;` markers placed
             before / after every loop vs the model's stack of hidden locals;
  impl == S  printed lines vs IterLang.eval_spec (elements + List.map/filter/fold_left), wherever the Spec
             determines the outcome."""
import os
import re
import time

import yvlib
from yvlib import hx

LEVEL = "proof"
TRUSTED = [
    "Coq 8.16.1 kernel (coqc), vm_compute; no native_compute, no extraction",
    "IterLang.render (Gallina): the yarel text of a mini-language program, incl. the prelude (user classes "
    "Script/Count/Forever/MyStop and the total helpers addk/mulk/tag/iseven/gtk/plus/sh/pv)",
    "hook H4 (vm.rs verif_trace) and the harness `yv` (Rust), tools/*.py (Python)",
    "modelled, not verified: values restricted to small integers, strings, nil, StopIter / subclass instances; "
    "isize wrap-around of the range cursor; Rust Vec/RefCell semantics",
]
ASSUMPTIONS = [
    "numbers in generated programs are small integers (printing via Rust `{}` is then show_Z); MulK only with k > 0",
    "the `nil;` statement compiles to Nil;Pop and nothing else in the generated programs does (marker detection)",
]

CASE_TIMEOUT_MS = 4000     # a generated program runs for milliseconds; an endless loop in a mutant costs this much
TRACE_LIMIT = 60000        # trace records kept per program (generated programs stay below ~15000)
EARLY_STOP = 12            # violations in the first batch after which the rest of the run is skipped
TIMING = {}
PROFILE = ["release"]   # quick: release build; thorough: debug build (collects at every allocation)

# ------------------------------------------------------------------------------------------
# wire encoding (see IterLang.p_prog)


OKINDS = ["deck", "bag", "vbag", "chained", "scaled", "limited", "counted", "fielditer"]
WRAPPED = ["scaled", "limited", "counted"]


def Z(z):
    return z + 1000


def w_bytes(bs):
    return [len(bs)] + list(bs)


def w_value(v):
    if isinstance(v, bool):
        raise ValueError
    if isinstance(v, int):
        return [0, Z(v)]
    if isinstance(v, str):
        return [1] + w_bytes(v.encode("utf-8"))
    if v is None:
        return [2]
    if v == ("stop",):
        return [3]
    if v == ("sub",):
        return [4]
    raise ValueError(v)


def w_vlist(vs):
    out = [len(vs)]
    for v in vs:
        out += w_value(v)
    return out


def w_fn(f):
    k = f[0]
    if k == "add":
        return [0, Z(f[1])]
    if k == "mul":
        return [1, Z(f[1])]
    if k == "const":
        return [3, Z(f[1])]
    if k == "press":
        return [4, Z(f[1]), f[2]]
    if k == "deepfn":
        return [5, f[1], Z(f[2])]
    return [2] + w_bytes(f[1].encode("utf-8"))


def w_pr(p):
    k = p[0]
    if k == "even":
        return [0]
    if k == "gt":
        return [1, Z(p[1])]
    if k == "ne":
        return [2] + w_value(p[1])
    if k == "true":
        return [3]
    if k == "notin":
        return [5, Z(p[1]), Z(p[2])]
    return [4]


def w_iexp(e):
    k = e[0]
    if k == "vec":
        return [0] + w_vlist(e[1])
    if k == "tup":
        return [1] + w_vlist(e[1])
    if k == "range":
        return [2, Z(e[1]), Z(e[2])]
    if k == "str":
        return [3] + w_bytes(e[1].encode("utf-8"))
    if k == "script":
        return [4] + w_vlist(e[1])
    if k == "count":
        return [5, Z(e[1]), Z(e[2])]
    if k == "forever":
        return [6, Z(e[1])]
    if k == "wvar":
        return [7, e[1]]
    if k == "slot":
        return [8, e[1]]
    if k == "obj":
        return [11, e[1]]
    if k == "rvar":
        return [12, e[1], e[2]]
    if k == "map":
        return [9] + w_fn(e[1]) + w_iexp(e[2])
    if k == "filter":
        return [10] + w_pr(e[1]) + w_iexp(e[2])
    raise ValueError(e)


def w_block(ss):
    out = [len(ss)]
    for s in ss:
        out += w_stmt(s)
    return out


def w_stmt(s):
    k = s[0]
    if k == "pvar":
        return [0, s[1]]
    if k == "plit":
        return [1, Z(s[1])]
    if k == "for":
        return [2] + w_iexp(s[1]) + w_block(s[2])
    if k == "if":
        return [3, s[1], s[2]] + w_block(s[3])
    if k == "break":
        return [4]
    if k == "continue":
        return [5]
    if k == "return":
        return [6]
    if k == "let":
        return [7, s[1]] + w_iexp(s[2])
    if k == "next":
        return [8, s[1]]
    if k == "push":
        return [9, s[1]] + w_value(s[2])
    if k == "pop":
        return [10, s[1]]
    if k == "setvec":
        return [11, s[1]] + w_vlist(s[2])
    if k == "collect":
        return [12] + w_iexp(s[1])
    if k == "reduce":
        return [13, 0 if s[1] == "sum" else 1] + w_value(s[2]) + w_iexp(s[3])
    if k == "obj":
        return [14, s[1], OKINDS.index(s[2])] + w_vlist(s[3]) + [Z(s[4])]
    if k == "range":
        return [15, s[1], s[2], Z(s[3]), Z(s[4])]
    if k == "press":
        return [16, Z(s[1]), s[2]]
    if k == "pcalls":
        return [17, s[1]]
    if k == "pcnt":
        return [18, s[1]]
    if k == "descend":
        return [19, s[1]] + w_block(s[2])
    raise ValueError(s)


def w_prog(fun, loc, direct, fuel, body):
    return " ".join(str(x) for x in [int(fun), int(loc), int(direct), int(fuel), len(body)] + [t for s in body for t in w_stmt(s)])


def wire_of(p):
    return w_prog(p["fun"], p["loc"], p.get("dir", False), p.get("fuel", 150), p["body"])


# ------------------------------------------------------------------------------------------
# static facts about a program (for the coverage rule)


def walk(ss):
    for s in ss:
        yield s
        if s[0] == "for":
            yield from walk(s[2])
        elif s[0] == "if":
            yield from walk(s[3])
        elif s[0] == "descend":
            yield from walk(s[2])


def has(ss, kind):
    return any(s[0] == kind for s in walk(ss))


def iexps(ss):
    for s in walk(ss):
        if s[0] in ("for", "collect"):
            yield s[1]
        elif s[0] == "let":
            yield s[2]
        elif s[0] == "reduce":
            yield s[3]


def chain_depth(e):
    d = 0
    while e[0] in ("map", "filter"):
        d += 1
        e = e[2]
    return d


def base_of(e):
    while e[0] in ("map", "filter"):
        e = e[2]
    return e


def base_len(e, vecs):
    e = base_of(e)
    k = e[0]
    if k in ("vec", "tup", "script"):
        return len(e[1])
    if k == "range":
        return abs(e[1] - e[2])
    if k == "str":
        return len(e[1])
    if k == "count":
        return max(0, e[2] - e[1])
    if k == "forever":
        return 99
    if k == "wvar":
        return vecs.get(e[1], 0)
    if k == "obj":
        return vecs.get(("obj", e[1]), 0)
    if k == "rvar":
        return vecs.get(("rvar", e[1]), 0)
    return 2  # slot: whatever it was bound to


def loop_nesting(ss):
    best = 0
    for s in ss:
        if s[0] == "for":
            best = max(best, 1 + loop_nesting(s[2]))
        elif s[0] == "if":
            best = max(best, loop_nesting(s[3]))
        elif s[0] == "descend":
            best = max(best, loop_nesting(s[2]))
    return best


def facts(body):
    vecs = {}
    for s in walk(body):
        if s[0] == "setvec":
            vecs[s[1]] = max(vecs.get(s[1], 0), len(s[2]))
        if s[0] == "obj":
            vecs[("obj", s[1])] = max(vecs.get(("obj", s[1]), 0), len(s[3]))
        if s[0] == "range":
            vecs[("rvar", s[1])] = max(vecs.get(("rvar", s[1]), 0), abs(s[3] - s[4]))
    es = list(iexps(body))
    return {
        "chain": max([chain_depth(e) for e in es] or [0]),
        "nest": loop_nesting(body),
        "elems": max([base_len(e, vecs) for e in es] or [0]),
        "kinds": sorted({base_of(e)[0] for e in es}),
        "sub": any(("sub",) in base_of(e)[1] for e in es if base_of(e)[0] == "script"),
        "break": has(body, "break"),
    }


# ------------------------------------------------------------------------------------------
# generators

NUMS = [-3, -1, 0, 1, 2, 3, 4, 5, 7, 10, 12]
ASCII = ["a", "b", "z", "0", " ", "\x7f"]
WORDS = ["a", "ab", "é", "x€", "😀", "", "yo"]

# ---- the string alphabet: the table of well-formed UTF-8 byte sequences (Unicode 3.9 table 3-7 / RFC 3629), one
# row per (lead-byte range, constraint on the second byte); the two-byte row C2..DF is split by the lead byte's high
# nibble.  Every string the generators build draws its characters from EVERY row, and the directed stream `utf8`
# walks every single lead byte (0xC2..0xF4) with the smallest / largest / two inner continuation patterns.
UTF8_CLASSES = [
    ("00-7F", 0x20, 0x7F), ("C2-CF", 0x80, 0x3FF), ("D0-DF", 0x400, 0x7FF), ("E0", 0x800, 0xFFF),
    ("E1-EC", 0x1000, 0xCFFF), ("ED", 0xD000, 0xD7FF), ("EE-EF", 0xE000, 0xFFFF), ("F0", 0x10000, 0x3FFFF),
    ("F1-F3", 0x40000, 0xFFFFF), ("F4", 0x100000, 0x10FFFF)]
# neighbours across every boundary where the encoded width or the second-byte constraint changes
BOUNDARY_CPS = [0x7F, 0x80, 0x3FF, 0x400, 0x7FF, 0x800, 0xFFF, 0x1000, 0xCFFF, 0xD000, 0xD7FF, 0xE000, 0xFFFF, 0x10000,
                0x3FFFF, 0x40000, 0xFFFFF, 0x100000, 0x10FFFF]
UNSAFE_IN_LITERAL = set('"$\\{}')    # would end the literal / start an interpolation or an escape


def lead_ranges():
    """lead byte -> (first, last) code point encoded with that lead byte (computed from the encoder, not typed in)"""
    out = {}
    for _, lo, hi in UTF8_CLASSES[1:]:
        cp = lo
        while cp <= hi:
            lead = chr(cp).encode("utf-8")[0]
            width = len(chr(cp).encode("utf-8"))
            span = {2: 0x40, 3: 0x1000, 4: 0x40000}[width]
            last = min(hi, (cp // span) * span + span - 1)
            assert chr(last).encode("utf-8")[0] == lead and lead not in out
            out[lead] = (cp, last)
            cp = last + 1
    return out


LEADS = lead_ranges()                       # 30 two-byte + 16 three-byte + 5 four-byte lead bytes
LEAD_BYTES = sorted(LEADS)
CLASS_OF_LEAD = {}
for _name, _lo, _hi in UTF8_CLASSES[1:]:
    for _l, (_a, _b) in LEADS.items():
        if _lo <= _a and _b <= _hi:
            CLASS_OF_LEAD[_l] = _name
VARIANTS = ["first", "last", "third", "twothirds"]


def lead_char(lead, variant):
    """a character with this lead byte: all continuation bytes 0x80 (as far as the row allows) / all 0xBF / inner ones"""
    lo, hi = LEADS[lead]
    cp = {"first": lo, "last": hi, "third": lo + (hi - lo) // 3, "twothirds": lo + 2 * ((hi - lo) // 3)}[variant]
    return chr(cp)


def g_char(rng, multibyte=False):
    """one character: the row of the UTF-8 table first (uniform over the rows), then a lead byte of that row, then an
    edge of that lead byte's range or any code point in it"""
    name, lo, hi = rng.choice(UTF8_CLASSES[1:] if multibyte else UTF8_CLASSES)
    if name == "00-7F":
        return rng.choice(ASCII)
    lead = rng.choice([l for l in LEAD_BYTES if CLASS_OF_LEAD[l] == name])
    if rng.random() < 0.6:
        return lead_char(lead, rng.choice(VARIANTS))
    a, b = LEADS[lead]
    return chr(rng.randint(a, b))


def g_word(rng):
    if rng.random() < 0.5:
        return rng.choice(WORDS)
    return "".join(g_char(rng) for _ in range(rng.choice([1, 1, 2, 3])))


def g_values(rng, n, kind=None):
    kind = kind or rng.choice(["num", "num", "str", "mixed"])
    out = []
    for _ in range(n):
        if kind == "num" or (kind == "mixed" and rng.random() < 0.5):
            out.append(rng.choice(NUMS))
        elif kind == "str" or rng.random() < 0.8:
            out.append(g_word(rng))
        else:
            out.append(None)
    return out


def g_size(rng):
    return rng.choice([0, 1, 1, 2, 3, 3, 4, 5])


def g_string(rng, n):
    return "".join(g_char(rng) for _ in range(n))


def g_source(rng, kind=None, size=None):
    kind = kind or rng.choice(["vec", "tup", "range", "str", "script", "count"])
    n = g_size(rng) if size is None else size
    if kind == "vec":
        return ("vec", g_values(rng, n))
    if kind == "tup":
        return ("tup", g_values(rng, n))
    if kind == "range":
        a = rng.choice([-4, -2, -1, 0, 1, 3, 6])
        return ("range", a, a + n) if rng.random() < 0.5 else ("range", a, a - n)
    if kind == "str":
        return ("str", g_string(rng, n))
    if kind == "script":
        items = g_values(rng, n)
        if items and rng.random() < 0.5:      # the sentinel early: the rest must never be visited
            items.insert(rng.randrange(len(items) + 1), ("stop",))
        return ("script", items)
    if kind == "count":
        lo = rng.choice([-2, 0, 1, 5])
        return ("count", lo, lo + n if rng.random() < 0.85 else lo - 1)
    raise ValueError(kind)


def g_fn(rng):
    return rng.choice([("add", rng.choice([-2, 1, 3, 10])), ("mul", rng.choice([2, 3])), ("tag", rng.choice(["!", "é", "_x", g_word(rng)])),
                       ("add", 1), ("mul", 2), ("const", rng.choice([0, 7]))])


def g_pr(rng, endless=False):
    if endless:
        return rng.choice([("even",), ("gt", rng.choice([-1, 2, 5])), ("true",), ("ne", rng.choice(NUMS))])
    return rng.choice([("even",), ("even",), ("gt", rng.choice([-1, 1, 2, 5])), ("ne", rng.choice(NUMS + WORDS + [g_word(rng)])),
                       ("ne", None), ("true",), ("false",)])


def g_chain(rng, base, depth=None, endless=False):
    depth = rng.choice([0, 1, 1, 2, 2, 3]) if depth is None else depth
    e = base
    mapped = False
    for _ in range(depth):
        if rng.random() < 0.5:
            e = ("map", g_fn(rng), e)
            mapped = True
        elif endless and mapped:
            # over an endless source a filter must let infinitely many elements through
            e = ("filter", rng.choice([("true",), ("ne", "zz")]), e)
        else:
            e = ("filter", g_pr(rng, endless), e)
    return e


def g_ctl(rng, d, allow_return=True):
    """an `if cD == k { break|continue|return }`"""
    kinds = ["break", "continue"] + (["return"] if allow_return else [])
    return ("if", rng.randint(0, d), rng.choice([1, 1, 2, 2, 3, 4]), [(rng.choice(kinds),)])


def g_body(rng, d, depth_left, env):
    """statements of a loop body at loop depth d (the loop variable is x_d)"""
    body = []
    n = rng.choice([1, 2, 2, 3])
    for _ in range(n):
        r = rng.random()
        if r < 0.35:
            body.append(("pvar", rng.randint(0, d)))
        elif r < 0.55:
            body.append(g_ctl(rng, d))
        elif r < 0.70 and depth_left > 0:
            body.append(g_for(rng, d + 1, depth_left - 1, env))
        elif r < 0.78 and env.get("slots"):
            body.append(("next", rng.choice(env["slots"])))
        elif r < 0.86 and env.get("wvars"):
            w = rng.choice(env["wvars"])
            body.append(("if", d, rng.choice([1, 2, 3]), [rng.choice([("push", w, rng.choice(NUMS)), ("pop", w)])]))
        elif r < 0.90:
            body.append(("plit", rng.choice([100, 200])))
        elif r < 0.95:
            body.append(("collect", g_iter(rng, env, small=True)))
        else:
            body.append(("pvar", d))
    if not any(s[0] == "pvar" for s in body):
        body.insert(rng.randrange(len(body) + 1), ("pvar", d))
    return body


def g_iter(rng, env, small=False):
    r = rng.random()
    if r < 0.12 and env.get("slots"):
        e = ("slot", rng.choice(env["slots"]))
        return g_chain(rng, e, depth=rng.choice([0, 0, 1, 2]))
    if r < 0.27 and env.get("wvars"):
        return g_chain(rng, ("wvar", rng.choice(env["wvars"])), depth=rng.choice([0, 0, 0, 1, 2]))
    if env.get("objs") and r < 0.62:
        return g_chain(rng, ("obj", rng.choice(env["objs"])), depth=rng.choice([0, 0, 1, 1, 2, 3]))
    if env.get("same") and r < 0.45:
        return env["same"]
    return g_chain(rng, g_source(rng, size=rng.choice([0, 1, 2, 3]) if small else None))


def g_for(rng, d, depth_left, env):
    if rng.random() < 0.06:
        # endless user iterator: the first statement of the body is the bounding break / return
        e = g_chain(rng, ("forever", rng.choice([-2, 0, 3])), depth=rng.choice([0, 1, 2]), endless=True)
        guard = ("if", d, rng.choice([2, 3, 5]), [(rng.choice(["break", "break", "return"]),)])
        return ("for", e, [guard] + g_body(rng, d, 0, env))
    e = g_iter(rng, env)
    env2 = dict(env)
    if rng.random() < 0.5:
        env2["same"] = e
    # a loop that may push onto the vector it walks is bounded by a break
    guard = [("if", d, 6, [("break",)])] if env.get("wvars") else []
    return ("for", e, guard + g_body(rng, d, depth_left, env2))


def g_program(rng):
    env = {"slots": [], "wvars": [], "objs": []}
    body = []
    for _ in range(rng.choice([1, 1, 2, 3])):
        r = rng.random()
        if rng.random() < 0.3:
            n = rng.randint(0, 2)
            body.append(g_obj(rng, n))
            env["objs"] = sorted(set(env["objs"] + [n]))
        if r < 0.25:
            n = rng.randint(0, 2)
            body.append(("let", n, g_chain(rng, g_source(rng))))
            env["slots"] = sorted(set(env["slots"] + [n]))
        elif r < 0.45:
            n = rng.randint(0, 1)
            body.append(("setvec", n, g_values(rng, g_size(rng), rng.choice(["num", "num", "mixed"]))))
            env["wvars"] = sorted(set(env["wvars"] + [n]))
        if r < 0.75 or not body:
            body.append(g_for(rng, 0, rng.choice([0, 1, 1, 2]), env))
        elif r < 0.87:
            body.append(("collect", g_iter(rng, env)))
        else:
            e = g_iter(rng, env)
            body.append(("reduce", rng.choice(["sum", "count"]), rng.choice([0, 0, "", 5]), e))
        if env["slots"] and rng.random() < 0.4:
            body.append(("next", rng.choice(env["slots"])))
        if env["wvars"] and rng.random() < 0.3:
            body.append(("collect", ("wvar", rng.choice(env["wvars"]))))
    fun = has(body, "return") or rng.random() < 0.5
    return {"fun": fun, "loc": rng.random() < 0.3, "body": body, "stream": "random"}


def g_obj(rng, n, kind=None, size=None):
    """obN = a user-defined iterable whose iter() is not the identity"""
    kind = kind or rng.choice(OKINDS)
    size = rng.choice([0, 1, 3, 4, 5]) if size is None else size
    z = {"scaled": rng.choice([2, 10]), "limited": rng.choice([0, 1, 2, 5])}.get(kind, rng.choice([1, 10, -2]))
    numeric = kind in ("chained", "scaled") or rng.random() < 0.7
    return ("obj", n, kind, g_values(rng, size, "num" if numeric else "str"), z)


# every way core.yl lets a program consume an iterable E (the methods of class Iter + the for statement + chains)
def consumers(rng, f=None, f2=None, p=None, p2=None):
    f, f2, p, p2 = f or g_fn(rng), f2 or g_fn(rng), p or g_pr(rng), p2 or g_pr(rng)
    return {
        "for": lambda E: [("for", E, [("pvar", 0)])],
        "for_break": lambda E: [("for", E, [("pvar", 0), ("if", 0, 2, [("break",)])])],
        "iter": lambda E: [("let", 0, E), ("next", 0), ("for", ("slot", 0), [("pvar", 0)]), ("next", 0)],
        "map": lambda E: [("collect", ("map", f, E))],
        "filter": lambda E: [("collect", ("filter", p, E))],
        "collect": lambda E: [("collect", E)],
        "reduce": lambda E: [("reduce", rng.choice(["sum", "count"]), 0, E)],
        "filter.map": lambda E: [("collect", ("map", f, ("filter", p, E)))],
        "map.filter": lambda E: [("collect", ("filter", p, ("map", f, E)))],
        "filter.filter": lambda E: [("for", ("filter", p2, ("filter", p, E)), [("pvar", 0)])],
        "map.map": lambda E: [("reduce", "sum", 0, ("map", f2, ("map", f, E)))],
        "filter.map.filter": lambda E: [("for", ("filter", p2, ("map", f, ("filter", p, E))), [("pvar", 0), ("if", 0, 2, [("break",)])])],
        "nested": lambda E: [("for", E, [("pvar", 0), ("for", ("filter", p, E), [("pvar", 1)])])],
    }


CONSUMER_OF_FN = {"iter": ["iter", "for", "for_break", "nested"], "map": ["map", "filter.map", "map.filter", "map.map", "filter.map.filter"],
                  "filter": ["filter", "filter.map", "map.filter", "filter.filter", "filter.map.filter", "nested"],
                  "collect": ["collect", "map", "filter", "filter.map", "map.filter"], "reduce": ["reduce", "map.map"]}


def object_programs(rng, quick):
    """user iterables with a non-identity iter() x every consumer, then a SECOND consumer on the same object
    (the first one has exhausted / moved its cursor), rendered with and without the explicit .iter()"""
    progs = []
    for kind in OKINDS:
        for size in ([4, 0] if quick else [4, 0, 1]):
            names = list(consumers(rng).keys())
            for c1 in names:
                seconds = rng.sample(names, 2 if quick and size else (1 if quick else 3))
                for c2 in seconds:
                    cs = consumers(rng)
                    E = ("obj", 0)
                    body = [g_obj(rng, 0, kind, size)] + cs[c1](E) + cs[c2](E) + [("collect", E)]
                    for direct in ([rng.random() < 0.7] if quick else [True, False]):
                        progs.append({"fun": rng.random() < 0.5, "loc": rng.random() < 0.3, "dir": direct, "body": body,
                                      "stream": "objects", "consumers": (kind, c1, c2)})
    return progs


def field_programs(rng, quick):
    """iterator instances carrying a callable FIELD `next` (wrapping the class's own next: scaling, limiting, counting)
    or a field `iter`, consumed by every consumer; S: every consumer sees the sequence the FIELD produces.  The `@` line
    is the number of calls the field received (compared with the Mechanism only)."""
    progs = []
    names = list(consumers(rng).keys())
    for kind in ["scaled", "limited", "counted", "fielditer"]:
        for size in ([3, 0] if quick else [3, 0, 1]):
            for c1 in names:
                for c2 in rng.sample(names, 1 if quick else 3):
                    cs = consumers(rng)
                    E = ("obj", 0)
                    tail = [("pcalls", 0)] if kind in WRAPPED else []
                    body = [g_obj(rng, 0, kind, size)] + cs[c1](E) + tail + cs[c2](E) + tail
                    for direct in ([rng.random() < 0.5] if quick else [True, False]):
                        progs.append({"fun": rng.random() < 0.5, "loc": rng.random() < 0.3, "dir": direct, "body": body,
                                      "stream": "field_next", "consumers": (kind, c1, c2)})
    return progs


def utf8_programs(rng, quick):
    """strings over the WHOLE table of well-formed UTF-8 sequences: (A) every lead byte 0xC2..0xF4 x {smallest, largest,
    two inner} continuation patterns in one string (packed / separated by ASCII / reversed), walked by a loop, collect
    and a concatenating reduce, plain and under filter(!= one of its characters).map(tag with a multi-byte tag);
    (B) every row of the table x every consumer (for, break, shared iterator with manual next, map, filter, collect,
    reduce, chains, nested loops over the same string); (C) the neighbours across every boundary where the width or
    the second-byte constraint changes (7F|80, 7FF|800, D7FF|E000, FFFF|10000, ... 10FFFF) under break / continue /
    nested / shared-iterator shapes; (D) the same characters as DATA: words in vectors, tuples and user iterators,
    compared (!=), concatenated (tag, reduce) and printed.  S: Utf8.chars of the literal, whatever the code points."""
    progs = []

    def add(body, what, fuel=150):
        progs.append({"fun": rng.random() < 0.5, "loc": rng.random() < 0.3, "dir": rng.random() < 0.5, "body": body,
                      "stream": "utf8", "fuel": fuel, "utf8": what})

    # (A) every lead byte
    for variant in VARIANTS:
        chars = [lead_char(l, variant) for l in LEAD_BYTES]
        shapes = {"packed": "".join(chars),
                  "separated": "".join(c + rng.choice(ASCII) for c in chars),
                  "reversed": "".join(reversed(chars))}
        for shape in (rng.sample(sorted(shapes), 2) if quick else sorted(shapes)):
            s = shapes[shape]
            src = ("str", s)
            fuel = len(s) + 100
            add([("for", src, [("pvar", 0)]), ("collect", src), ("reduce", "sum", "", src)], ("A", variant, shape, 0), fuel)
            if not quick or rng.random() < 0.5:
                drop, t = rng.choice(chars), rng.choice(chars)
                e = ("map", ("tag", t), ("filter", ("ne", drop), src))
                add([("collect", e), ("for", e, [("if", 0, 40, [("break",)]), ("pvar", 0)]), ("reduce", "count", 0, e)],
                    ("A", variant, shape, 2), fuel)
    # (B) every row of the table x every consumer
    names = list(consumers(rng).keys())
    for ci, (name, lo, hi) in enumerate(UTF8_CLASSES[1:]):
        leads = [l for l in LEAD_BYTES if CLASS_OF_LEAD[l] == name]
        todo = names if not quick else [names[(ci * 3 + j) % len(names)] for j in range(3)] + [rng.choice(names)]
        for c in todo:
            mine = [chr(lo), chr(hi), lead_char(rng.choice(leads), rng.choice(VARIANTS))]
            other = [g_char(rng), g_char(rng, multibyte=True)]
            cs_ = mine + other
            rng.shuffle(cs_)
            s = "".join(cs_)
            cs = consumers(rng, f=("tag", rng.choice(mine)), p=("ne", rng.choice(mine)), p2=("ne", rng.choice(other)))
            add(cs[c](("str", s)) + [("collect", ("str", s))], ("B", name, c))
    # (C) boundary neighbours
    pairs = [(BOUNDARY_CPS[i], BOUNDARY_CPS[i + 1]) for i in range(0, len(BOUNDARY_CPS) - 1, 2)] + [(0x10FFFF, 0x61), (0x10FFFF, 0x10FFFF)]
    for a, b in pairs:
        for order in ([rng.random() < 0.5] if quick else [True, False]):
            ca, cb = (chr(a), chr(b)) if order else (chr(b), chr(a))
            s = rng.choice([ca + cb, ca + cb + ca, "a" + ca + cb, ca + "a" + cb + "b"])
            src = ("str", s)
            shapes = [
                [("for", src, [("pvar", 0), ("for", src, [("pvar", 1), ("if", 1, 1, [("continue",)]), ("pvar", 0)])])],
                [("let", 0, src), ("next", 0), ("for", ("slot", 0), [("pvar", 0), ("if", 0, 1, [("next", 0)])]), ("next", 0), ("next", 0)],
                [("for", ("filter", ("ne", cb), src), [("pvar", 0), ("if", 0, 2, [("break",)])]), ("collect", ("map", ("tag", cb), src)),
                 ("reduce", "sum", "", src)],
            ]
            for body in (rng.sample(shapes, 1) if quick else shapes):
                add(body, ("C", "%X|%X" % (a, b)))
    # (D) the characters as data: compared, concatenated, printed
    for variant in (rng.sample(VARIANTS, 2) if quick else VARIANTS):
        chars = [lead_char(l, variant) for l in LEAD_BYTES]
        words = ["".join(chars[i:i + 3]) for i in range(0, len(chars), 3)]
        for kind in ["vec", "tup", "script"]:
            items = list(words)
            items.insert(rng.randrange(len(items)), rng.choice(words))     # one word twice: != must drop both
            w1, w2 = rng.choice(words), rng.choice(words)
            src = (kind, items)
            e = ("map", ("tag", w2), ("filter", ("ne", w1), src))
            add([("collect", e), ("reduce", "sum", "", src), ("for", src, [("pvar", 0)])], ("D", variant, kind), len(items) + 100)
    return progs


def utf8_coverage(progs):
    """MEASURED: the lead bytes / rows of the UTF-8 table / boundary code points of the string literals the programs
    iterate over, and of the strings they handle as data (vector elements, tags, != operands)"""
    it_leads, data_leads, it_cps, per_class = set(), set(), set(), {}

    def lead_of(ch):
        return ch.encode("utf-8")[0]

    def data(v):
        if isinstance(v, str):
            data_leads.update(lead_of(ch) for ch in v)

    def visit(e):
        while e[0] in ("map", "filter"):
            if e[0] == "map" and e[1][0] == "tag":
                data(e[1][1])
            if e[0] == "filter" and e[1][0] == "ne":
                data(e[1][1])
            e = e[2]
        if e[0] == "str":
            rows = set()
            for ch in e[1]:
                it_leads.add(lead_of(ch))
                it_cps.add(ord(ch))
                rows.add(CLASS_OF_LEAD.get(lead_of(ch), "00-7F"))
            for r in rows:
                per_class[r] = per_class.get(r, 0) + 1
        elif e[0] in ("vec", "tup", "script"):
            for v in e[1]:
                data(v)

    for p in progs:
        for e in iexps(p["body"]):
            visit(e)
        for s in walk(p["body"]):
            if s[0] == "obj":
                for v in s[3]:
                    data(v)
    return {
        "lead_bytes_iterated": len([l for l in it_leads if l >= 0xC2]), "lead_bytes_total": len(LEAD_BYTES),
        "lead_bytes_missing": ["%02X" % l for l in LEAD_BYTES if l not in it_leads],
        "lead_bytes_as_data": len([l for l in data_leads if l >= 0xC2]),
        "lead_bytes_as_data_missing": ["%02X" % l for l in LEAD_BYTES if l not in data_leads],
        "programs_iterating_row": {name: per_class.get(name, 0) for name, _, _ in UTF8_CLASSES},
        "boundary_code_points_missing": ["%X" % c for c in BOUNDARY_CPS if c not in it_cps],
        "distinct_code_points_iterated": len(it_cps),
    }


def check_alphabet_against_model(ctx):
    """the generator's table of lead bytes (computed from Python's encoder) against the MODEL's table
    (Utf8.char_width, the function the string cursor of M and the Spec's Utf8.chars decode with): all 256 bytes"""
    term = 'String.concat "" (List.map (fun n => YV.Show.show_nat (YV.Utf8.char_width (YV.Utf8.Nb (N.of_nat n)))) (List.seq 0 256))'
    try:
        got = yvlib.coq_eval(["YV:IterLang"], [term], tag="C18alpha", preamble="Open Scope string_scope.\n")[0]
    except Exception as exc:
        got = None
        ctx.notes.append("alphabet/model cross-check not evaluated: %s" % str(exc)[:200])
    want = "".join(str(1 if b < 0x80 else (len(lead_char(b, "first").encode("utf-8")) if b in LEADS else 0)) for b in range(256))
    if got is not None and got != want:
        ctx.broken.append("generator self-check: the lead-byte table of the string alphabet differs from Utf8.char_width: model %s, generators %s" % (got, want))
    ctx.cov["utf8_table_vs_model"] = "256 bytes agree" if got == want else "NOT compared / differs"


RUN_SIZES = [0, 1, 63, 64, 65, 200, 1000]
RUN_LENGTHS = [0, 1, 59, 60, 61, 64, 100, 999]


def long_run_programs(rng, quick):
    """sources of 0..1000 elements under filters that reject runs of 0..999 CONSECUTIVE elements (at the start, in the
    middle, at the end, everything), mapping functions of call depth 1..3, chains 1..4 adapters deep, also consumed from
    inside a block that is already 30 / 48 call frames deep.  S: the same sequence as for short data - the number of
    rejected elements costs no call frames."""
    progs = []
    for n in RUN_SIZES * (1 if quick else 3):
        for r in RUN_LENGTHS:
            if r > n and not (r == 1 and n == 0):
                continue
            for where in ["start", "middle", "end", "all"]:
                if where == "all" and r not in (0, 64, 999) and r != n:
                    continue
                if quick and rng.random() < (0.75 if n < 63 or r < 59 else 0.45):
                    continue
                lo = {"start": 0, "middle": (n - r) // 2, "end": max(0, n - r), "all": 0}[where]
                hi = n if where == "all" else lo + r
                kind = rng.choice(["range", "count", "vec", "str"] if n <= 200 else ["range", "count"])
                if kind == "range":
                    src, pred = ("range", 0, n), ("notin", lo, hi)
                elif kind == "count":
                    src, pred = ("count", 0, n), ("notin", lo, hi)
                elif kind == "vec":
                    src, pred = ("vec", list(range(n))), ("notin", lo, hi)
                else:
                    src, pred = ("str", "b" * lo + "a" * (hi - lo) + "b" * (n - hi)), ("ne", "a")
                numeric = kind != "str"
                f = rng.choice([("deepfn", d, 0) for d in (1, 2, 3)] + [("add", 0)])
                shapes = {
                    "filter": ("filter", pred, src),
                    "filter.map": ("map", f, ("filter", pred, src)),
                    "map.filter": ("filter", pred, ("map", f, src)),
                    "filter.filter": ("filter", pred, ("filter", ("true",), src)),
                    "map.filter.map.filter": ("filter", ("true",), ("map", f, ("filter", pred, ("map", f, src)))),
                }
                shape = rng.choice(list(shapes))
                E = shapes[shape]
                cons = [("reduce", "count", 0, E), ("collect", E) if n - (hi - lo) <= 80 else ("reduce", "sum", 0 if numeric else "", E),
                        ("for", E, [("if", 0, 1, [("pvar", 0)]), ("if", 0, 2, [("pvar", 0)])]), ("pcnt", 0)]
                deep = rng.choice([0, 0, 30, 48])
                if deep and shape != "map.filter.map.filter":
                    body = [("descend", deep, cons)]
                else:
                    deep = 0
                    body = cons
                progs.append({"fun": rng.random() < 0.5, "loc": False, "dir": rng.random() < 0.5, "body": body, "stream": "long_runs",
                              "fuel": max(150, n + 100), "notrace": True, "long": (n, r, where, kind, shape, deep)})
    return progs


PRESS_COUNTS = [0, 7, 8, 9, 20]     # other distinct ranges built (RANGE_CACHE_SIZE is 8)


def pressure_programs(rng, quick):
    """a range in use (held in a variable / vec / field, passed through a function, or being walked by a loop) while
    0, 7, 8, 9, 20 OTHER distinct ranges are built (a) before it is consumed, (b) between two steps of its iteration
    (loop body, mapping function, between manual next() calls), (c) in a nested loop; equal ranges built again
    (cache hit).  S: a range value is immutable - its elements depend only on its bounds."""
    progs = []
    bounds = [(0, 3), (3, 0), (-2, 2), (5, 5), (1, 2)]
    names = list(consumers(rng).keys())
    for k in PRESS_COUNTS * (1 if quick else 4):
        for place in ["before", "body", "body_once", "mapfn", "next", "nested", "hit", "later"]:
            for h in [0, 1, 2, 3, "lit"]:
                if quick and rng.random() < (0.55 if k in (8, 9) else 0.8):
                    continue
                a, e = rng.choice(bounds if not quick else bounds[:3])
                decl = [("range", 0, h, a, e)] if h != "lit" else []
                E = ("rvar", 0, h) if h != "lit" else ("range", a, e)
                cs = consumers(rng)
                c1, c2 = rng.choice(names), rng.choice(names)
                if place == "before":
                    body = decl + [("press", 100, k)] + cs[c1](E) + [("press", 400, k)] + cs[c2](E)
                elif place == "body":
                    body = decl + [("for", E, [("pvar", 0), ("press", 100, k), ("pvar", 0)])] + cs[c2](E)
                elif place == "body_once":
                    body = decl + [("for", g_chain(rng, E, depth=rng.choice([0, 0, 1])),
                                    [("if", 0, rng.choice([1, 2]), [("press", 100, k)]), ("pvar", 0)])] + cs[c2](E)
                elif place == "mapfn":
                    f = ("press", 100, k)
                    body = decl + [("collect", ("map", f, E)),
                                   ("for", ("filter", g_pr(rng), ("map", f, E)), [("pvar", 0)]),
                                   ("reduce", "sum", 0, ("map", g_fn(rng), ("map", f, E)))] + cs[c2](E)
                elif place == "next":
                    body = decl + [("let", 0, E), ("next", 0), ("press", 100, k), ("next", 0), ("press", 100, k), ("next", 0),
                                   ("for", ("slot", 0), [("pvar", 0)]), ("next", 0)] + cs[c2](E)
                elif place == "nested":
                    body = decl + [("for", E, [("pvar", 0), ("for", ("range", 200, 202), [("press", 300, k), ("pvar", 1)]),
                                               ("for", E, [("pvar", 1), ("if", 1, 1, [("press", 600, k)])])])] + cs[c2](E)
                elif place == "hit":
                    # the same bounds built again (cache hit while it is cached, a miss once it was evicted)
                    h2 = rng.choice([0, 1, 2, 3])
                    body = decl + [("press", 100, k), ("range", 1, h2, a, e), ("press", 100, k)] + cs[c1](E) + \
                        cs[c2](("rvar", 1, h2)) + [("collect", ("range", a, e))] + cs[c1](E)
                else:
                    # stored first, iterated much later, twice
                    body = decl + [("press", 100, k), ("press", 500, k)] + cs[c1](E) + [("press", 700, k)] + cs[c1](E)
                progs.append({"fun": rng.random() < 0.5, "loc": rng.random() < 0.3, "body": body, "stream": "range_pressure",
                              "pressure": (k, place, h)})
    return progs


def kinds_sizes(rng):
    """every iterable kind x {empty, one, many, multi-byte}"""
    out = []
    for kind in ["vec", "tup", "range", "str", "script", "count"]:
        for size in [0, 1, 4]:
            out.append(g_source(rng, kind, size))
    out += [("range", 2, -2), ("range", -3, 1), ("range", 0, 0), ("range", -1, -1),
            ("str", "aé€😀"), ("str", "😀"), ("str", "€€"), ("str", "a𝄞b"),
            ("script", [1, ("stop",), 2, 3]), ("script", [("stop",), 1]), ("script", [1, 2, ("stop",)]),
            ("vec", [1, "a", None, "é"]), ("tup", ["😀", 2])]
    return out


def directed(rng, quick):
    progs = []
    srcs = kinds_sizes(rng)
    # (1) every kind x size, plain loop + collect + reduce, chains of depth 0..3
    for s in srcs:
        for depth in ([0, 2] if quick else [0, 1, 2, 3]):
            e = g_chain(rng, s, depth=depth)
            body = [("for", e, [("pvar", 0)]), ("collect", e),
                    ("reduce", rng.choice(["sum", "count"]), rng.choice([0, ""]), e)]
            progs.append({"fun": rng.random() < 0.5, "loc": rng.random() < 0.3, "body": body, "stream": "kinds"})
    # (2) every placement of break / continue / return: kind x ctl x iteration x before/after x loop level
    many = [("vec", [1, 2, 3]), ("tup", ["a", "b", "c"]), ("range", 0, 3), ("range", 3, 0), ("str", "aé😀"),
            ("script", [5, 6, 7]), ("count", 1, 4), ("forever", 0)]
    for s in many:
        for ctl in ["break", "continue", "return"]:
            for k in [1, 2, 3]:
                for before in [True, False]:
                    for level in ["single", "inner", "outer"]:
                        if quick and rng.random() < 0.6:
                            continue
                        e = g_chain(rng, s, depth=rng.choice([0, 0, 1, 2]), endless=s[0] == "forever")
                        guard = [("if", 0, 5, [("break",)])] if s[0] == "forever" else []
                        if level == "single":
                            c = ("if", 0, k, [(ctl,)])
                            b = [c, ("pvar", 0)] if before else [("pvar", 0), c]
                            body = [("for", e, guard + b), ("plit", 100)]
                        elif level == "inner":
                            c = ("if", 1, k, [(ctl,)])
                            b = [c, ("pvar", 1)] if before else [("pvar", 1), c]
                            g1 = [("if", 1, 5, [("break",)])] if s[0] == "forever" else []
                            body = [("for", e, guard + [("pvar", 0), ("for", e, g1 + b), ("plit", 200)]), ("plit", 100)]
                        else:
                            c = ("if", 0, k, [(ctl,)])
                            inner = ("for", ("range", 0, 2), [("pvar", 1)])
                            b = [c, inner, ("pvar", 0)] if before else [inner, ("pvar", 0), c]
                            body = [("for", e, guard + b), ("plit", 100)]
                        progs.append({"fun": ctl == "return" or rng.random() < 0.5, "loc": rng.random() < 0.3, "body": body,
                                      "stream": "placement"})
    # (3) shared iterators: loop + manual next(), nested loops over ONE iterator, loop resumed after break
    for s in srcs if not quick else rng.sample(srcs, 10):
        e = g_chain(rng, s, depth=rng.choice([0, 1]))
        progs.append({"fun": rng.random() < 0.5, "loc": rng.random() < 0.3, "stream": "shared", "body": [
            ("let", 0, e), ("for", ("slot", 0), [("pvar", 0), ("if", 0, 1, [("next", 0)]), ("if", 0, 2, [("break",)])]),
            ("next", 0), ("for", ("slot", 0), [("pvar", 0)]), ("next", 0), ("next", 0)]})
        progs.append({"fun": rng.random() < 0.5, "loc": rng.random() < 0.3, "stream": "shared", "body": [
            ("let", 1, e), ("for", ("slot", 1), [("pvar", 0), ("for", ("slot", 1), [("pvar", 1), ("if", 1, 1, [("break",)])])]),
            ("collect", ("slot", 1))]})
        progs.append({"fun": True, "loc": rng.random() < 0.3, "stream": "shared", "body": [
            ("let", 0, e), ("let", 2, g_chain(rng, ("slot", 0), depth=rng.choice([1, 2]))), ("next", 0),
            ("for", ("slot", 2), [("pvar", 0), ("if", 0, 2, [("next", 0)])]), ("next", 2), ("next", 0)]})
        # two independent loops over the same iterable
        progs.append({"fun": rng.random() < 0.5, "loc": rng.random() < 0.3, "stream": "independent", "body": [
            ("for", e, [("pvar", 0), ("for", e, [("pvar", 1), ("if", 1, 2, [("continue",)]), ("pvar", 0)])])]})
    # (4) vector mutation during iteration
    for _ in range(12 if quick else 120):
        xs = g_values(rng, rng.choice([1, 2, 3, 4]), "num")
        muts = []
        for k in rng.sample([1, 2, 3, 4, 5], rng.choice([1, 2, 3])):
            muts.append(("if", 0, k, [rng.choice([("push", 0, rng.choice(NUMS)), ("pop", 0), ("pop", 0),
                                                  ("setvec", 0, g_values(rng, 2, "num"))])]))
        it = g_chain(rng, ("wvar", 0), depth=rng.choice([0, 0, 0, 1, 2]))
        body = [("pvar", 0)] + muts
        rng.shuffle(body)
        if rng.random() < 0.4:
            body.append(("for", ("wvar", 0), [("pvar", 1), ("if", 1, 2, [rng.choice([("pop", 0), ("break",), ("push", 0, 7)])])]))
        guard = [("if", 0, 8, [("break",)])]
        progs.append({"fun": rng.random() < 0.5, "loc": rng.random() < 0.3, "stream": "mutation", "body": [
            ("setvec", 0, xs), ("for", it, guard + body), ("collect", ("wvar", 0))]})
    # (5) a user iterator handing out an instance of a SUBCLASS of StopIter
    for _ in range(6 if quick else 40):
        items = g_values(rng, rng.choice([2, 3, 4]), "num")
        items.insert(rng.randrange(len(items) + 1), ("sub",))
        e = g_chain(rng, ("script", items), depth=rng.choice([0, 1, 2]))
        progs.append({"fun": rng.random() < 0.5, "loc": rng.random() < 0.3, "stream": "subclass", "body": [
            ("for", e, [("pvar", 0)]), ("collect", e), ("reduce", "count", 0, e)]})
    # (6) loop bodies WITH locals (and locals declared after the loops), one loop each, every exit path
    for s in many[:7]:
        for ctl in ["break", "continue", "return"]:
            body = [("for", s, [("pvar", 0), ("if", 0, 2, [(ctl,)])]), ("plit", 100)]
            progs.append({"fun": True, "loc": True, "body": body, "stream": "locals"})
            if ctl != "return":
                progs.append({"fun": False, "loc": True, "body": body, "stream": "locals"})
    return progs + object_programs(rng, quick) + pressure_programs(rng, quick) + field_programs(rng, quick) + long_run_programs(rng, quick) + utf8_programs(rng, quick)


# ------------------------------------------------------------------------------------------
# running


def opcode_numbers():
    nil, pop = 1, 4
    try:
        with open(os.path.join(yvlib.COQ, "gen", "Opcodes.v")) as fh:
            m = re.search(r"Definition opcode_names[^\[]*\[([^\]]*)\]", fh.read())
        names = [x.strip().strip('"') for x in m.group(1).split(";")]
        nil, pop = names.index("Nil"), names.index("Pop")
    except Exception:
        pass
    return str(nil), str(pop)


def marker_heights(rec, nil, pop):
    """stack_len - slot_base at every `nil;` statement (Nil at pc immediately followed by Pop at pc+1)"""
    ts = rec.tagged("T")
    hs = []
    base = {}
    for a, c in zip(ts, ts[1:]):
        if a[3] == nil and c[3] == pop and a[0] == c[0] and a[1] == c[1] and int(c[2]) == int(a[2]) + 1:
            # relative to the first marker of the same function (fn main / the script / the closure of a descend block:
            # the first marker of each of them stands at loop depth 0)
            h = int(a[4]) - int(a[5])
            hs.append(h - base.setdefault(a[1], h))
    return hs


def unlines(field):
    if field == "":
        return [""]
    return [yvlib.unhx(x).decode("utf-8", "replace") if x else "" for x in field.split(",")]


RETRY_TIMEOUT_MS = 30000
RETRIED = [0, 0]          # cases re-run alone, of which finished


def harness_line(p):
    return ("run - " if p.get("notrace") else "trace - %d " % TRACE_LIMIT) + hx(p["src"])


def retry_crashed(binary, ok, recs):
    """a case that timed out or took the harness process down in the parallel batch is re-run nearly alone (4 at a time,
    long time-out) before it is believed: on a loaded machine a generated program can exceed CASE_TIMEOUT_MS.  As soon
    as a re-run case fails AGAIN the remaining ones keep their first result (a mutant with endless loops must not cost
    30 s per program)."""
    recs = list(recs)
    bad = [i for i, r in enumerate(recs) if r.result[0] == "crash"]
    for k in range(0, len(bad), 12):
        chunk = bad[k:k + 12]
        again = yvlib.run_harness(binary, [harness_line(ok[i]) for i in chunk], case_timeout_ms=RETRY_TIMEOUT_MS, shards=4)
        RETRIED[0] += len(chunk)
        still = 0
        for i, r in zip(chunk, again):
            if r.result[0] == "crash":
                still += 1
            else:
                RETRIED[1] += 1
                recs[i] = r
        if still:
            break
    return recs


def evaluate(ctx, progs, tag):
    """model + spec + rendered text from Coq, then the implementation"""
    terms = ['run_case "%s"%%string' % wire_of(p) for p in progs]
    pre = yvlib.coq_eval(["YV:IterLang"], ["prelude"], tag="C18pre", preamble="Open Scope string_scope.\n")[0]
    t0 = time.time()
    vals = yvlib.coq_eval(["YV:IterLang"], terms, shard_size=max(20, min(120, len(terms) // yvlib.NPROC + 1)), tag="C18" + tag, preamble="Open Scope string_scope.\n")
    t1 = time.time()
    TIMING["model_" + tag] = round(TIMING.get("model_" + tag, 0) + t1 - t0, 1)
    for p, v in zip(progs, vals):
        if v is None:
            p["bad"] = True
            ctx.corr_broken.append("model evaluation failed (coq_eval) for " + wire_of(p)[:200])
            continue
        src, mech, spec, early = v.split("|")
        p["src"] = pre + yvlib.unhx(src).decode("utf-8")
        ml = unlines(mech)
        p["mech"] = [l for l in ml if not l.startswith("#")]
        p["mech_h"] = [int(l[1:]) for l in ml if l.startswith("#")]
        p["spec"] = unlines(spec)
        p["early"] = int(early)
    ok = [p for p in progs if not p.get("bad")]
    binary = ctx.harness(PROFILE[0])
    # long-run programs would overflow the trace: they are run plainly (no stack-height comparison)
    recs = yvlib.run_harness(binary, [harness_line(p) for p in ok], case_timeout_ms=CASE_TIMEOUT_MS)
    recs = retry_crashed(binary, ok, recs)
    TIMING["impl_" + tag] = round(TIMING.get("impl_" + tag, 0) + time.time() - t1, 1)
    nil, pop = opcode_numbers()
    for p, r in zip(ok, recs):
        p["impl"] = r.output
        p["impl_res"] = r.result
        p["impl_h"] = None if p.get("notrace") else marker_heights(r, nil, pop)
    return ok


def rel(hs):
    return [h - hs[0] for h in hs] if hs else []


def public(lines):
    """`@` lines (call counts of a wrapped iterator's field) are compared with the Mechanism only"""
    return [l for l in lines if not l.startswith("@")]


def known_class_of(p):
    f = p["facts"]
    return None


def judge(ctx, p, stats):
    """the two comparisons for one program"""
    wire = wire_of(p)
    if "!FUEL" in p["mech"]:
        stats["model_fuel"] += 1
        stats.setdefault("fuel_wires", []).append(wire[:300])
        return
    res_ok = p["impl_res"][0] == "ok"
    m_ok = res_ok and p["impl"] == p["mech"]
    h_ok = p["impl_h"] is None or p["impl_h"] == rel(p["mech_h"])
    kc = known_class_of(p)
    if p["spec"] == ["SKIP"]:
        stats["spec_skip"] += 1
        s_ok = True
    else:
        stats["spec_checked"] += 1
        s_ok = res_ok and public(p["impl"]) == p["spec"]
    if not s_ok:
        ctx.violation("printed sequence differs from the Spec (elements + List.map/filter/fold_left)", input=p["src"],
                      expected=p["spec"][:60], actual=public(p["impl"])[:60] + ([] if res_ok else [str(p["impl_res"]), str(getattr(p.get("rec"), "messages", ""))[:200]]), known_class=kc,
                      wire=wire, stream=p["stream"])
    if not h_ok and (res_ok or s_ok):     # (a run that ended in an error was reported just above)
        # the VM's stack at the statement following a loop is not what it was before the loop
        ctx.violation("iteration state left on the VM stack: height at the markers around the loops differs from the "
                      "model's hidden locals", input=p["src"], expected=rel(p["mech_h"]), actual=p["impl_h"],
                      known_class=kc, wire=wire, stream=p["stream"])
    if not m_ok and s_ok:
        ctx.corr_broken.append("impl != M (IterLang.eval_mech) on %s | impl %s %s | model %s" % (
            wire[:300], p["impl"][:40], p["impl_res"], p["mech"][:40]))
    if public(p["mech"]) != p["spec"] and p["spec"] != ["SKIP"]:
        ctx.broken.append("model != spec on a program (contradicts the refinement theorems): " + wire[:300])
    stats["checked"] += 1


REF_BUDGET_S = 60
REF_BUDGET_THOROUGH_S = 420     # rounds of 32 programs per core; at load > 50 the full pass (7500 programs) took > 25 min


def reference_compare(ctx, progs, budget_s=None):
    """third party: the full reference interpreter of the language (SpecRun/ParseRun/SpecScripts, other owners)"""
    need = ("SpecRun.vo", "ParseRun.vo", "SpecScripts.vo")
    if not all(os.path.exists(os.path.join(yvlib.COQ, "theories", f)) for f in need):
        ctx.notes.append("SpecRun/ParseRun/SpecScripts not built: comparison with the full reference interpreter skipped")
        return {"compared": 0}
    # bounded in quick: rounds of 4 programs per core until the time budget is used up (the interpreter of the whole
    # language is slow on a loaded machine; the programs the Spec leaves open come first)
    vals = []
    t0 = time.time()
    step = (max(32, 4 * yvlib.NPROC) if budget_s <= 120 else 32 * yvlib.NPROC) if budget_s else len(progs)
    for k in range(0, len(progs), step):
        if budget_s and k and time.time() - t0 > budget_s:
            break
        part = progs[k:k + step]
        vals += yvlib.coq_eval(["YV:SpecScripts"], ['run_case 400 [] "%s"' % hx(p["src"]) for p in part],
                               shard_size=max(4, (len(part) + 2 * yvlib.NPROC - 1) // (2 * yvlib.NPROC)), tag="C18ref",
                               preamble="Open Scope string_scope.\n")
    st = {"offered": len(progs), "evaluated": len(vals), "compared": 0, "equal": 0, "undetermined": 0, "disagrees_with_impl_M_S": 0}
    for p, v in zip(progs, vals):
        m = re.match(r"^out=\[([0-9a-f,]*)\];res=ok:", v or "")
        if not m:
            st["undetermined"] += 1     # fuel, parse problem, error outcome
            continue
        ref = unlines(m.group(1)) if m.group(1) != "" else []
        st["compared"] += 1
        if ref == p["impl"] and p["impl_res"][0] == "ok":
            st["equal"] += 1
        elif p["impl"] == p["mech"] and (p["spec"] == ["SKIP"] or public(p["impl"]) == p["spec"]):
            # impl, M and S agree with each other: the third party is the odd one out
            st["disagrees_with_impl_M_S"] += 1
            if st["disagrees_with_impl_M_S"] <= 3:
                ctx.notes.append("reference interpreter (SpecRun) prints %s where impl = M = S print %s: %s" % (
                    ref[:12], p["impl"][:12], wire_of(p)[:200]))
            if p["spec"] == ["SKIP"]:
                ctx.violation("printed sequence differs from the reference interpreter (SpecRun) on a program the "
                              "list-level Spec leaves open", input=p["src"], expected=ref, actual=p["impl"],
                              wire=wire_of(p), stream=p["stream"])
    return st


def check_consumer_table(ctx, progs):
    """the methods of class Iter as the translator found them in the CURRENT core.yl (gen/manifest.json) against the
    consumers the generators exercise on objects whose iter() is not the identity"""
    import json
    try:
        with open(os.path.join(yvlib.COQ, "gen", "manifest.json")) as fh:
            tbl = json.load(fh).get("c18_iter_fns", {})
    except Exception:
        tbl = {}
    fns = tbl.get("Iter", [])
    if not fns:
        ctx.broken.append("translator: class Iter of core.yl not found (gen/manifest.json c18_iter_fns)")
        return
    used = {}
    for p in progs:
        if p.get("consumers"):
            for c in p["consumers"][1:]:
                used[c] = used.get(c, 0) + 1
    cover = {}
    for f in fns:
        names = CONSUMER_OF_FN.get(f["name"])
        if names is None:
            ctx.broken.append("core.yl: method Iter.%s is not covered by the C18 generators (add it to IterLang and CONSUMER_OF_FN)" % f["name"])
            continue
        cover[f["name"]] = sum(used.get(n, 0) for n in names)
        if cover[f["name"]] == 0:
            ctx.broken.append("no generated program consumes a user iterable through Iter.%s" % f["name"])
        if f["how"] not in ("self", "iter", "for"):
            ctx.notes.append("core.yl: Iter.%s does not obtain its iterator through iter() (how=%s): the side condition "
                             "C18_side_consumers_call_iter is expected to fail" % (f["name"], f["how"]))
    ctx.cov["iter_methods"] = {f["name"]: {"how": f["how"], "programs_on_user_iterables": cover.get(f["name"], 0)} for f in fns}


def nontrivial(p):
    f = p["facts"]
    return (f["chain"] >= 2 or f["nest"] >= 2) and f["elems"] >= 2 and p.get("early", 0) >= 1


def shrink_iexp(e):
    """smaller string literals at the base of a chain: halves, then single characters dropped"""
    if e[0] in ("map", "filter"):
        for b in shrink_iexp(e[2]):
            yield (e[0], e[1], b)
    elif e[0] == "str" and len(e[1]) > 1:
        s = e[1]
        h = len(s) // 2
        yield ("str", s[:h])
        yield ("str", s[h:])
        if len(s) <= 6:
            for i in range(len(s)):
                yield ("str", s[:i] + s[i + 1:])


def shrink_strings(body):
    for i, s in enumerate(body):
        if s[0] == "for":
            for e in shrink_iexp(s[1]):
                yield body[:i] + [("for", e, s[2])] + body[i + 1:]
            for b in shrink_strings(s[2]):
                yield body[:i] + [("for", s[1], b)] + body[i + 1:]
        elif s[0] == "collect":
            for e in shrink_iexp(s[1]):
                yield body[:i] + [("collect", e)] + body[i + 1:]
        elif s[0] == "let":
            for e in shrink_iexp(s[2]):
                yield body[:i] + [("let", s[1], e)] + body[i + 1:]
        elif s[0] == "reduce":
            for e in shrink_iexp(s[3]):
                yield body[:i] + [("reduce", s[1], s[2], e)] + body[i + 1:]


def shrink_body(body, strings=True):
    """candidate smaller bodies: drop one statement anywhere; then shorter string literals"""
    for b in shrink_body(body, False) if strings else []:
        yield b
    if strings:
        for b in shrink_strings(body):
            yield b
        return
    for i in range(len(body)):
        yield body[:i] + body[i + 1:]
        s = body[i]
        if s[0] == "for":
            for b in shrink_body(s[2], False):
                yield body[:i] + [("for", s[1], b)] + body[i + 1:]
            if s[1][0] in ("map", "filter"):
                yield body[:i] + [("for", s[1][2], s[2])] + body[i + 1:]
        elif s[0] == "if":
            for b in shrink_body(s[3], False):
                if b:
                    yield body[:i] + [("if", s[1], s[2], b)] + body[i + 1:]


class _Shim:
    def __init__(self, ctx):
        self.harness = ctx.harness
        self.corr_broken = []


def shrink(ctx, p):
    """bounded: at most 30 re-runs; candidates (statement drops first, then shorter string literals) are tried in chunks
    of 8 - a chunk without a failing candidate moves on to the next chunk of the same program"""
    budget = 30
    cur = p
    progress = True
    while progress and budget > 0:
        progress = False
        gen = shrink_body(cur["body"])
        while budget > 0 and not progress:
            cands = []
            for b in gen:
                if not b or (has(b, "return") and not cur["fun"]):
                    continue
                cands.append({"fun": cur["fun"], "loc": cur["loc"], "dir": cur.get("dir", False), "body": b, "stream": cur["stream"],
                              "fuel": cur.get("fuel", 150), "notrace": cur.get("notrace", False)})
                if len(cands) >= min(8, budget):
                    break
            if not cands:
                break
            budget -= len(cands)
            tmp = _Shim(ctx)
            try:
                done = evaluate(tmp, cands, "shrink")
            except Exception:
                return cur
            for c in done:
                if c["spec"] != ["SKIP"] and (c["impl_res"][0] != "ok" or public(c["impl"]) != c["spec"]):
                    c["facts"] = facts(c["body"])
                    if known_class_of(c) == known_class_of(p):
                        cur = c
                        progress = True
                        break
    return cur


def run(ctx):
    quick = ctx.quick()
    rng = ctx.rng
    PROFILE[0] = "release" if quick else "debug"
    stats = {"checked": 0, "spec_checked": 0, "spec_skip": 0, "model_fuel": 0}
    if ctx.replay_only:
        w = ctx.replay_only.get("wire")
        progs = [{"fun": w.split()[0] != "0", "loc": w.split()[1] != "0", "body": None, "stream": "replay", "wire": w}]
        vals = yvlib.coq_eval(["YV:IterLang"], ['run_case "%s"%%string' % w], tag="C18replay", preamble="Open Scope string_scope.\n")
        src, mech, spec, _ = vals[0].split("|")
        pre = yvlib.coq_eval(["YV:IterLang"], ["prelude"], tag="C18pre", preamble="Open Scope string_scope.\n")[0]
        text = pre + yvlib.unhx(src).decode("utf-8")
        rec = yvlib.run_harness(ctx.harness("debug"), ["trace - 400000 " + hx(text)])[0]
        nil, pop = opcode_numbers()
        ml = unlines(mech)
        if unlines(spec) != ["SKIP"] and (rec.result[0] != "ok" or public(rec.output) != unlines(spec)):
            ctx.violation("printed sequence differs from the Spec", input=text, expected=unlines(spec), actual=rec.output, wire=w)
        if marker_heights(rec, nil, pop) != rel([int(l[1:]) for l in ml if l.startswith("#")]):
            ctx.violation("iteration state left on the VM stack", input=text, wire=w)
        return
    progs = directed(rng, quick) + [g_program(rng) for _ in range(350 if quick else 2500)]
    for p in progs:
        p.setdefault("dir", rng.random() < 0.5)
        p["facts"] = facts(p["body"])
    check_consumer_table(ctx, progs)
    check_alphabet_against_model(ctx)
    u8 = utf8_coverage(progs)
    ctx.cov["utf8_alphabet"] = u8
    if u8["lead_bytes_missing"] or u8["boundary_code_points_missing"] or u8["lead_bytes_as_data_missing"]:
        ctx.broken.append("generator self-check: the string alphabet does not cover the whole UTF-8 table: %s" % u8)
    # a first batch across all streams: if the implementation already fails broadly there (a mutant that makes
    # loops endless costs CASE_TIMEOUT_MS per program) the rest of the run adds nothing but time
    first = progs[::7]
    rest = [p for i, p in enumerate(progs) if i % 7]
    done = evaluate(ctx, first, "first")
    for p in done:
        judge(ctx, p, stats)
    if len(ctx.violations) >= EARLY_STOP:
        ctx.notes.append("stopped after the first batch (%d of %d programs): %d violations already" % (
            len(first), len(progs), len(ctx.violations)))
    else:
        more = evaluate(ctx, rest, "main")
        for p in more:
            judge(ctx, p, stats)
        done = done + more
    # shrink the first unknown violation (bounded), keep the report short
    fresh = [v for v in ctx.violations if not v.get("known_class")]
    if fresh:
        v = fresh[0]
        p0 = next((p for p in done if p["src"] == v["input"]), None)
        if p0 is not None and p0["spec"] != ["SKIP"] and public(p0["impl"]) != p0["spec"]:
            small = shrink(ctx, p0)
            v.update({"input": small["src"], "expected": small["spec"], "actual": small["impl"],
                      "wire": wire_of(small)})
    known = [v for v in ctx.violations if v.get("known_class")]
    firsts = {}
    for v in known:
        firsts.setdefault(v["known_class"], v)
    ctx.violations[:] = fresh[:5] + list(firsts.values())
    ctx.corr_broken[:] = ctx.corr_broken[:5]
    ctx.broken[:] = ctx.broken[:5]
    nt = {wire_of(p) for p in done if nontrivial(p)}
    streams = {}
    kinds = {}
    for p in done:
        streams[p["stream"]] = streams.get(p["stream"], 0) + 1
        for k in p["facts"]["kinds"]:
            kinds[k] = kinds.get(k, 0) + 1
    dist = {
        "streams": streams, "base_kinds": kinds,
        "chain_depth": {str(d): sum(1 for p in done if p["facts"]["chain"] == d) for d in range(4)},
        "loop_nesting": {str(d): sum(1 for p in done if p["facts"]["nest"] == d) for d in range(5)},
        "early_exits_measured": sum(1 for p in done if p.get("early", 0) >= 1),
        "function_mode": sum(1 for p in done if p["fun"]),
        "with_break": sum(1 for p in done if has(p["body"], "break")),
        "with_continue": sum(1 for p in done if has(p["body"], "continue")),
        "with_return": sum(1 for p in done if has(p["body"], "return")),
        "with_mutation": sum(1 for p in done if has(p["body"], "push") or has(p["body"], "pop")),
        "with_manual_next": sum(1 for p in done if has(p["body"], "next")),
        "markers_compared": sum(len(p["mech_h"]) for p in done),
    }
    if stats["model_fuel"]:
        ctx.notes.append("%d programs ran out of model fuel (skipped): %s" % (stats["model_fuel"], stats.get("fuel_wires", [])[:3]))
    t0 = time.time()
    # quick: every program the list-level Spec leaves open (there the reference interpreter is the only second opinion
    # besides M) + every 4th of the others
    refset = done if not quick else ([p for p in done if p["spec"] == ["SKIP"]] + [p for i, p in enumerate(done) if p["spec"] != ["SKIP"] and i % 4 == 0])
    refstats = reference_compare(ctx, refset, REF_BUDGET_S if quick else REF_BUDGET_THOROUGH_S) if not ctx.violations else {"compared": 0, "skipped": "violations found"}
    TIMING["reference_interpreter"] = round(time.time() - t0, 1)
    sample = next((p for p in done if nontrivial(p)), done[0])
    ctx.cov.update({
        "evaluations": len(done),
        "distinct_nontrivial": len(nt),
        "rule": "programs of IterLang: directed streams (every iterable kind x {empty, one, many, multi-byte} x chains of depth 0..3; "
                "every placement of break/continue/return x kind x iteration x before/after the body x single/inner/outer loop; "
                "shared iterators with manual next(); two loops over one iterable; push/pop/rebinding of the iterated vector; "
                "subclass sentinel; bodies with locals; strings over every lead byte 0xC2..0xF4 and every width/second-byte "
                "boundary of UTF-8, iterated and as data: see utf8_alphabet) + random compositions.  non-trivial = a chain of depth >= 2 or a nested "
                "loop, the iterable has >= 2 elements, and the model measured at least one round ended by break/return "
                "(distinct wire encodings counted)",
        "traces_validated_against_impl": stats["checked"],
        "spec_compared": stats["spec_checked"], "spec_undetermined": stats["spec_skip"],
        "reference_interpreter": refstats,
        "input_distribution": dist,
        "timing_s": dict(TIMING),
        "cases_rerun_alone_after_timeout": {"rerun": RETRIED[0], "finished_then": RETRIED[1]},
        "samples": [sample["src"][sample["src"].index("var c0"):][:1500], wire_of(sample)],
    })


def search(ctx):
    """obligations or correspondences broken: look for a failing input with the thorough generators"""
    old = ctx.tier
    ctx.tier = "thorough"
    try:
        run(ctx)
    finally:
        ctx.tier = old
