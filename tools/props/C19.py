"""C19 - numbers survive text: printing and parsing round-trip exactly; number lexing never absorbs a `.`
that starts a method call or a range.

Theorems (coq/props/C19.v over Num/NumText/NumLex/NumRound/NumInterval/NumShortest/NumDigits/NumSrcModel): print/parse
round trip for ALL valid doubles, shape of printed text, a literal / to_num text denotes A NEAREST double (full statement
incl. the early exits), rounding interval iff, monotonicity, integral <-> printed without '.', printed digits are the
shortest (<= 17), the four lexing theorems for every digit string and continuation, printed text re-lexes as one Number.
Tie: (t) translator: structure of value.rs Display arm (-0 branch), scanner.rs number() (peek_next look-ahead),
core.rs string_to_num / compiler.rs number (parse the text unchanged) -> gen/NumSrc.v, required true by props;
(a) printing  impl == M (print_f64) and impl == S (to_num / literal of the printed text gives back the bits);
(b) parsing   impl == M (parse_f64) and impl == S (exact rational nearest-double oracle) on short decimals,
    long digit strings, exact midpoints between adjacent doubles (derived from the model) +- 1 unit, malformed;
(c) lexing    programs `print(<d1><continuation>);` impl == S (split known by construction) and M == S;
(d) routes    every statement that turns a number into text (print, interpolation alone / inside text / several parts,
    String.from, concatenation, vec / tuple / map / nested display, thrown value, error message) fed with the literal TEXT
    (non-canonical spellings) and with a variable holding the same double: all must print the canonical text;
(e) sequences (round 9) every route fed with 2-4 numbers one after the other (pairs that are == but print differently, or != but
    equal under a cast / rounding / sign / word of the bits; all orderings up to length 3; variable and literal forms), and a LENGTH
    ladder 17..1100 (thorough ..5000) of numbers through the routes inside ONE Vm: each position must show the text the
    single-number route gives (size-independent oracle); side condition C19_src_no_number_memory (no float-typed Vm field /
    static, route bodies touch no state)."""
import json
import os
import re
import struct
import time
from concurrent.futures import ThreadPoolExecutor
from fractions import Fraction

import yvlib
from yvlib import hx, log

LEVEL = "proof"
TRUSTED = [
    "Coq 8.16.1 kernel (coqc), vm_compute; no native_compute, no extraction",
    "translator/translate_c19.py + rustlex.py (token-level recognition of the Display arm, Scanner::number, string_to_num, Parser::number)",
    "harness `yv` (ext_c19.rs: numsnips/numfmt; host globals x, r of module main), tools/*.py; Python Fraction arithmetic for the nearest-double oracle",
    "modelled, not verified: Rust core::fmt float formatting (flt2dec shortest) and core::num::dec2flt = NumText.print_f64 / parse_f64; tested on every run",
]
ASSUMPTIONS = [
    "NaN is one class: sign and payload of a NaN are not represented in the model and not compared",
    "print_f64 is proved to round-trip and to give the SHORTEST digit string (<= 17 digits, fallback never taken); WHICH of several equally short candidates is printed (closest to x, ties to the larger) is only tested against the implementation",
    "integrality is stated with the arithmetic predicate integral_fin (m*2^e is an integer); its agreement with Num.is_integral (SpecFloat ftrunc/feqb) is checked on samples only",
]

SIGN = 1 << 63
INF = 0x7FF0000000000000
QNAN = 0x7FF8000000000000
MASK = (1 << 64) - 1


def f2b(x):
    return struct.unpack("<Q", struct.pack("<d", x))[0]


def is_nan_bits(b):
    return (b & ~SIGN & MASK) > INF


def mag_value(mb):
    """exact value of a non-negative double given by its bits (INF is taken as 2^1024 for rounding purposes)"""
    ex = mb >> 52
    mant = mb & ((1 << 52) - 1)
    if ex == 0:
        return Fraction(mant, 1 << 1074)
    if ex == 2047:
        return Fraction(1 << 1024)
    m = mant + (1 << 52)
    e = ex - 1075
    return Fraction(m << e) if e >= 0 else Fraction(m, 1 << -e)


def is_nearest(v, mb):
    """Spec oracle: mb (magnitude bits, no NaN) is A nearest double to the rational v >= 0, ties to even."""
    if mb > INF:
        return False
    d = abs(v - mag_value(mb))
    for nb in (mb - 1, mb + 1):
        if 0 <= nb <= INF:
            dn = abs(v - mag_value(nb))
            if dn < d or (dn == d and mb & 1):
                return False
    return True


DEC_RE = re.compile(r"([+-]?)([0-9]*)(?:\.([0-9]*))?(?:[eE]([+-]?[0-9]+))?")
LIT_RE = re.compile(r"[0-9]+(\.[0-9]+)?")


def dec_value(t):
    """(negative, Fraction | 'inf' | 'zero' | None) for decimal texts that str::parse::<f64> accepts"""
    m = DEC_RE.fullmatch(t)
    if not m or (not m.group(2) and not m.group(3)):
        return None
    ip, fp, ex = m.group(2) or "", m.group(3) or "", int(m.group(4) or "0")
    mant = int((ip + fp) or "0")
    e10 = ex - len(fp)
    neg = m.group(1) == "-"
    if mant == 0:
        return neg, Fraction(0)
    if e10 > 5000:
        return neg, "inf"
    if e10 < -5000 - len(ip + fp):
        return neg, "zero"
    return neg, (Fraction(mant * 10 ** e10) if e10 >= 0 else Fraction(mant, 10 ** -e10))


def spec_parse_ok(t, bits):
    """does `bits` satisfy the Spec for the decimal text t?  None = text outside the decimal grammar"""
    dv = dec_value(t)
    if dv is None:
        return None
    neg, v = dv
    if is_nan_bits(bits) or bool(bits & SIGN) != neg:
        return False
    mb = bits & ~SIGN & MASK
    if v == "inf":
        return mb == INF
    if v == "zero":
        return mb == 0
    return is_nearest(v, mb)


def sig_digits(text):
    return len(text.lstrip("-").replace(".", "").strip("0"))


def render(d, e10):
    """positional text of d * 10^e10 (d > 0)"""
    ds = str(d)
    if e10 >= 0:
        return ds + "0" * e10
    k = -e10
    if k < len(ds):
        return ds[:len(ds) - k] + "." + ds[len(ds) - k:]
    return "0." + "0" * (k - len(ds)) + ds


# ------------------------------------------------------------------------------------------
# running the two sides

PRINT_SRC = 'var s = String.from(x); print(s); print("${x}"); r = s.to_num();'


def split_snips(rec):
    """numsnips record -> list of dicts per snippet"""
    res = []
    cur = None
    for l in rec.lines:
        f = l.split(" ")
        if f[0] == "SNIP":
            cur = {"D": None, "O": [], "R": None, "M": [], "G": None}
            res.append(cur)
        elif cur is None:
            continue
        elif f[0] == "D":
            cur["D"] = yvlib.unhx(f[1]).decode("utf-8", "replace")
        elif f[0] == "O":
            cur["O"].append(yvlib.unhx(f[1]).decode("utf-8", "replace") if len(f) > 1 else "")
        elif f[0] == "M":
            cur["M"].append(yvlib.unhx(f[1]).decode("utf-8", "replace") if len(f) > 1 else "")
        elif f[0] == "R":
            cur["R"] = f[1] if f[1] != "err" else "err:" + f[2]
        elif f[0] == "G":
            cur["G"] = f[1]
    return res


def run_snips(binary, items, batch=100):
    """items: list of (bits|None, src).  One Vm per batch.  Returns one dict per item (None when the batch died)."""
    lines = []
    for i in range(0, len(items), batch):
        lines.append("numsnips " + " ".join("%s:%s" % ("-" if b is None else str(b), hx(s)) for b, s in items[i:i + batch]))
    recs = yvlib.run_harness(binary, lines, case_timeout_ms=60000)
    out = []
    for i, rec in zip(range(0, len(items), batch), recs):
        n = len(items[i:i + batch])
        sn = split_snips(rec)
        if rec.crashed or rec.result[0] == "panic" or len(sn) != n or any(s["G"] is None for s in sn):
            # re-run one by one so that a single bad item does not hide the others
            if n > 1:
                sn = run_snips(binary, items[i:i + batch], batch=1)
            else:
                sn = [{"D": None, "O": [], "R": "crash:%s" % (rec.result,), "M": [], "G": None}]
        out.extend(sn)
    return out


def run_real(binary, items, batch=40):
    """like run_snips, but through the harness command `numreal`: the Vm keeps yarel's own `print` native, whose lines
    arrive raw on stdout between the escaped framing lines"""
    lines = []
    for i in range(0, len(items), batch):
        lines.append("numreal " + " ".join("%s:%s" % ("-" if b is None else str(b), hx(s)) for b, s in items[i:i + batch]))
    recs = yvlib.run_harness(binary, lines, case_timeout_ms=60000)
    out = []
    for i, rec in zip(range(0, len(items), batch), recs):
        n = len(items[i:i + batch])
        sn, cur = [], None
        for l in rec.lines:
            if l.startswith("@@SNIP "):
                cur = {"D": None, "O": [], "R": None, "M": [], "G": None}
                sn.append(cur)
            elif cur is None or cur["G"] is not None:
                continue
            elif l.startswith("@@D "):
                cur["D"] = yvlib.unhx(l[4:]).decode("utf-8", "replace")
            elif l.startswith("@@R "):
                f = l.split(" ")
                cur["R"] = "ok" if f[1] == "ok" else "err:" + f[2]
            elif l.startswith("@@M "):
                cur["M"].append(yvlib.unhx(l[4:]).decode("utf-8", "replace"))
            elif l.startswith("@@G "):
                cur["G"] = l[4:]
            else:
                cur["O"].append(l)
        if rec.crashed or len(sn) != n or any(x["G"] is None for x in sn):
            if n > 1:
                sn = run_real(binary, items[i:i + batch], batch=1)
            else:
                sn = [{"D": None, "O": [], "R": "crash:%s" % (rec.result,), "M": [], "G": None}]
        out.extend(sn)
    return out


def both(f, g):
    """implementation side and model side at the same time"""
    with ThreadPoolExecutor(max_workers=2) as ex:
        a, b = ex.submit(f), ex.submit(g)
        return a.result(), b.result()


def gbits(g):
    """global r after a snippet -> bits | None"""
    if g and g.startswith("n"):
        return int(g[1:])
    return None


def coq_lists(fn, groups, per_term, tag):
    """evaluates run_*_w over wire groups, `per_term` groups per term; returns flat list of results (None on failure)"""
    terms = []
    for i in range(0, len(groups), per_term):
        terms.append('%s "%s"%%string' % (fn, ";".join(groups[i:i + per_term])))
    nshards = max(1, min(2 * yvlib.NPROC, len(terms)))
    shard = max(1, (len(terms) + nshards - 1) // nshards)
    vals = yvlib.coq_eval(["YV:NumRun"], terms, shard_size=shard, tag=tag)
    out = []
    for i, v in zip(range(0, len(groups), per_term), vals):
        n = len(groups[i:i + per_term])
        parts = v.split(",") if v is not None else [None] * n
        if len(parts) != n:
            parts = [None] * n
        out.extend(parts)
    return out


def wire_text(t):
    return " ".join(str(c) for c in t.encode("utf-8"))


# ------------------------------------------------------------------------------------------
# (a) printing


def boundary_bits():
    b = [0, SIGN, 1, 2, 3, (1 << 52) - 1, 1 << 52, (1 << 52) + 1, INF - 1, INF, INF | SIGN, QNAN, QNAN | SIGN | 1,
         INF + 1, f2b(0.1), f2b(1.0 / 3.0), f2b(0.3), f2b(2.0 ** 50 + 0.25), f2b(2.0 ** 50 + 0.75), f2b(1e21), f2b(1e-7),
         f2b(5e-324), f2b(123456789012345680.0), f2b(0.5), f2b(1.5), f2b(100.0), f2b(1e16), f2b(9007199254740993.0)]
    for k in range(-1074, 1024, 7):
        b.append(f2b(2.0 ** k))
    for k in (-1074, -1073, -1023, -1022, -1021, -1, 0, 1, 52, 53, 54, 62, 63, 64, 1022, 1023):
        x = f2b(2.0 ** k)
        b += [x, x + 1, max(x - 1, 0)]
    for k in range(-30, 31):
        x = f2b(float("1e%d" % k))
        b += [x, x + 1, x - 1]
    for k in (-323, -308, -307, -100, 100, 200, 300, 308):
        b.append(f2b(float("1e%d" % k)))
    for k in range(1, 40):
        b += [f2b(float(k)), f2b(k / 10.0), f2b(float(10 ** (k % 23)) + k)]
    b += [x | SIGN for x in b if x < INF and x % 5 == 0]
    seen = set()
    return [x for x in b if not (x in seen or seen.add(x))]


def random_bits(rng, n):
    res = []
    for _ in range(n):
        style = rng.random()
        if style < 0.55:
            x = rng.getrandbits(64)
        elif style < 0.75:          # everyday magnitudes
            x = (rng.randint(1023 - 40, 1023 + 70) << 52) | rng.getrandbits(52) | (rng.getrandbits(1) << 63)
        elif style < 0.85:          # few significant bits
            x = (rng.randint(1023 - 60, 1023 + 60) << 52) | (rng.getrandbits(rng.randint(1, 12)) << rng.randint(30, 40))
        elif style < 0.93:          # small integers and k/10^j
            x = f2b(rng.randint(0, 10 ** rng.randint(1, 17)) / float(10 ** rng.randint(0, 6)))
        else:                        # subnormals
            x = rng.getrandbits(rng.randint(1, 52)) | (rng.getrandbits(1) << 63)
        res.append(x & MASK)
    return res


def check_print(ctx, bits, tag):
    binary = ctx.harness("debug")
    sn, model = both(lambda: run_snips(binary, [(b, PRINT_SRC) for b in bits]),
                     lambda: coq_lists("run_print_w", [str(b) for b in bits], 20, "C19print" + tag))
    texts = []
    nontriv = set()
    for b, s, m in zip(bits, sn, model):
        nan = is_nan_bits(b)
        t = s["D"]
        texts.append(t)
        if s["R"] != "ok" or t is None or len(s["O"]) != 2:
            ctx.violation("printing a number and converting the text back failed", kind="print", bits=[b],
                          input="x = f64::from_bits(%d); %s" % (b, PRINT_SRC), expected="ok", actual=str((s["R"], s["M"], s["O"])))
            continue
        if s["O"][0] != t or s["O"][1] != t:
            ctx.violation("String.from / interpolation / Display print one number differently", kind="print", bits=[b],
                          input="x = f64::from_bits(%d); %s" % (b, PRINT_SRC), expected=t, actual=s["O"])
            continue
        back = gbits(s["G"])
        ok = back is not None and ((nan and is_nan_bits(back)) or (not nan and back == b))
        if not ok:
            ctx.violation("to_num of the printed text is not the number that was printed", kind="print", bits=[b],
                          input="x = f64::from_bits(%d); %s" % (b, PRINT_SRC), expected="r has bits %d" % b,
                          actual="text %r, r = %s" % (t[:80], s["G"]))
            continue
        fin = not nan and (b & ~SIGN & MASK) < INF
        if fin:
            v = mag_value(b & ~SIGN & MASK)
            if v.denominator == 1 and "." in t:
                ctx.violation("an integral value prints with a fraction part", kind="print", bits=[b],
                              input="x = f64::from_bits(%d); print(x);" % b, expected="no '.'", actual=t[:80])
                continue
        if m is None:
            ctx.corr_broken.append("model evaluation failed (run_print_w) for bits %d" % b)
        elif m != t:
            ctx.corr_broken.append("impl != M (print_f64) for bits %d: impl %r model %r" % (b, t[:60], m[:60]))
        if fin and sig_digits(t) >= 2:
            nontriv.add(b)
    # model-internal: Num.is_integral == integral_finb (the predicate of the integrality theorems) == exact arithmetic
    for b, v in zip(bits, coq_lists("run_intg_w", [str(b) for b in bits], 200, "C19intg" + tag)):
        if v is None or v == "T-":
            continue
        exact = mag_value(b & ~SIGN & MASK).denominator == 1
        if v[0] != "T" or (v[1] == "I") != exact:
            ctx.broken.append("integrality predicates disagree for bits %d: is_integral/integral_finb %s, exact %s" % (b, v, exact))
    # the printed text as a source literal (finite values; a leading '-' is the unary minus applied to the literal)
    lit = [(b, t) for b, t in zip(bits, texts) if t is not None and not is_nan_bits(b) and (b & ~SIGN & MASK) < INF]
    sn2 = run_snips(binary, [(b, "r = %s; print(%s == x);" % (t, t)) for b, t in lit])
    for (b, t), s in zip(lit, sn2):
        back = gbits(s["G"])
        eq = s["O"] == ["true"]
        if s["R"] != "ok" or back != b or not eq:
            ctx.violation("the printed text used as a source literal does not denote the number", kind="print", bits=[b],
                          input="x = f64::from_bits(%d); r = %s; print(%s == x);" % (b, t[:400], t[:400]),
                          expected="r has bits %d, prints true" % b, actual=str((s["R"], s["M"][:1], s["O"], s["G"])))
    return len(bits) + len(lit), nontriv, list(zip(bits, texts))


# ------------------------------------------------------------------------------------------
# (b) parsing

MALFORMED = ["", ".", "1.", ".5", "1e5", "+1", " 1", "1 ", "inf", "-Infinity", "nan", "0x10", "1_0", "١", "-", "+", "e5", "1e",
             "1e+", "1.e2", "+.5", "-.5e1", "1E+2", "iNf", "-INFINITY", "+inf", "-nan", "NaN", "infinit", "infinityx", "1..2", "1.2.3",
             "--1", "+-1", "1e1.5", "\t1", "1\n", "1f", "1d", "0b1", "1,5", "１", "1e400", "-1e400", "1e-400", "-1e-400",
             "1e99999999999", "1e-99999999999", "0e99999999999", "00012", "-0", "-0.0", "0.000", "12345678901234567890",
             "9007199254740993", "9007199254740992.5", "4.9406564584124654e-324", "2.4703282292062327e-324", "2.4703282292062328e-324",
             "1.7976931348623158e308", "1.7976931348623159e308", "179769313486231580793728971405303415079934132710037826936173778980444968292764750946649017977587207096330286416692887910946555547851940402630657488671505820681908902000708383676273854845817711531764475730270069855571366959622842914819860834936475292719074168444365510704342711559699508093042880177904174497791",
             "179769313486231580793728971405303415079934132710037826936173778980444968292764750946649017977587207096330286416692887910946555547851940402630657488671505820681908902000708383676273854845817711531764475730270069855571366959622842914819860834936475292719074168444365510704342711559699508093042880177904174497792"]


def short_decimals():
    """every decimal text with at least one integer digit and at most 4 digits in all around the point"""
    res = []
    for total in range(1, 5):
        for i in range(1, total + 1):
            f = total - i
            for n in range(10 ** total):
                ds = "%0*d" % (total, n)
                res.append(ds[:i] + ("." + ds[i:] if f else ""))
    return res


def long_decimal(rng):
    n = rng.randint(5, 40)
    style = rng.random()
    if style < 0.5:
        ds = "".join(rng.choice("0123456789") for _ in range(n))
    elif style < 0.75:   # digits then a tail of 0/9 (just below / above a shorter decimal)
        k = rng.randint(1, 17)
        ds = "".join(rng.choice("0123456789") for _ in range(k)) + rng.choice("09") * (n - k) + rng.choice(["", "1", "5"])
    else:                # around 2^53 .. 2^64 and their decimal fractions
        ds = str(rng.randint(2 ** 52, 2 ** 64)) + "".join(rng.choice("05") for _ in range(rng.randint(0, 12)))
    p = rng.randint(1, len(ds))
    return ds[:p] + ("." + ds[p:] if p < len(ds) else "")


def midpoint_bits(rng, n):
    res = [0, 1, (1 << 52) - 1, 1 << 52, INF - 1, f2b(2.0 ** 53), f2b(2.0 ** 53) - 1, f2b(1.0), f2b(1.0) - 1, f2b(0.1), f2b(2.0 ** 63), f2b(2.0 ** 64) - 1]
    for _ in range(n):
        style = rng.random()
        if style < 0.8:    # midpoints with at most ~40 significant digits
            ex = rng.randint(1023 - 28, 1023 + 75)
        elif style < 0.9:
            ex = rng.randint(1, 2046)
        else:
            ex = rng.choice([0, 1, 2046, 1023 + 52, 1023 + 53])
        mant = rng.getrandbits(52) if rng.random() < 0.7 else rng.choice([0, 1, (1 << 52) - 1, (1 << 52) - 2, 1 << 51])
        res.append((ex << 52) | mant)
    return res


def tonum_src(t):
    return 'try { r = "%s".to_num(); } catch e { print(type(e)); print(e.context); }' % t


def check_parse(ctx, texts, tag, lit=True):
    """texts: list of str.  to_num on every text; the same text as a literal when it is one."""
    binary = ctx.harness("debug")
    texts = list(dict.fromkeys(texts))
    items = [(None, tonum_src(t)) for t in texts]
    lits = [t for t in texts if lit and LIT_RE.fullmatch(t)]
    items += [(None, "r = %s;" % t) for t in lits]
    sn, model = both(lambda: run_snips(binary, items),
                     lambda: coq_lists("run_parse_w", [wire_text(t) for t in texts], 25, "C19parse" + tag))
    mres = dict(zip(texts, model))
    nontriv = set()
    for idx, (t, s) in enumerate(zip(texts + lits, sn)):
        via = "to_num" if idx < len(texts) else "literal"
        src = items[idx][1]
        m = mres.get(t)
        bits = gbits(s["G"])
        if s["R"] != "ok":
            impl = "X:" + str(s["R"])
        elif bits is not None:
            impl = "N" if is_nan_bits(bits) else str(bits)
        elif via == "to_num" and s["O"] == ["<class ValueError>", "Unable to parse number from '%s'." % t]:
            impl = "E"
        else:
            impl = "X:" + str(s["O"])[:200]
        # Spec: a decimal text denotes a nearest double
        ok = spec_parse_ok(t, bits) if bits is not None else (False if dec_value(t) is not None else None)
        if ok is False:
            ctx.violation("a decimal text (%s) does not denote the double nearest to it" % via, kind="parse", texts=[hx(t)],
                          input=src[:600], expected="a nearest double (exact rational comparison)%s" % (", model %s" % m if m else ""),
                          actual=impl)
            continue
        if m is None:
            ctx.corr_broken.append("model evaluation failed (run_parse_w) for %r" % t[:60])
        elif impl != m:
            ctx.corr_broken.append("impl != M (parse_f64) via %s for %r: impl %s model %s" % (via, t[:80], impl, m))
        if bits is not None and not is_nan_bits(bits) and ok:
            dv = dec_value(t)
            if isinstance(dv[1], Fraction) and dv[1] != 0 and mag_value(bits & ~SIGN & MASK) != dv[1]:
                nontriv.add(t)
    return len(items), nontriv


def gen_mid_texts(ctx, n, tag):
    """texts at / just above / just below the exact midpoint between adjacent doubles, derived from the model"""
    mb = list(dict.fromkeys(midpoint_bits(ctx.rng, n)))
    mids = coq_lists("run_mid_w", [str(b) for b in mb], 25, "C19mid" + tag)
    texts = []
    for b, m in zip(mb, mids):
        if not m or m == "-":
            if m is None:
                ctx.corr_broken.append("model evaluation failed (run_mid_w) for bits %d" % b)
            continue
        d, j = [int(x) for x in m.split(":")]
        # cross-check the model's midpoint against exact rational arithmetic
        up = mag_value(b + 1)
        if Fraction(d * 10 ** j if j >= 0 else Fraction(d, 10 ** -j)) != (mag_value(b) + up) / 2:
            ctx.broken.append("run_mid_w is not the midpoint for bits %d" % b)
            continue
        texts += [render(d, j), render(d * 10 + 1, j - 1), render(d * 10 - 1, j - 1)]
        if j < -3:
            texts.append(render(d * 1000 + 1, j - 3))
    return texts


# ------------------------------------------------------------------------------------------
# (c) lexing

NAMES = ["foo", "len", "e", "e5", "x1", "abs", "_a", "to_num", "E3"]


def gen_lex_case(rng):
    """(program, d1, continuation kind, expected split (lexeme, rest), expected outcome by the Spec)"""
    style = rng.random()
    if style < 0.7:
        d1 = str(rng.randint(0, 10 ** rng.randint(1, 9) - 1))
    elif style < 0.85:
        d1 = "0" * rng.randint(1, 3) + str(rng.randint(0, 99999))
    else:
        d1 = str(rng.randint(10 ** 15, 10 ** 19))
    d2 = rng.choice(["0", "5", "25", "50", "000", "001", str(rng.randint(0, 10 ** rng.randint(1, 12)))])
    d3 = str(rng.randint(0, 10 ** rng.randint(1, 9) - 1))
    name = rng.choice(NAMES)
    kind = rng.choice(["end", "frac", "range", "range_sp", "method", "call", "dot_end", "dotdot_end", "frac_dot", "frac_frac",
                       "frac_range", "frac_method", "dotdotdot", "sp_frac", "exp", "dot_sp_digit"])
    if kind == "end":
        cont, lexeme, out = "", d1, ("num", d1)
    elif kind == "frac":
        cont, lexeme, out = "." + d2, d1 + "." + d2, ("num", d1 + "." + d2)
    elif kind == "range":
        cont, lexeme, out = ".." + d3, d1, ("range", d1, d3)
    elif kind == "range_sp":
        cont, lexeme, out = " .. " + d3, d1, ("range", d1, d3)
    elif kind == "method":
        cont, lexeme, out = "." + name, d1, ("attr", name)
    elif kind == "call":
        cont, lexeme, out = "." + name + "()", d1, ("attr", name)
    elif kind == "dot_end":
        cont, lexeme, out = ".", d1, ("compile", "Expected property name after '.'.")
    elif kind == "dotdot_end":
        cont, lexeme, out = "..", d1, ("compile", "Expected expression.")
    elif kind == "frac_dot":
        cont, lexeme, out = "." + d2 + ".", d1 + "." + d2, ("compile", "Expected property name after '.'.")
    elif kind == "frac_frac":
        cont, lexeme, out = "." + d2 + "." + d3, d1 + "." + d2, ("compile", "Expected property name after '.'.")
    elif kind == "frac_range":
        cont, lexeme = "." + d2 + ".." + d3, d1 + "." + d2
        # the literal is first rounded to a double: integral doubles are accepted as range bounds
        out = ("range", lexeme, d3) if Fraction(float(lexeme)).denominator == 1 else ("valerr", lexeme)
    elif kind == "frac_method":
        cont, lexeme, out = "." + d2 + "." + name, d1 + "." + d2, ("attr", name)
    elif kind == "dotdotdot":
        cont, lexeme, out = "..." + d3, d1, ("compile", "Expected expression.")
    elif kind == "sp_frac":
        cont, lexeme, out = " ." + d2, d1, ("compile", "Expected property name after '.'.")
    elif kind == "exp":
        cont, lexeme, out = "e5", d1, ("compile", "Expected ')' after arguments.")
    else:
        cont, lexeme, out = ". " + d2, d1, ("compile", "Expected property name after '.'.")
    text = d1 + cont + ");"
    return {"prog": "print(" + text, "text": text, "kind": kind, "lexeme": lexeme, "rest": text[len(lexeme):], "out": out}


def check_lex(ctx, cases, tag):
    binary = ctx.harness("debug")
    recs, model = both(lambda: yvlib.run_harness(binary, ["run - " + hx(c["prog"]) for c in cases]),
                       lambda: coq_lists("run_lex_w", [wire_text(c["text"]) for c in cases], 25, "C19lex" + tag))
    # values of the literals involved (for the expected printed text / range bounds): from the model
    nontriv = set()
    for c, r, m in zip(cases, recs, model):
        if m is None or m == "X":
            ctx.corr_broken.append("model: no Number token at %r (run_lex_w)" % c["text"][:60])
            continue
        mlex, mrest, mbits, mprint = m.split("|")
        mlex = yvlib.unhx(mlex or "-").decode()
        mrest = yvlib.unhx(mrest or "-").decode()
        if (mlex, mrest) != (c["lexeme"], c["rest"]):
            ctx.broken.append("M != S: lex_number splits %r into %r + %r, the Spec says %r + %r" % (
                c["text"], mlex, mrest, c["lexeme"], c["rest"]))
            continue
        out = c["out"]

        def ival(d):
            """integer a digit string denotes as a range bound: literal -> nearest double -> `as isize`"""
            v = int(Fraction(float(d)))   # Python's float() is correctly rounded; `as isize` saturates
            return min(v, 2 ** 63 - 1)
        if out[0] == "num":
            expect = {"out": [mprint], "res": "ok"}
        elif out[0] == "range":
            expect = {"out": ["Range(%d, %d)" % (ival(out[1]), ival(out[2]))], "res": "ok"}
        elif out[0] == "attr":
            expect = {"out": [], "res": "err", "detail": "AttributeError", "msg": "Undefined property '%s'." % out[1]}
        elif out[0] == "valerr":
            expect = {"out": [], "res": "err", "detail": "ValueError", "msg": "Expected an integer value but found"}
        else:
            expect = {"out": [], "res": "err", "detail": "CompileError", "msg": out[1]}
        got = r.canon()
        ok = got["out"] == expect["out"] and got["res"] == expect["res"]
        if ok and expect["res"] == "err":
            ok = got["detail"] == expect["detail"] and any(expect["msg"] in x for x in got["msgs"])
        if not ok:
            what = ("number lexing: `%s` does not behave as Number %r followed by %r" % (c["prog"][:80], c["lexeme"], c["rest"])
                    if out[0] != "num" else
                    "the literal in `%s` does not print as the double nearest to it prints" % c["prog"][:80])
            ctx.violation(what,
                          kind="lex", progs=[c], input=c["prog"], expected=expect, actual=got)
        if c["kind"] not in ("end", "exp"):
            nontriv.add(c["prog"])
    return len(cases), nontriv


# ------------------------------------------------------------------------------------------
# (d) every route that turns a number into text, fed with the literal TEXT and with a variable

ROUTES = [  # (source with @E = the expression, expected line with @T = canonical text, which values)
    ('print(@E);', '@T', 'all'),
    ('print("${@E}");', '@T', 'all'),
    ('print("a${@E}b");', 'a@Tb', 'all'),
    ('print("${@E}|${@E}, ${x}");', '@T|@T, @T', 'all'),
    ('print(String.from(@E));', '@T', 'all'),
    ('print("" + String.from(@E) + "");', '@T', 'all'),
    ('print("${String.from(@E)}");', '@T', 'all'),
    ('print([@E]);', '[@T]', 'all'),
    ('print((@E,));', '(@T,)', 'all'),
    ('print([@E, (@E, x)]);', '[@T, (@T, @T)]', 'all'),
    ('print("${[@E]}");', '[@T]', 'all'),
    ('print(String.from((@E,)));', '(@T,)', 'all'),
    ('try { throw @E; } catch e { print(e); }', '@T', 'all'),
    ('print({@E: @E});', '{@T: @T}', 'finite'),
    ('try { [0][@E]; } catch e { print(e.context); }', "Expected an integer value but found '@T'.", 'fraction'),
    ('print(@E == x);', 'true', 'number'),
]


def routes_program(expr, kind):
    """(source, expected line templates) for one expression; kind in {'finite+fraction', ...} as a set"""
    src, exp = [], []
    for r, e, cond in ROUTES:
        if cond == 'all' or cond in kind:
            src.append(r.replace('@E', expr))
            exp.append(e)
    return src, exp


def py_canon(x):
    """positional shortest text of a finite Python float (used only to BUILD non-canonical spellings)"""
    from decimal import Decimal
    t = format(Decimal(repr(abs(x))), 'f')
    if '.' in t:
        t = t.rstrip('0').rstrip('.')
    return t or '0'


def gen_literals(rng, n):
    """unsigned literal texts whose spelling is mostly NOT the canonical print of the double they denote, with a sign flag"""
    from decimal import Decimal
    fixed = ["1.0", "007", "2.50", "100.000", "9007199254740993", "0.1000000000000000055511151231257827", "0.10", "00.5", "0.0",
             "0.000", "000", "1.50", "18014398509481985", "123456789012345678901234567890", "0.30000000000000004", "0.3000000000000000444",
             "4.9406564584124654e-324".replace("e-324", "")[:0] + "0." + "0" * 323 + "49406564584124654", "0." + "0" * 330 + "1",
             "1" + "0" * 22 + ".0", "9" * 400, "179769313486231570" + "0" * 291 + ".50"]
    res = [(t, False) for t in fixed]
    while len(res) < n:
        style = rng.random()
        if style < 0.25:
            x = float(rng.randint(0, 10 ** rng.randint(1, 15)))
        elif style < 0.5:
            x = rng.randint(0, 10 ** rng.randint(1, 12)) / float(10 ** rng.randint(1, 8))
        elif style < 0.7:
            x = struct.unpack("<d", struct.pack("<Q", (rng.randint(1023 - 30, 1023 + 80) << 52) | rng.getrandbits(52)))[0]
        elif style < 0.8:
            x = float(2 ** rng.randint(52, 70) + rng.randint(0, 5))
        elif style < 0.9:
            x = struct.unpack("<d", struct.pack("<Q", (rng.randint(1, 2046) << 52) | rng.getrandbits(52)))[0]
        else:
            x = struct.unpack("<d", struct.pack("<Q", rng.getrandbits(rng.randint(1, 52))))[0]
        t0 = py_canon(x)
        v = rng.random()
        if v < 0.2:
            t = t0 + (".0" if "." not in t0 else "0") + "0" * rng.randint(0, 3)
        elif v < 0.35:
            t = "0" * rng.randint(1, 3) + t0
        elif v < 0.6:       # exact binary expansion, possibly cut or extended
            t = format(Decimal(x), 'f')
            if len(t) > 60 and rng.random() < 0.8:
                t = t[:rng.randint(25, 60)] if "." in t[:25] else t
            if "." in t and rng.random() < 0.5:
                t += rng.choice(["1", "9", "000", "5"])
        elif v < 0.75:      # integers that are not representable / too many digits
            t = str(2 ** rng.randint(53, 64) + 2 * rng.randint(0, 10 ** 6) + 1) if rng.random() < 0.5 else \
                str(rng.randint(10 ** 17, 10 ** rng.randint(18, 30)))
        elif v < 0.9:
            t = long_decimal(rng)
        else:
            t = t0
        if len(t) > 1200 or not LIT_RE.fullmatch(t):
            continue
        res.append((t, rng.random() < 0.3))
    return res[:max(n, len(fixed))]


def next_up(x):
    return struct.unpack("<d", struct.pack("<Q", f2b(x) + 1))[0]


def int_ladder(rng, nrand):
    """integral values around the integer-type boundaries: literal texts (unsigned text, negative?) and computed expressions
    (expression text, bits of its value; every operation is exact or correctly rounded in Python floats as in IEEE)"""
    ints = []
    for k in (31, 32, 52, 53, 54, 62, 63, 64, 65, 127, 128):
        p = 2 ** k
        ints += [p - 1, p, int(next_up(float(p))), p + 1]
    for k in range(15, 23):
        p = 10 ** k
        ints += [p - 1, p, p + 1, int(next_up(float(p)))]
    ints += [2 ** 64 - 1, 2 ** 63 - 1, 2 ** 63, 3 * 2 ** 62, 2 ** 64 - 2048, 2 ** 63 + 1024, 2 ** 63 + 2048, 10 ** 19, 12345678901234567890,
             2 ** 32 - 1, 2 ** 31 - 1, 2 ** 53 + 1, 2 ** 53 + 2]
    for _ in range(nrand):          # integral doubles in [2^63, 2^64), [2^53, 2^63), [2^64, 2^70)
        ex = rng.choice([63, 63, 63, rng.randint(53, 62), rng.randint(64, 70)])
        ints.append((2 ** 52 + rng.getrandbits(52)) << (ex - 52))
    lits = []
    for v in dict.fromkeys(ints):
        lits.append((str(v), False))
        lits.append((str(v), True))
        if rng.random() < 0.3:
            lits.append((str(v) + ".0", rng.random() < 0.5))
    exprs = []
    cand = [("9223372036854775808 * 1.5", 9223372036854775808.0 * 1.5), ("18446744073709551616 - 2048", 18446744073709551616.0 - 2048.0),
            ("-9223372036854775808 * 1.5", -9223372036854775808.0 * 1.5), ("4294967296 * 4294967296 - 4096", 4294967296.0 * 4294967296.0 - 4096.0),
            ("9223372036854775807 + 1025", 9223372036854775807.0 + 1025.0), ("10000000000 * 1000000000", 1e10 * 1e9),
            ("0 - 18446744073709549568", 0.0 - 18446744073709549568.0), ("4611686018427387904 * 3", 4611686018427387904.0 * 3.0),
            ("2147483647 + 1", 2147483648.0), ("9007199254740992 * 1024 + 1024", 9007199254740992.0 * 1024.0 + 1024.0),
            ("1 / 3", 1.0 / 3.0), ("0.1 + 0.2", 0.1 + 0.2), ("7 / 2", 3.5), ("0 * -1", 0.0 * -1.0)]
    for _ in range(max(4, nrand // 3)):
        a = (2 ** 52 + rng.getrandbits(52)) << rng.randint(0, 11)
        b = rng.choice([2, 4, 1.5, 3, 1024])
        op = rng.choice(["*", "+", "-"])
        bb = b if op == "*" else rng.choice([2048, 4096, 2 ** 40, 2 ** 62])
        val = {"*": float(a) * float(bb), "+": float(a) + float(bb), "-": float(a) - float(bb)}[op]
        cand.append(("%d %s %s" % (a, op, bb), val))
    for t, v in cand:
        exprs.append((t, f2b(v)))
    return lits, exprs


def check_routes(ctx, lits, rbits, tag, exprs=()):
    """lits: [(unsigned literal text, negative?)]; rbits: bit patterns fed through the variable only;
    exprs: [(expression text, bits of its value)] computed values.  Runs under yarel's OWN print native."""
    binary = ctx.harness("debug")
    items, meta = [], []
    for t, b in exprs:
        nan = is_nan_bits(b)
        fin = not nan and (b & ~SIGN & MASK) < INF
        kind = (set() if nan else {"number"}) | ({"finite"} if fin else set()) | \
            ({"fraction"} if fin and mag_value(b & ~SIGN & MASK).denominator != 1 else set())
        s1, e1 = routes_program("(" + t + ")", kind)
        s2, e2 = routes_program("x", kind)
        items.append((b, "\n".join(s1 + s2)))
        meta.append({"lit": None, "expr": t, "bits": b, "exp": e1 + e2, "src": s1 + s2})
    for t, neg in lits:
        try:
            v = float(t)
        except (ValueError, OverflowError):
            v = float("inf")
        b = f2b(-v if neg else v)
        fin = (b & ~SIGN & MASK) < INF
        kind = {"number"} | ({"finite"} if fin else set()) | ({"fraction"} if fin and mag_value(b & ~SIGN & MASK).denominator != 1 else set())
        expr = ("-" if neg else "") + t
        s1, e1 = routes_program(expr, kind)
        s2, e2 = routes_program("x", kind)
        items.append((b, "\n".join(s1 + s2)))
        meta.append({"lit": expr, "bits": b, "exp": e1 + e2, "src": s1 + s2})
    for b in rbits:
        nan = is_nan_bits(b)
        fin = not nan and (b & ~SIGN & MASK) < INF
        kind = (set() if nan else {"number"}) | ({"finite"} if fin else set()) | \
            ({"fraction"} if fin and mag_value(b & ~SIGN & MASK).denominator != 1 else set())
        s2, e2 = routes_program("x", kind)
        items.append((b, "\n".join(s2)))
        meta.append({"lit": None, "bits": b, "exp": e2, "src": s2})
    utexts = list(dict.fromkeys(t for t, _ in lits))
    sn, canon = both(lambda: run_real(binary, items, batch=40),
                     lambda: coq_lists("run_canon_w", [wire_text(t) for t in utexts], 10, "C19canon" + tag))
    cmap = dict(zip(utexts, canon))
    nontriv = set()
    nlines = 0
    for mt, s in zip(meta, sn):
        T = s["D"]
        what = None
        if s["R"] != "ok" or T is None or len(s["O"]) != len(mt["exp"]):
            what, bad = "a program printing one number through every route failed", (s["R"], s["M"][:2], len(s["O"]), len(mt["exp"]))
        else:
            nlines += len(s["O"])
            for src, e, got in zip(mt["src"], mt["exp"], s["O"]):
                want = e.replace("@T", T)
                if got != want:
                    what, bad = "a route that turns a number into text does not give the canonical text of the double", \
                        {"statement": src, "expected": want, "actual": got}
                    break
        if what:
            ctx.violation(what, kind="routes", lits=[hx(mt["lit"])] if mt["lit"] else [],
                          rbits=[] if (mt["lit"] or mt.get("expr")) else [mt["bits"]],
                          exprs=[[hx(mt["expr"]), mt["bits"]]] if mt.get("expr") else [],
                          input="x = f64::from_bits(%d); %s" % (mt["bits"], (bad.get("statement") if isinstance(bad, dict) else "\n".join(mt["src"]))[:600]),
                          expected=(bad.get("expected") if isinstance(bad, dict) else "ok")[:300] if isinstance(bad, dict) else "ok",
                          actual=(bad.get("actual")[:300] if isinstance(bad, dict) else str(bad)))
            continue
        if mt["lit"]:
            ut = mt["lit"].lstrip("-")
            m = cmap.get(ut)
            if m is None or m == "E":
                ctx.corr_broken.append("model: literal %r does not parse (run_canon_w: %s)" % (ut[:60], m))
            else:
                mb, mtxt = m.split("|")
                neg = mt["lit"].startswith("-")
                if mb != "N" and (int(mb) | (SIGN if neg else 0)) != mt["bits"]:
                    ctx.broken.append("model parse_f64 and Python float() disagree on %r: %s vs %d" % (ut[:60], mb, mt["bits"]))
                elif ("-" if neg else "") + mtxt != T:
                    ctx.corr_broken.append("impl != M (print_f64 of the literal) for %r: impl %r model %r" % (mt["lit"][:60], T[:60], mtxt[:60]))
            if ut != T.lstrip("-"):
                nontriv.add(mt["lit"])
    return nlines, nontriv


# ------------------------------------------------------------------------------------------
# (e) SEQUENCES: every number->text route fed with 2-4 numbers one after the other (round 9: a route with MEMORY - a memo
#     keyed by `==`, by a cast, by the bits, a reused buffer - is invisible when every program formats ONE number)

def num_text(b):
    """a text whose to_num() is exactly the double with these bits (NaN as a class)"""
    if is_nan_bits(b):
        return "NaN"
    return repr(struct.unpack("<d", struct.pack("<Q", b))[0])


def py_text(b):
    """canonical text of a double computed WITHOUT the implementation (Python's shortest repr, positional)"""
    if is_nan_bits(b):
        return "NaN"
    mb = b & ~SIGN & MASK
    sign = "-" if b & SIGN else ""
    if mb == INF:
        return sign + "inf"
    return sign + py_canon(struct.unpack("<d", struct.pack("<Q", mb))[0])


def host_display(ctx, binary, allbits):
    """bits -> host-side Display text.  The texts are asked for in ONE process, one after the other, so a Display with memory would
    poison them: every text that differs from the independent canonical text is asked for again ALONE in a fresh process; if the
    fresh answer differs from the in-sequence answer, Display itself depends on history -> violation."""
    disp = {}
    for i in range(0, len(allbits), 200):
        for rec in yvlib.run_harness(binary, ["numfmt " + " ".join(str(b) for b in allbits[i:i + 200])]):
            for l in rec.lines:
                f = l.split(" ")
                if f[0] == "D" and len(f) >= 2:
                    disp[int(f[1])] = yvlib.unhx(f[2]).decode() if len(f) > 2 else ""
    odd = [b for b in allbits if b in disp and disp[b] != py_text(b)][:40]
    for b in odd:
        alone = None
        for rec in yvlib.run_harness(binary, ["numfmt %d" % b]):
            for l in rec.lines:
                f = l.split(" ")
                if f[0] == "D" and len(f) >= 2:
                    alone = yvlib.unhx(f[2]).decode() if len(f) > 2 else ""
        if alone is not None and alone != disp[b]:
            ctx.violation("the Display text of a number depends on the numbers displayed before it (host side, no Vm involved)", kind="seq",
                          seqs=[[x for x in allbits[:allbits.index(b) + 1][-4:]]], input="format!(\"{}\", Value::Number(f64::from_bits(%d))) after other numbers" % b,
                          expected=alone[:200], actual=disp[b][:200])
            disp[b] = alone
    return disp


def seq_tuples(rng, nrand):
    """tuples of 2-3 bit patterns: `==` but printed differently, or `!=` but equal under some plausible memo key
    (a cast to an integer / f32, a rounded value, the magnitude, the low or high word of the bits)"""
    F = lambda v: f2b(float(v))
    one = F(1.0)
    t = [(0, SIGN), (QNAN, QNAN | SIGN | 1), (QNAN, 0), (QNAN, SIGN, 0), (INF, INF | SIGN), (INF, F(2.0 ** 63)), (INF, INF - 1), (INF | SIGN, F(-2.0 ** 63)),
         (F(0.1 + 0.2), F(0.3)), (F(0.1 + 0.2), F(0.3), F(0.1 + 0.2) + 1), (F(2.0 ** 53), F(2.0 ** 53) + 1), (F(2.0 ** 53), F(2.0 ** 53) - 1),
         (one, one + 1), (one, one - 1), (one, F(-1.0)), (one, F(1.5)), (F(1.5), F(2.0)), (F(0.5), 0), (F(-0.5), SIGN), (F(0.4), 0, SIGN),
         (F(5e-324), 0), (F(5e-324) | SIGN, SIGN), (F(1e-320), F(1.0000001e-320)), (F(4294967296.0), 0), (F(4294967297.0), one), (F(2.0 ** 64), 0),
         (F(2.0 ** 63), F(2.0 ** 63) + 1), (F(2.0 ** 63), F(2.0 ** 64)), (F(1e21), F(1e21) + 1), (F(1e16), F(1e16) + 1), (F(16777216.0), F(16777217.0)),
         (F(0.1), F(0.1) + 1, F(0.1) - 1), (F(0.1), F(0.10000000149011612)), (F(255.0), F(256.0)), (F(-1.0), F(255.0)), (F(3.0), F(-3.0)),
         (F(1e300), F(1e-300)), (F(1.7976931348623157e308), INF), (F(123456789.0), F(123456789.5)), (0, SIGN, one), (SIGN, 0, QNAN),
         (F(2.0), F(2.0) | 1, F(2.0) | (1 << 32)), (one, one | (1 << 32)), (F(3.0), F(3.0) ^ (1 << 52))]
    for _ in range(nrand):
        style = rng.random()
        a = random_bits(rng, 1)[0]
        if style < 0.35:      # neighbours
            b = (a + rng.choice([1, -1, 2, 1 << 29, 1 << 32])) & MASK
            t.append((a, b) if rng.random() < 0.6 else (a, b, a ^ SIGN))
        elif style < 0.55:    # sign
            t.append((a, a ^ SIGN))
        elif style < 0.8:     # same integer part / same f32
            v = rng.randint(0, 10 ** rng.randint(1, 12))
            t.append((F(v), F(v + rng.choice([0.5, 0.25, 1e-3, 1.0]))))
        else:
            t.append(tuple(random_bits(rng, rng.choice([2, 3]))))
    res = []
    for tp in t:
        tp = tuple(x & MASK for x in tp)
        if len(set(tp)) == len(tp):
            res.append(tp)
    return list(dict.fromkeys(res))


def lit_form(b, rng):
    """a literal / computed expression for a finite double (spelling not always canonical); None when there is none"""
    if is_nan_bits(b):
        return rng.choice(["(0 / 0)", "-(0 / 0)"])
    mb = b & ~SIGN & MASK
    if mb == INF:
        return "(1 / 0)" if b == INF else "(-1 / 0)"
    if b == SIGN:
        return rng.choice(["-0", "-0.0", "(0 * -1)"])
    t = py_canon(struct.unpack("<d", struct.pack("<Q", mb))[0])
    if len(t) > 400:
        return None
    v = rng.random()
    if v < 0.3 and "." not in t:
        t += ".0"
    elif v < 0.45:
        t = "0" + t
    elif v < 0.55 and "." in t:
        t += "0"
    return ("-" if b & SIGN else "") + t


SEQ_ORDERS2 = ["ab", "ba", "aab", "aba", "baa", "abb", "bab", "bba"]
SEQ_ORDERS3 = ["abc", "acb", "bac", "cba"]


def seq_statements(es, ts_, fin0):
    """all sequence routes for the expressions es (2-4 of them); returns [(statement, [expected lines with @1..@4])]"""
    n = len(es)
    P = ["@%d" % (i + 1) for i in range(n)]
    holes = ["${%s}" % e for e in es]
    st = []
    st.append((" ".join("print(%s);" % e for e in es), list(P)))
    st.append(('print("%s");' % " ".join(holes), [" ".join(P)]))
    st.append(('print("%s");' % "".join(holes), ["".join(P)]))
    st.append(('print("a%sz");' % ", b".join(holes), ["a" + ", b".join(P) + "z"]))
    st.append((" ".join('print("%s");' % h for h in holes), list(P)))
    st.append(("{ " + " ".join('var s%d = "<%s>";' % (i, h) for i, h in enumerate(holes)) + " print(%s); }" % " + ".join("s%d" % i for i in range(n)),
               ["".join("<%s>" % p for p in P)]))
    st.append(('print(%s);' % ' + "," + '.join("String.from(%s)" % e for e in es), [",".join(P)]))
    st.append(('print("%s" + String.from(%s) + "%s");' % (holes[0], es[1], "".join(holes[1:])), [P[0] + P[1] + "".join(P[1:])]))
    st.append(('{ var p = "%s".split("|"); print(%s); }' % ("|".join(holes), ' + ";" + '.join("String.from(p[%d].to_num())" % i for i in range(n))),
               [";".join(P)]))
    st.append(('print([%s]);' % ", ".join(es), ["[" + ", ".join(P) + "]"]))
    st.append(('print((%s));' % ", ".join(es), ["(" + ", ".join(P) + ")"]))
    st.append(('print("${[%s]} %s");' % (", ".join(es[:-1]) if n > 2 else es[0], holes[-1]),
               ["[" + ", ".join(P[:-1] if n > 2 else P[:1]) + "] " + P[-1]]))
    st.append(('print([%s, (%s)]);' % (es[0], ", ".join(es[1:]) + ("," if n == 2 else "")),
               ["[%s, (%s)]" % (P[0], ", ".join(P[1:]) + ("," if n == 2 else ""))]))
    st.append(('{ fn f(%s) { return "%s"; } print(f(%s)); }' % (", ".join("p%d" % i for i in range(n)), "|".join("${p%d}" % i for i in range(n)), ", ".join(es)),
               ["|".join(P)]))
    st.append(('for v in [%s] { print("<${v}>"); }' % ", ".join(es), ["<%s>" % p for p in P]))
    st.append(('{ var acc = ""; for v in [%s] { acc = acc + "${v},"; } print(acc); }' % ", ".join(es), ["".join(p + "," for p in P)]))
    st.append(('print("%s ${"s"} %s");' % (holes[0], " ".join(holes[1:])), [P[0] + " s " + " ".join(P[1:])]))
    st.append(('print("%s ${"%s"} %s");' % (holes[0], holes[1], " ".join(holes[1:])), [P[0] + " " + P[1] + " " + " ".join(P[1:])]))
    st.append(('try { throw %s; } catch e { print("${e} %s"); }' % (es[0], " ".join(holes[1:])), [" ".join(P)]))
    st.append(('print("%s"); print(String.from(%s)); print(%s);' % (holes[0], es[1], es[-1]), [P[0], P[1], P[-1]]))
    if fin0:
        st.append(('print({%s: %s});' % (es[0], es[1]), ["{%s: %s}" % (P[0], P[1])]))
    return st


def check_sequences(ctx, tuples, tag, forms=("var", "lit"), extra_orders=1):
    """tuples: list of tuples of bit patterns.  For each tuple, the values are bound to x (host-set, first value) and to globals
    v1.. (through to_num of an exact text), or written as literal / computed expressions; every ordering of SEQ_ORDERS2/3 (+ random
    length-4 ones) goes through every sequence route.  Spec: each position shows the host-side Display text of ITS double."""
    binary = ctx.harness("debug")
    rng = ctx.rng
    allbits = list(dict.fromkeys(b for tp in tuples for b in tp))
    disp = host_display(ctx, binary, allbits)
    items, meta = [], []
    for tp in tuples:
        if any(b not in disp for b in tp):
            ctx.corr_broken.append("numfmt gave no text for one of %r" % (tp,))
            continue
        names = "abc"[:len(tp)]
        orders = list(SEQ_ORDERS2 if len(tp) == 2 else SEQ_ORDERS3)
        for _ in range(extra_orders):
            o = "".join(rng.choice(names) for _ in range(4))
            if len(set(o)) > 1:
                orders.append(o)
        for form in forms:
            if form == "var":
                ex = {"a": "x"}
                pre = []
                for k, b in enumerate(tp[1:], 1):
                    pre.append('var v%d = "%s".to_num();' % (k, num_text(b)))
                    ex[names[k]] = "v%d" % k
            else:
                ex = {nm: lit_form(b, rng) for nm, b in zip(names, tp)}
                pre = []
                if any(v is None for v in ex.values()):
                    continue
            src, exp, stm = list(pre), [], []
            for o in orders:
                es = [ex[c] for c in o]
                bs = [tp[names.index(c)] for c in o]
                fin0 = not is_nan_bits(bs[0]) and (bs[0] & ~SIGN & MASK) < INF
                for s, e in seq_statements(es, None, fin0):
                    src.append(s)
                    for line in e:
                        for i in range(len(bs), 0, -1):
                            line = line.replace("@%d" % i, "\x00%d\x00" % i)
                        for i in range(len(bs), 0, -1):
                            line = line.replace("\x00%d\x00" % i, disp[bs[i - 1]])
                        exp.append(line)
                        stm.append(s)
            items.append((tp[0], "\n".join(src)))
            meta.append({"tp": tp, "form": form, "pre": pre, "exp": exp, "stm": stm, "src": src})
    sn = run_real(binary, items, batch=12)
    nlines, nontriv = 0, set()
    for mt, s in zip(meta, sn):
        bad = None
        if s["R"] != "ok" or len(s["O"]) != len(mt["exp"]):
            # a statement that fails changes the line count: re-run statement by statement to name it
            bad = {"statement": "\n".join(mt["src"])[:600], "expected": "ok, %d lines" % len(mt["exp"]),
                   "actual": str((s["R"], s["M"][:2], len(s["O"])))}
        else:
            nlines += len(s["O"])
            for stt, want, got in zip(mt["stm"], mt["exp"], s["O"]):
                if got != want:
                    bad = {"statement": " ".join(mt["pre"]) + " " + stt, "expected": want, "actual": got}
                    break
        if bad:
            ctx.violation("a number->text route fed with a SEQUENCE of numbers does not give each number its own text "
                          "(what a route prints for a number depends on the numbers formatted before it)", kind="seq",
                          seqs=[list(mt["tp"])], input="x = f64::from_bits(%d); %s" % (mt["tp"][0], bad["statement"][:700]),
                          expected=bad["expected"][:300], actual=bad["actual"][:300])
            continue
        nontriv.add((mt["tp"], mt["form"]))
    return nlines, nontriv


SCALE_STYLES = ["count", "halves", "zeros", "low_word", "high_word", "cycle", "random", "neighbours"]


def scale_values(rng, style, n):
    """n bit patterns whose texts are easy to tell apart by position and that collide under modular / truncated memo keys"""
    F = lambda v: f2b(float(v))
    if style == "count":
        k0 = rng.choice([0, 1, 2 ** 31 - n // 2, 2 ** 53 - n, 10 ** 15])
        return [F(k0 + i) for i in range(n)]
    if style == "halves":
        return [F((i // 2) + 0.5 * (i % 2)) | (SIGN if i % 3 == 2 else 0) for i in range(n)]
    if style == "zeros":
        return [rng.choice([0, SIGN, 0, SIGN, F(1.0), F(-1.0), QNAN]) for _ in range(n)]
    if style == "low_word":        # equal low 32 bits / equal value modulo a power of two
        m = rng.choice([16, 64, 256, 1024, 2 ** 32])
        return [F(rng.randint(0, 9) + m * i) for i in range(n)]
    if style == "high_word":       # equal high 32 bits
        base = (rng.randint(1023 - 20, 1023 + 40) << 52) | (rng.getrandbits(20) << 32)
        return [base | rng.getrandbits(32) for _ in range(n)]
    if style == "cycle":
        per = rng.choice([2, 3, 5, 17])
        vals = random_bits(rng, per - 1) + [rng.choice([0, SIGN])]
        return [vals[i % per] for i in range(n)]
    if style == "neighbours":
        a = random_bits(rng, 1)[0] & ~(0x7FF << 52) | (rng.randint(1023 - 30, 1023 + 60) << 52)
        return [(a + i) & MASK for i in range(n)]
    return random_bits(rng, n)


def check_seq_scale(ctx, cases, tag):
    """cases: [(style, [bits...])].  LENGTH ladder of the sequence family: n numbers go, one after the other in ONE Vm, through
    interpolation in a loop, print, String.from + concatenation, the Display of one vec of n elements, one string of up to 120 holes and
    the to_num round trip.  Oracle per position: the host-side Display of that double (independent of n)."""
    binary = ctx.harness("debug")
    allbits = list(dict.fromkeys(b for _, bs in cases for b in bs))
    disp = host_display(ctx, binary, allbits)
    items, meta = [], []
    for style, bs in cases:
        if any(b not in disp for b in bs):
            ctx.corr_broken.append("numfmt gave no text for a value of a scale case")
            continue
        T = [disp[b] for b in bs]
        nh = min(len(bs), 120)
        src = ['var vs = []; for t in "%s".split(",") { vs.push(t.to_num()); }' % ",".join(num_text(b) for b in bs),
               'for v in vs { print("<${v}>"); }',
               'for v in vs { print(v); }',
               '{ var acc = ""; for v in vs { acc = acc + String.from(v) + ","; } print(acc); }',
               'print(vs);',
               'print("${vs}|${vs[0]}");',
               'print("%s");' % " ".join("${vs[%d]}" % i for i in range(nh)),
               '{ var acc = ""; for v in vs { acc = acc + String.from("${v}".to_num()) + ";"; } print(acc); }']
        exp = ["<%s>" % t for t in T] + T + ["".join(t + "," for t in T), "[" + ", ".join(T) + "]", "[" + ", ".join(T) + "]|" + T[0],
                                             " ".join(T[:nh]), "".join(t + ";" for t in T)]
        items.append((None, "\n".join(src)))
        meta.append({"style": style, "bits": bs, "exp": exp, "src": src})
    # the debug build collects at every allocation: long sequences run on the release build
    small = [k for k, mt in enumerate(meta) if len(mt["bits"]) <= 129]
    big = [k for k, mt in enumerate(meta) if len(mt["bits"]) > 129]
    sn = [None] * len(items)
    for idx, bn in ((small, binary), (big, ctx.harness("release") if big else None)):
        if idx:
            for k, r in zip(idx, run_real(bn, [items[k] for k in idx], batch=4)):
                sn[k] = r
    nlines, nontriv = 0, set()
    for mt, s in zip(meta, sn):
        bad = None
        if s["R"] != "ok" or len(s["O"]) != len(mt["exp"]):
            bad = ("ok, %d lines" % len(mt["exp"]), str((s["R"], s["M"][:2], len(s["O"]))), "")
        else:
            nlines += len(s["O"])
            for k, (want, got) in enumerate(zip(mt["exp"], s["O"])):
                if got != want:
                    # first differing position of a long line
                    d = next((i for i, (a, b) in enumerate(zip(want, got)) if a != b), min(len(want), len(got)))
                    bad = ("…" + want[max(0, d - 40):d + 60], "…" + got[max(0, d - 40):d + 60], "printed line %d, first difference at character %d" % (k, d))
                    break
        if bad:
            ctx.violation("a number->text route fed with a LONG sequence of numbers (%d, style %s) does not give each number its own text" % (
                len(mt["bits"]), mt["style"]), kind="seqscale", scale=[[mt["style"], list(mt["bits"])]],
                input=("\n".join(mt["src"]))[:900] + (" // " + bad[2] if bad[2] else ""), expected=bad[0][:300], actual=bad[1][:300])
            continue
        nontriv.add((mt["style"], len(mt["bits"])))
    return nlines, nontriv


# ------------------------------------------------------------------------------------------


def src_structure(ctx):
    p = os.path.join(yvlib.COQ, "gen", "manifest.json")
    try:
        with open(p) as fh:
            man = json.load(fh)
    except Exception:
        return {}
    d = {k: man.get(k) for k in ("c19_display_number", "c19_scanner_number", "c19_parse_sites", "c19_text_routes", "c19_number_memory")}
    flags = []
    for k, v in d.items():
        for kk, vv in (v or {}).items():
            if isinstance(vv, bool):
                flags.append((k + "." + kk, vv))
    bad = [k for k, v in flags if not v]
    if bad:
        ctx.notes.append("translator: source structure no longer recognised: " + ", ".join(bad) +
                         " (props/C19.v side conditions C19_src_* fail; the model's parameters no longer describe the code)")
    return d


def corpus_lits():
    res = []
    cdir = os.path.join(yvlib.VERIF, "corpus", "C19")
    if os.path.isdir(cdir):
        for f in sorted(os.listdir(cdir)):
            with open(os.path.join(cdir, f)) as fh:
                j = json.load(fh)
            for t in j.get("lits", []):
                t = yvlib.unhx(t).decode()
                res.append((t.lstrip("-"), t.startswith("-")))
    return res


def corpus_seqs():
    res = []
    cdir = os.path.join(yvlib.VERIF, "corpus", "C19")
    if os.path.isdir(cdir):
        for f in sorted(os.listdir(cdir)):
            with open(os.path.join(cdir, f)) as fh:
                j = json.load(fh)
            res += [tuple(int(b) for b in tp) for tp in j.get("seqs", [])]
    return res


def corpus_scale():
    res = []
    cdir = os.path.join(yvlib.VERIF, "corpus", "C19")
    if os.path.isdir(cdir):
        for f in sorted(os.listdir(cdir)):
            with open(os.path.join(cdir, f)) as fh:
                j = json.load(fh)
            res += [(st, [int(b) for b in bs]) for st, bs in j.get("scale", [])]
    return res


def load_corpus():
    bits, texts, progs = [], [], []
    cdir = os.path.join(yvlib.VERIF, "corpus", "C19")
    if os.path.isdir(cdir):
        for f in sorted(os.listdir(cdir)):
            with open(os.path.join(cdir, f)) as fh:
                j = json.load(fh)
            bits += [int(b) for b in j.get("bits", [])]
            texts += [yvlib.unhx(t).decode() for t in j.get("texts", [])]
            progs += j.get("progs", [])
    return bits, texts, progs


SIZES = {  # random patterns, short decimals sampled (None = all), long decimals, midpoint doubles, lex programs
    "quick": (2000, 2000, 400, 200, 400),
    "search": (5200, 5000, 1200, 600, 1200),
    "thorough": (20000, None, 6000, 3000, 6000),
}
SCALE_LADDER = {"quick": [17, 33, 65, 129, 300, 1100], "search": [17, 33, 65, 129, 257, 300, 513, 1100, 2100],
                "thorough": [5, 9, 17, 33, 65, 129, 257, 300, 513, 1025, 1100, 2100, 5000]}
SEQ_SIZES = {"quick": 40, "search": 120, "thorough": 400}   # random tuples on top of the directed ones
ROUTE_SIZES = {"quick": (260, 120), "search": (800, 300), "thorough": (3000, 1200)}   # literal texts, variable-only bit patterns


def run_sized(ctx, size):
    rng = ctx.rng
    n_bits, n_short, n_long, n_mid, n_lex = SIZES[size]
    cb, ct, cp = load_corpus()
    # (a)
    bits = list(dict.fromkeys(cb + boundary_bits() + random_bits(rng, n_bits)))
    t0 = time.time()
    n_a, nt_a, printed = check_print(ctx, bits, size)
    t1 = time.time()
    # (b)
    sd = short_decimals()
    if n_short is not None:
        sd = [t for t in sd if len(t.replace(".", "")) <= 2] + rng.sample(sd, n_short)
    longs = [long_decimal(rng) for _ in range(n_long)]
    mids = gen_mid_texts(ctx, n_mid, size)
    t2 = time.time()
    n_b, nt_b = check_parse(ctx, ct + MALFORMED + sd + longs + mids, size)
    t3 = time.time()
    # (c)
    cases = cp + [gen_lex_case(rng) for _ in range(n_lex)]
    n_c, nt_c = check_lex(ctx, cases, size)
    t4 = time.time()
    # (d)
    n_lit, n_rb = ROUTE_SIZES[size]
    lits = corpus_lits() + gen_literals(rng, n_lit)
    bb = boundary_bits()
    rbits = list(dict.fromkeys([0, SIGN, 1, INF, INF | SIGN, QNAN, QNAN | SIGN | 1, INF - 1, f2b(0.1), f2b(2.0 ** 53), f2b(-1.5)] +
                               rng.sample(bb, min(n_rb // 2, len(bb))) + random_bits(rng, n_rb // 2)))
    lad_lits, lad_exprs = int_ladder(rng, {"quick": 40, "search": 120, "thorough": 600}[size])
    lits = lits + lad_lits
    rbits = list(dict.fromkeys(rbits + [f2b(float(2 ** 63)), f2b(float(2 ** 64)), f2b(-float(2 ** 63)), f2b(1.5 * 2 ** 63), f2b(1e19), f2b(-1e19)] +
                               [(1086 << 52) | rng.getrandbits(52) | (rng.getrandbits(1) << 63) for _ in range(n_rb // 4)]))
    n_d, nt_d = check_routes(ctx, lits, rbits, size, exprs=lad_exprs)
    t5 = time.time()
    # (e)
    seqs = corpus_seqs() + seq_tuples(rng, SEQ_SIZES[size])
    n_e, nt_e = check_sequences(ctx, seqs, size, extra_orders={"quick": 1, "search": 2, "thorough": 3}[size])
    ladder = SCALE_LADDER[size]
    styles = list(SCALE_STYLES)
    rng.shuffle(styles)
    sc_cases = []
    for i, n in enumerate(ladder):       # every size with two styles; every style at least once
        for st in (styles[i % len(styles)], styles[(i + len(ladder)) % len(styles)]):
            sc_cases.append((st, scale_values(rng, st, n)))
    for st in styles:
        if st not in [c[0] for c in sc_cases]:
            sc_cases.append((st, scale_values(rng, st, rng.choice(ladder[:4]))))
    n_s, nt_s = check_seq_scale(ctx, corpus_scale() + sc_cases, size)
    n_e += n_s
    nt_e |= nt_s
    t6 = time.time()
    log("[C19] %s: print %.1fs, midpoints %.1fs, parse %.1fs, lex %.1fs, routes %.1fs, sequences %.1fs" % (size, t1 - t0, t2 - t1, t3 - t2, t4 - t3, t5 - t4, t6 - t5))
    ctx.cov["phase_seconds"] = {"print": round(t1 - t0, 1), "midpoints": round(t2 - t1, 1), "parse": round(t3 - t2, 1),
                                "lex": round(t4 - t3, 1), "routes": round(t5 - t4, 1), "sequences": round(t6 - t5, 1)}
    # thorough only: the fast digit search of print_f64 against the slow reference search (model-internal)
    n_ref = 0
    if size == "thorough":
        rb = [b for b in bits if not is_nan_bits(b) and 0 < (b & ~SIGN & MASK) < INF]
        rb = rng.sample(rb, min(160, len(rb)))
        n_ref = len(rb)
        for b, v in zip(rb, coq_lists("run_ref_w", [str(b) for b in rb], 5, "C19ref")):
            if v != "T":
                ctx.broken.append("shortest_digits != shortest_digits_ref for bits %d (%s)" % (b, v))
    # keep the report short
    byk = {}
    for v in ctx.violations:
        byk.setdefault(v.get("kind"), []).append(v)
    ctx.violations[:] = [v for k in byk for v in byk[k][:5]]
    ctx.corr_broken[:] = list(dict.fromkeys(ctx.corr_broken))
    ctx.broken[:] = list(dict.fromkeys(ctx.broken))
    ctx.corr_broken[:] = ctx.corr_broken[:12] + (["… %d more" % (len(ctx.corr_broken) - 12)] if len(ctx.corr_broken) > 12 else [])
    ctx.broken[:] = ctx.broken[:12]
    ex = lambda s, k: [x for x in list(s)[:k]]
    ctx.cov.update({
        "evaluations": n_a + n_b + n_c + n_d + n_e,
        "distinct_nontrivial": len(nt_a) + len(nt_b) + len(nt_c) + len(nt_d) + len(nt_e),
        "rule": "printing: distinct finite bit patterns whose printed text has >= 2 significant digits (%d of %d patterns); "
                "parsing: distinct decimal texts whose value is NOT exactly representable, i.e. the conversion has to round (%d of %d texts); "
                "lexing: distinct programs whose number is followed by a '.' continuation (%d of %d); "
                "routes: distinct literal texts whose spelling is NOT the canonical print of the double they denote, each fed to %d "
                "number->text statements as literal and as variable (%d of %d literals; %d printed lines compared); "
                "sequences: distinct (tuple of 2-3 doubles that are == but print differently / != but equal under a cast, rounding, sign or word of the bits; "
                "variable or literal form), each in >= 5 orderings through 20 sequence routes, "
                "plus (style, length) cases of the length ladder 17..1100 through 7 routes in one Vm (%d; %d printed lines compared)" % (
                    len(nt_a), len(bits), len(nt_b), len(set(ct + MALFORMED + sd + longs + mids)), len(nt_c), len(cases),
                    len(ROUTES), len(nt_d), len(lits), n_d, len(nt_e), n_e),
        "input_distribution": {
            "bit_patterns": {"boundaries": len(boundary_bits()), "random": n_bits,
                             "mix": "55% uniform 64-bit, 20% exponents 2^-40..2^70, 10% few significant bits, 8% k/10^j, 7% subnormals"},
            "parse_texts": {"short_decimals(<=4 digits around the point)": len(sd), "of_all": 43210, "long(5..40 digits)": len(longs),
                            "midpoint_family(tie, +-1 unit in the next place)": len(mids), "malformed_and_special": len(MALFORMED)},
            "lex_programs": len(cases),
            "route_literals": len(lits), "route_variable_only_patterns": len(rbits), "route_computed_expressions": len(lad_exprs),
            "route_integer_ladder": "+-(2^k-1, 2^k, next double, 2^k+1) for k in 31,32,52,53,54,62,63,64,65,127,128; 10^15..10^22 and neighbours; "
                                    "u64::MAX, i64::MIN/MAX, 1.5*2^63, random integral doubles in [2^63,2^64) and nearby binades",
            "route_printer": "yarel's own print native (harness command numreal), not the harness printer", "route_statements": [r[0] for r in ROUTES],
        },
        "samples": [{"bits": b, "text": t[:60]} for b, t in printed[-3:]] + ex(nt_b, 3) + [c["prog"] for c in cases[-3:]] + [x[:60] for x in ex(nt_d, 3)],
        "print_cases": n_a, "parse_cases": n_b, "lex_cases": n_c, "route_lines": n_d, "sequence_lines": n_e, "sequence_tuples": len(seqs),
        "reference_search_cases": n_ref,
        "source_structure": src_structure(ctx),
    })


def run(ctx):
    if ctx.replay_only:
        rp = ctx.replay_only
        if rp.get("bits"):
            check_print(ctx, [int(b) for b in rp["bits"]], "replay")
        if rp.get("texts"):
            check_parse(ctx, [yvlib.unhx(t).decode() for t in rp["texts"]], "replay")
        if rp.get("progs"):
            check_lex(ctx, rp["progs"], "replay")
        if rp.get("lits") or rp.get("rbits") or rp.get("exprs"):
            ls = [yvlib.unhx(t).decode() for t in rp.get("lits", [])]
            check_routes(ctx, [(t.lstrip("-"), t.startswith("-")) for t in ls], [int(b) for b in rp.get("rbits", [])], "replay",
                         exprs=[(yvlib.unhx(t).decode(), int(b)) for t, b in rp.get("exprs", [])])
        if rp.get("scale"):
            check_seq_scale(ctx, [(st, [int(b) for b in bs]) for st, bs in rp["scale"]], "replay")
        if rp.get("seqs"):
            check_sequences(ctx, [tuple(int(b) for b in tp) for tp in rp["seqs"]], "replay", extra_orders=3)
        ctx.cov.update({"evaluations": 1, "distinct_nontrivial": 0, "rule": "replay of one recorded input", "samples": [rp.get("input")]})
        return
    run_sized(ctx, "quick" if ctx.quick() else "thorough")


def search(ctx):
    """obligations / correspondences broken and no violation yet: larger generators against the Spec"""
    if ctx.replay_only:
        return
    run_sized(ctx, "search" if ctx.quick() else "thorough")
