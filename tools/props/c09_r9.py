"""C09, round 9 - two families outside the Coq mini-language (helper module of tools/props/C09.py).

(g) STACK-CAPACITY SCALE FAMILY: "each fiber keeps its own call stack and locals" at SCALE.  A recursive function with L
    locals per activation (L in 1, 8, 40, 100, 250) recursing D deep (D in 3, 17, 33, 50, 61: up to 63 frames, within the
    documented limits 64 frames x 256 slots) runs (0) at module level, (1) inside a fiber, (2) inside a fiber called by a
    fiber, (3) inside a fiber and suspended at the bottom of the recursion, (4) in three fibers suspended at the bottom at
    once while the main script recurses too, (5) at the end of a chain of N fibers calling fibers (N in 3, 9, 17, 33).
    Oracle in closed form (every activation returns the sum of ALL its locals): size-independent, no model evaluation.
    A fiber created by Fiber.new must have the capacity of the fiber that runs the program.

(h) FINALLY x FIBER-SWITCH FAMILY with TWO executable models of the exception-in-flight flag:
    S = the flag belongs to the fiber (the Spec: each fiber keeps its own exception handlers / pending exception),
    M = ONE flag per VM (`Vm.handling_exception`, vm.rs: throw_impl sets it, unwind_stack sets it to "handler has no catch
        clause", end_finally_impl re-raises peek(0) when it is set, load_fiber/unload_fiber do not touch it).
    Both interpret the same mini-bytecode (PushExcHandler / PopExcHandler / Jump / JumpFinally / EndFinally as the compiler
    emits them, the value stack with the handler's init_stack_size, the pending return) - they differ ONLY in where the flag
    lives.  A program is in the open class `finally_switch_shares_flag` iff M(p) != S(p); the predicate is COMPUTED, not a
    syntactic label:
      M(p) == S(p): the unchanged tree gets it right -> the implementation must print S(p); a difference is a violation;
      M(p) != S(p): the implementation must print M(p) (known finding); anything else is a new violation.
"""
import random

# ================================================================================================
# (g) stack-capacity scale family

DEPTHS = [3, 17, 33, 50, 61]
LOCALS = [1, 8, 40, 100, 250]
CHAINS = [3, 9, 17, 33]


def walk_fn(L):
    s = ["var inf = false; fn walk(d) {"]
    for i in range(L):
        s.append("var v%d = d + %d;" % (i, i))
    tot = " + ".join("v%d" % i for i in range(L))
    s.append('if d == 0 { if inf { Fiber.yield("bottom ${v0 + v%d}"); } return %s; }' % (L - 1, tot))
    s.append("return walk(d - 1) + %s; }" % tot)
    return " ".join(s)


def walk_val(D, L):
    return sum(L * d + L * (L - 1) // 2 for d in range(D + 1))


def stack_family(quick):
    """(name, source, expected result)"""
    fam = []
    cells = [(D, L) for D in DEPTHS for L in LOCALS]
    for D, L in cells:
        w = walk_fn(L)
        v = walk_val(D, L)
        fib = "var f = Fiber.new(|d| { return walk(d); }); "
        fam.append(("module D=%d L=%d" % (D, L), w + " print(walk(%d));" % D, "%d#ok" % v))
        fam.append(("fiber D=%d L=%d" % (D, L), w + " " + fib + "print(f.call(%d)); print(f.has_finished());" % D, "%d|true#ok" % v))
        fam.append(("fiber-in-fiber D=%d L=%d" % (D, L),
                    w + " " + fib + "var g = Fiber.new(|d| { var r = f.call(d); return r + 1; }); print(g.call(%d));" % D,
                    "%d#ok" % (v + 1)))
        fam.append(("fiber suspended at the bottom D=%d L=%d" % (D, L),
                    w + " inf = true; " + fib + "print(f.call(%d)); print(f.call());" % D, "bottom %d|%d#ok" % (L - 1, v)))
    for D, L in [(61, 8), (50, 40), (61, 100), (33, 250), (61, 250)]:
        w = walk_fn(L)
        ds = [D, D - 2, D - 1]
        src = w + " inf = true; var fs = []; "
        for k, d in enumerate(ds):
            src += "var f%d = Fiber.new(|d| { return walk(d); }); print(f%d.call(%d)); " % (k, k, d)
        src += "inf = false; print(walk(%d)); " % D
        exp = ["bottom %d" % (L - 1)] * 3 + [str(walk_val(D, L))]
        for k in (1, 2, 0):
            src += "print(f%d.call()); " % k
            exp.append(str(walk_val(ds[k], L)))
        fam.append(("three fibers suspended deep at once D=%d L=%d" % (D, L), src, "|".join(exp) + "#ok"))
    for N in CHAINS:
        for D, L in [(55, 40), (61, 8)] if quick else [(55, 40), (61, 8), (61, 100), (33, 250)]:
            w = walk_fn(L)
            src = w + " var c0 = Fiber.new(|d| { return walk(d); }); "
            for k in range(1, N):
                src += "var c%d = Fiber.new(|d| { var r = c%d.call(d); return r + 1; }); " % (k, k - 1)
            src += "print(c%d.call(%d));" % (N - 1, D)
            fam.append(("chain of %d fibers D=%d L=%d" % (N, D, L), src, "%d#ok" % (walk_val(D, L) + N - 1)))
    return fam


# ================================================================================================
# (h) finally x fiber switch: mini-AST, mini-bytecode, the two interpreters, rendering
#
# stmt: ("print", s) ("throw", s) ("yield", s) ("call", k) ("return", s) ("try", body, catch_body|None, finally_body|None)
# prog: {"fibers": [body, ...] (fiber k = index + 1), "main": body}
# `call k` = `if !fk.has_finished() { print(fk.call()); }` (a finished fiber is skipped: no rejected call can occur whatever the
# flag does); `return` only at body level or directly in the try body of a try statement WITH a finally block that is not itself
# inside a try body (C08's return_in_try / return_through_two_tries classes are avoided).


def compile_body(stmts, name):
    code = [("LOCAL", name + "-top")]

    def emit(ss, in_try, depth):
        # depth = the compiler's count of live locals (slot 0, `t`, enclosing catch variables): a catch variable is read from
        # the slot the COMPILER assigned; after a dropped exception left a value on the stack that is not the slot it landed in
        for st in ss:
            k = st[0]
            if k in ("print", "throw", "yield", "call"):
                code.append((k.upper(), st[1]))
            elif k == "return":
                if in_try:
                    code.append(("JUMPFIN", st[1]))
                code.append(("RETURN", st[1]))
            elif k == "try":
                _, body, cb, fb = st
                i = len(code)
                code.append(None)
                emit(body, True, depth)
                code.append(("POPH",))
                j = len(code)
                code.append(None)
                catch_pc = len(code)
                if cb is not None:
                    code.append(("CATCHPRINT", depth))
                    emit(cb, in_try, depth + 1)
                    code.append(("POP",))
                fin_pc = len(code)
                code[j] = ("JUMP", fin_pc)
                code[i] = ("PUSHH", catch_pc, fin_pc)
                if fb is not None:
                    emit(fb, in_try, depth)
                    code.append(("ENDFIN",))
            else:
                raise ValueError(k)
    emit(stmts, False, 2)
    if name != "main":
        code.append(("RETURN", name + "-end"))
    return code


class Unhandled(Exception):
    pass


def interp(prog, per_fiber_flag, fuel=4000):
    """-> result string `line|line#ok` / `...#Unhandled exception: v`, or None (invalid: yield in main, out of fuel)"""
    names = ["main"] + ["f%d" % (k + 1) for k in range(len(prog["fibers"]))]
    bodies = [prog["main"]] + list(prog["fibers"])
    fibs = []
    for n, b in zip(names, bodies):
        fibs.append({"code": compile_body(b, n), "pc": 0, "stack": ["<closure>"], "handlers": [], "caller": None,
                     "finished": False, "ret": None, "H": False})
    glob = {"H": False}
    cur = 0
    out = []

    def flag():
        return fibs[cur] if per_fiber_flag else glob

    def unwind():
        f = fibs[cur]
        exc = f["stack"][-1]
        if not f["handlers"]:
            raise Unhandled(exc)
        cpc, fpc, size = f["handlers"].pop()
        del f["stack"][size:]
        f["stack"].append(exc)
        flag()["H"] = (cpc == fpc)
        f["pc"] = cpc

    def hand_back(v):
        nonlocal cur
        f = fibs[cur]
        c = f["caller"]
        f["caller"] = None
        cur = c
        out.append(v)
        fibs[cur]["pc"] += 1

    try:
        while True:
            fuel -= 1
            if fuel < 0:
                return None
            f = fibs[cur]
            if f["pc"] >= len(f["code"]):
                if cur == 0:
                    return "|".join(out) + "#ok"
                return None
            ins = f["code"][f["pc"]]
            op = ins[0]
            if op == "LOCAL":
                f["stack"].append(ins[1])
                f["pc"] += 1
            elif op == "PRINT":
                out.append(ins[1])
                f["pc"] += 1
            elif op == "THROW":
                f["stack"].append(ins[1])
                flag()["H"] = True
                unwind()
            elif op == "PUSHH":
                f["handlers"].append((ins[1], ins[2], len(f["stack"])))
                f["pc"] += 1
            elif op == "POPH":
                f["handlers"].pop()
                f["pc"] += 1
            elif op == "JUMP":
                f["pc"] = ins[1]
            elif op == "CATCHPRINT":
                out.append("caught " + str(f["stack"][ins[1]] if ins[1] < len(f["stack"]) else f["stack"][-1]))
                f["pc"] += 1
            elif op == "POP":
                f["stack"].pop()
                f["pc"] += 1
            elif op == "JUMPFIN":
                f["ret"] = (ins[1], f["pc"] + 1)
                cpc, fpc, size = f["handlers"].pop()
                del f["stack"][size:]
                f["pc"] = fpc
            elif op == "ENDFIN":
                if flag()["H"]:
                    unwind()
                elif f["ret"] is not None:
                    v, pc = f["ret"]
                    f["ret"] = None
                    f["stack"].append(v)
                    f["pc"] = pc
                else:
                    f["pc"] += 1
            elif op == "CALL":
                t = fibs[ins[1]]
                if t["finished"]:
                    f["pc"] += 1
                elif t["caller"] is not None or ins[1] == cur or ins[1] == 0:
                    return None
                else:
                    # is the target waiting in the chain of callers?  (would be rejected: not generated)
                    c = cur
                    while c is not None:
                        if c == ins[1]:
                            return None
                        c = fibs[c]["caller"]
                    t["caller"] = cur
                    cur = ins[1]
            elif op == "YIELD":
                if cur == 0 or f["caller"] is None:
                    return None
                f["pc"] += 1
                hand_back(ins[1])
            elif op == "RETURN":
                if cur == 0:
                    return None
                f["finished"] = True
                hand_back(ins[1])
            else:
                raise ValueError(op)
    except Unhandled as e:
        return "|".join(out) + "#Unhandled exception: " + str(e.args[0])


def render(prog):
    def stmts(ss):
        o = []
        for st in ss:
            k = st[0]
            if k == "print":
                o.append('print("%s");' % st[1])
            elif k == "throw":
                o.append('throw "%s";' % st[1])
            elif k == "yield":
                o.append('Fiber.yield("%s");' % st[1])
            elif k == "call":
                o.append("if !f%d.has_finished() { print(f%d.call()); }" % (st[1], st[1]))
            elif k == "return":
                o.append('return "%s";' % st[1])
            elif k == "try":
                t = "try { " + stmts(st[1]) + " }"
                if st[2] is not None:
                    t += ' catch e { print("caught " + e); ' + stmts(st[2]) + " }"
                if st[3] is not None:
                    t += " finally { " + stmts(st[3]) + " }"
                o.append(t)
        return " ".join(o)
    n = len(prog["fibers"])
    src = "".join("var f%d = nil; " % (k + 1) for k in range(n))
    for k, b in enumerate(prog["fibers"]):
        nm = "f%d" % (k + 1)
        src += '%s = Fiber.new(|| { var t = "%s-top"; %s return "%s-end"; }); ' % (nm, nm, stmts(b), nm)
    src += '{ var t = "main-top"; ' + stmts(prog["main"]) + ' print("main-end"); }'
    return src


# ---- generators

def callee_bodies(k):
    """bodies of a fiber that is CALLED from a finally block, by what it does before handing control back"""
    g = "f%d" % k
    P = lambda s: ("print", g + s)
    return {
        "returns": [P("-a"), ("return", g + "-ret")],
        "yields": [P("-a"), ("yield", g + "-y1"), P("-b"), ("return", g + "-ret")],
        "yields-twice": [("yield", g + "-y1"), ("yield", g + "-y2"), P("-c")],
        "catches-then-returns": [("try", [("throw", g + "-x")], [P("-h")], None), ("return", g + "-ret")],
        "catches-then-yields": [("try", [("throw", g + "-x")], [], None), ("yield", g + "-y1"), P("-b")],
        "yields-then-catches": [("yield", g + "-y1"), ("try", [("throw", g + "-x")], [], None), ("yield", g + "-y2"), P("-b")],
        "finally-normal-then-returns": [("try", [P("-t")], None, [P("-f")]), ("return", g + "-ret")],
        "finally-normal-then-yields": [("try", [P("-t")], None, [P("-f")]), ("yield", g + "-y1"), ("try", [P("-t2")], None, [P("-f2")])],
        "catch-finally-then-yields": [("try", [("throw", g + "-x")], [P("-h")], [P("-f")]), ("yield", g + "-y1"), P("-b")],
        "throws-uncaught": [P("-a"), ("throw", g + "-boom")],
        "yields-then-throws-uncaught": [("yield", g + "-y1"), ("throw", g + "-boom")],
        "yields-inside-own-pending-finally": [("try", [("try", [("throw", g + "-x")], None, [("yield", g + "-yf"), P("-f")])], [P("-h")], None),
                                              ("return", g + "-ret")],
        "yields-inside-own-normal-finally": [("try", [P("-t")], None, [("yield", g + "-yf"), P("-f")]), ("return", g + "-ret")],
        "return-pending-finally-yields": [("try", [("return", g + "-ret")], None, [("yield", g + "-yf"), P("-f")])],
    }


def site(tag, entry, with_catch, action, in_fiber):
    """one try statement whose finally block is entered by exception / by return / normally and performs `action`"""
    P = lambda s: ("print", tag + s)
    if entry == "exception":
        body = [P("-try"), ("throw", tag + "-boom"), P("-NOT-REACHED")]
    elif entry == "return":
        body = [P("-try"), ("return", tag + "-ret")]
    else:
        body = [P("-try")]
    cb = [P("-catch")] if with_catch else None
    return ("try", body, cb, [P("-fin")] + list(action) + [P("-fin-end")])


def directed_programs():
    """finally block (entered by exception / by return / normally; try with or without catch) x what runs inside it (a call of
    a fiber that returns / yields / throws / ..., two calls, a yield of the running fiber while the main script does something)
    x where the statement lives (main script / a fiber) x what follows (nothing / an enclosing catch / a second round)"""
    progs = []
    cb = callee_bodies(2)
    for where in ("main", "fiber"):
        for entry in ("exception", "return", "normal"):
            if entry == "return" and where == "main":
                continue
            for with_catch in (False, True):
                for cname, cbody in cb.items():
                    for ncalls in (1, 2):
                        for outer in ("none", "catch", "second"):
                            if ncalls == 2 and outer == "second":
                                continue
                            act = [("call", 2)] * ncalls
                            s1 = site("s1", entry, with_catch, act, where == "fiber")
                            tail = [("print", "after-s1")]
                            if outer == "none":
                                blk = [s1] + tail
                            elif outer == "catch":
                                blk = [("try", [s1] + tail, [("print", "outer-catch")], None), ("print", "after-outer")]
                            else:
                                e2 = "exception" if entry != "exception" else "normal"
                                s2 = site("s2", e2, False, [("call", 2)], where == "fiber")
                                blk = [("try", [s1] + tail, [("print", "outer-catch")], None),
                                       ("try", [s2, ("print", "after-s2")], [("print", "outer-catch2")], None)]
                            if entry == "return" and outer != "none":
                                # `return` must not sit inside an enclosing try body
                                continue
                            if where == "main":
                                prog = {"fibers": [[("print", "f1-unused")], cbody], "main": blk + [("call", 2), ("call", 2)]}
                            else:
                                prog = {"fibers": [blk, cbody], "main": [("call", 1), ("call", 2), ("call", 1), ("call", 2), ("call", 1)]}
                            progs.append(("call in finally: %s/%s/%s/%s x%d/%s" % (where, entry, "catch" if with_catch else "nocatch", cname, ncalls, outer), prog))
    # the running fiber YIELDS inside its finally block; meanwhile the main script / another fiber does something
    meanwhile = {
        "nothing": [],
        "prints": [("print", "m-p")],
        "catches": [("try", [("throw", "m-x")], [("print", "m-h")], None)],
        "finally-normal": [("try", [("print", "m-t")], None, [("print", "m-f")])],
        "finally-by-exception-caught": [("try", [("try", [("throw", "m-x")], None, [("print", "m-f")])], [("print", "m-h")], None)],
        "other-fiber-returns": [("call", 2)],
    }
    for entry in ("exception", "return", "normal"):
        for with_catch in (False, True):
            for mname, mw in meanwhile.items():
                for cname in ("returns", "yields", "catches-then-returns", "finally-normal-then-returns"):
                    if mname != "other-fiber-returns" and cname != "returns":
                        continue
                    for outer in ("none", "catch"):
                        if entry == "return" and outer != "none":
                            continue
                        s1 = site("s1", entry, with_catch, [("yield", "f1-yf")], True)
                        blk = [s1, ("print", "after-s1")]
                        if outer == "catch":
                            blk = [("try", blk, [("print", "outer-catch")], None), ("print", "after-outer")]
                        prog = {"fibers": [blk, cb[cname]], "main": [("call", 1)] + mw + [("call", 1), ("call", 2), ("call", 1)]}
                        progs.append(("yield in finally: %s/%s/%s/%s/%s" % (entry, "catch" if with_catch else "nocatch", mname, cname, outer), prog))
    return progs


def random_program(rng):
    nf = rng.choice((2, 2, 3))
    cbs = [callee_bodies(k) for k in range(1, nf + 1)]

    def rsite(tag, in_fiber, callees, allow_return):
        entry = rng.choice(("exception", "exception", "normal") + (("return",) if allow_return else ()))
        act = []
        for _ in range(rng.choice((1, 1, 2, 3))):
            r = rng.random()
            if r < 0.6 and callees:
                act.append(("call", rng.choice(callees)))
            elif r < 0.8 and in_fiber:
                act.append(("yield", tag + "-yf"))
            else:
                act.append(("print", tag + "-p"))
        return site(tag, entry, rng.random() < 0.35, act, in_fiber), entry

    def block(tag, in_fiber, callees):
        out = []
        for n in range(rng.choice((1, 2, 2, 3))):
            s, entry = rsite("%s%d" % (tag, n), in_fiber, callees, in_fiber)
            if entry == "return" or rng.random() < 0.4:
                out.append(s)
                out.append(("print", "%s%d-after" % (tag, n)))
                if entry == "return":
                    break
            else:
                out.append(("try", [s, ("print", "%s%d-after" % (tag, n))], [("print", "%s%d-outer" % (tag, n))], None))
            if in_fiber and rng.random() < 0.3:
                out.append(("yield", "%s%d-y" % (tag, n)))
        return out
    fibers = []
    for k in range(1, nf + 1):
        if k == nf or rng.random() < 0.4:
            fibers.append(rng.choice(list(cbs[k - 1].values())))
        else:
            fibers.append(block("f%d-" % k, True, list(range(k + 1, nf + 1))))
    main = []
    if rng.random() < 0.6:
        main += block("m-", False, list(range(1, nf + 1)))
    for _ in range(rng.randint(2, 7)):
        r = rng.random()
        if r < 0.7:
            main.append(("call", rng.randint(1, nf)))
        elif r < 0.85:
            main.append(("try", [("throw", "m-x")], [("print", "m-h")], None))
        else:
            main.append(("try", [("print", "m-t")], None, [("print", "m-f")]))
    return {"fibers": fibers, "main": main}


def finally_model_family(rng, nrandom):
    """[(name, prog, source, S result, M result)] - programs on which either model is undefined are dropped"""
    fam = []
    seen = set()
    cands = directed_programs() + [("random", random_program(rng)) for _ in range(nrandom)]
    for name, prog in cands:
        s = interp(prog, True)
        m = interp(prog, False)
        if s is None or m is None:
            continue
        src = render(prog)
        if src in seen:
            continue
        seen.add(src)
        fam.append((name, prog, src, fix_main_end(s), fix_main_end(m)))
    return fam


def fix_main_end(res):
    """the rendered main script prints `main-end` last when it runs to its end"""
    if res.endswith("#ok"):
        body = res[:-3]
        return (body + "|" if body else "") + "main-end#ok"
    return res


if __name__ == "__main__":
    import sys
    rng = random.Random(int(sys.argv[1]) if len(sys.argv) > 1 else 0)
    fam = finally_model_family(rng, 300)
    print(len(fam), "programs;", sum(1 for x in fam if x[3] != x[4]), "in the computed class (M != S)")
