#!/bin/sh
# Developer tool: run every registered check at the given tier, one after the other, and summarise.
TIER=${1:-quick}
cd "$(dirname "$0")/.." || exit 2
[ -d build ] || ./check --setup
for i in 01 02 03 04 05 06 07 08 09 10 11 12 13 14 15 16 17 18 19; do
  s=$(date +%s)
  ./check C$i --tier $TIER > /tmp/runall-C$i.log 2>&1
  rc=$?
  echo "C$i $TIER rc=$rc $(( $(date +%s) - s ))s $(grep -c '^VIOLATION' /tmp/runall-C$i.log) violations $(grep -c '^KNOWN-FINDING' /tmp/runall-C$i.log) known"
done
