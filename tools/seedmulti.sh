#!/bin/sh
# Developer tool: test several seeded patches of one property one after another against a scratch worktree.
# usage: seedmulti.sh <CHECK-ID> <worktree> <tier> <patch>...     (CHECK-ID may differ from the seed's property: cross tests)
ID=$1; WT=$2; TIER=$3; shift 3
for PATCH in "$@"; do
  git -C $WT checkout -q -- . && git -C $WT apply $PATCH || { echo "== $PATCH: does not apply"; continue; }
  echo "== $ID vs $PATCH"
  /verif/tools/seedtest.sh $ID $WT $TIER
  git -C $WT checkout -q -- .
done
rm -rf /tmp/vt-$ID
