#!/bin/sh
# Developer tool: run ./check <ID> against a seeded scratch worktree WITHOUT touching /repo, using a private copy
# of /verif whose harness points at the worktree.  usage: seedtest.sh C13 /tmp/seed/C13 [tier]
ID=$1; WT=$2; TIER=${3:-quick}
P=/tmp/vt-$ID
rm -rf $P; mkdir -p $P
rsync -a --exclude build --exclude .git --exclude 'evidence/replay' /verif/ $P/verif/
sed -i "s|path = \"/repo/yarel\"|path = \"$WT/yarel\"|" $P/verif/harness/Cargo.toml
cd $P/verif && VERIF_REPO=$WT ./check $ID --tier $TIER 2>&1 | grep -E "VIOLATION|KNOWN-FINDING|$ID $TIER" | head -12
ls $P/verif/evidence/replay 2>/dev/null | head -3
