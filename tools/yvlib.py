"""Shared machinery for the yarel checks: building the harness and the Coq development,
running cases on the implementation (harness `yv`) and on the model (coqc + vm_compute),
evidence and replay files.  No third-party dependencies."""
import binascii
import hashlib
import json
import os
import random
import re
import shutil
import subprocess
import sys
import time
from concurrent.futures import ThreadPoolExecutor

VERIF = os.path.dirname(os.path.dirname(os.path.abspath(__file__)))
REPO = os.environ.get("VERIF_REPO", "/repo")
BUILD = os.path.join(VERIF, "build")
COQ = os.path.join(VERIF, "coq")
def _default_jobs():
    """All cores on an idle machine; fewer when the machine is already oversubscribed (many checks running side by
    side), because 16 more shards then only add time-outs.  Results never depend on the number of shards."""
    n = os.cpu_count() or 8
    try:
        load = os.getloadavg()[0]
    except OSError:
        load = 0.0
    if load > 2 * n:
        return max(3, n // 4)
    if load > n:
        return max(4, n // 2)
    return n


NPROC = int(os.environ.get("VERIF_JOBS", str(_default_jobs())))

ENV = dict(os.environ)
ENV.update({"CARGO_NET_OFFLINE": "true", "GOPROXY": "off", "PIP_NO_INDEX": "1"})


def log(*a):
    print(*a, file=sys.stderr, flush=True)


def hx(s):
    if isinstance(s, str):
        s = s.encode("utf-8")
    return binascii.hexlify(s).decode() if s else "-"


def unhx(s):
    if s == "-":
        return b""
    return binascii.unhexlify(s)


def sha(*paths):
    h = hashlib.sha256()
    for p in sorted(paths):
        if os.path.isdir(p):
            for root, dirs, files in sorted(os.walk(p)):
                dirs.sort()
                for f in sorted(files):
                    fp = os.path.join(root, f)
                    h.update(fp.encode())
                    with open(fp, "rb") as fh:
                        h.update(fh.read())
        elif os.path.exists(p):
            h.update(p.encode())
            with open(p, "rb") as fh:
                h.update(fh.read())
    return h.hexdigest()


# ------------------------------------------------------------------------------------------
# harness


class BuildError(Exception):
    pass


def build_harness(profile="debug", features=()):
    """cargo-build the harness against /repo's working tree; returns the binary path."""
    os.makedirs(BUILD, exist_ok=True)
    hdir = os.path.join(VERIF, "harness")
    shutil.copyfile(os.path.join(REPO, "Cargo.lock"), os.path.join(hdir, "Cargo.lock"))
    key = "cargo" + ("-" + "-".join(sorted(features)) if features else "")
    tdir = os.path.join(BUILD, key)
    cmd = ["cargo", "build", "--offline", "--quiet"]
    if profile == "release":
        cmd.append("--release")
    if features:
        cmd += ["--features", ",".join(features)]
    env = dict(ENV)
    env["CARGO_TARGET_DIR"] = tdir
    t0 = time.time()
    p = subprocess.run(cmd, cwd=hdir, env=env, capture_output=True, text=True, timeout=1800)
    if p.returncode != 0:
        raise BuildError("harness build failed (%s %s):\n%s" % (profile, features, p.stderr[-4000:]))
    log("[build] harness %s %s in %.1fs" % (profile, list(features), time.time() - t0))
    return os.path.join(tdir, profile, "yv")


class Record:
    """One framed answer of the harness."""

    def __init__(self, lines, crashed=None):
        self.lines = lines
        self.crashed = crashed  # None | 'crash' | 'timeout'

    def tagged(self, tag):
        return [l.split(" ")[1:] for l in self.lines if l.startswith(tag + " ")]

    @property
    def output(self):
        return [unhx(x[0]).decode("utf-8", "replace") if x else "" for x in self.tagged("O")]

    @property
    def result(self):
        if self.crashed:
            return ("crash", self.crashed)
        r = self.tagged("R")
        if not r:
            return ("none", "")
        r = r[-1]
        if r[0] == "ok":
            return ("ok", unhx(r[1]).decode("utf-8", "replace") if len(r) > 1 else "")
        if r[0] == "err":
            return ("err", r[1])
        if r[0] == "panic":
            return ("panic", unhx(r[1]).decode("utf-8", "replace"))
        return (r[0], "")

    @property
    def messages(self):
        return [unhx(x[0]).decode("utf-8", "replace") if x else "" for x in self.tagged("M")]

    @property
    def uaf(self):
        u = self.tagged("U")
        return int(u[-1][0]) if u else 0

    def canon(self):
        """outcome summary used by most differential checks"""
        k, v = self.result
        return {"out": self.output, "res": k, "detail": v if k != "ok" else "", "msgs": self.messages}


def _run_shard(binary, lines, env, timeout):
    """Feeds `lines` to one harness process; restarts after a crash; returns list of Record."""
    recs = []
    i = 0
    while i < len(lines):
        chunk = lines[i:]
        try:
            p = subprocess.run([binary], input="\n".join(chunk) + "\n", env=env, capture_output=True,
                               text=True, timeout=timeout)
            out = p.stdout
        except subprocess.TimeoutExpired as e:
            out = (e.stdout or b"").decode() if isinstance(e.stdout, bytes) else (e.stdout or "")
        cur = None
        done = 0
        pending = None
        for l in out.split("\n"):
            if l.startswith("BEGIN "):
                cur = []
                pending = True
            elif l.startswith("END "):
                recs.append(Record(cur))
                cur = None
                pending = None
                done += 1
            elif l == "TIMEOUT":
                pending = "timeout"
            elif cur is not None:
                cur.append(l)
        if done == len(chunk):
            break
        # the case after the last END crashed, hung, or was never started
        recs.append(Record(cur or [], crashed=("timeout" if pending == "timeout" else "crash")))
        i += done + 1
    return recs


def run_harness(binary, lines, quarantine=False, case_timeout_ms=20000, shards=None, recycle=150):
    """Runs request lines through the harness, sharded over processes, order preserved."""
    if not lines:
        return []
    env = dict(ENV)
    env["YV_QUARANTINE"] = "1" if quarantine else "0"
    env["YV_CASE_TIMEOUT_MS"] = str(case_timeout_ms)
    shards = shards or NPROC
    size = max(1, min(recycle, (len(lines) + shards - 1) // shards))
    chunks = [lines[i:i + size] for i in range(0, len(lines), size)]
    tmo = max(120, size * case_timeout_ms / 1000.0 + 60)
    with ThreadPoolExecutor(max_workers=shards) as ex:
        res = list(ex.map(lambda c: _run_shard(binary, c, env, tmo), chunks))
    out = []
    for r in res:
        out.extend(r)
    assert len(out) == len(lines), (len(out), len(lines))
    return out


# ------------------------------------------------------------------------------------------
# Coq


def coq_args():
    return ["-Q", os.path.join(COQ, "theories"), "YV", "-Q", os.path.join(COQ, "gen"), "YVGen",
            "-Q", os.path.join(COQ, "props"), "YVProps"]


def write_if_changed(path, content):
    if os.path.exists(path):
        with open(path) as fh:
            if fh.read() == content:
                return False
    os.makedirs(os.path.dirname(path), exist_ok=True)
    with open(path, "w") as fh:
        fh.write(content)
    return True


def coq_makefile():
    files = []
    for d in ("theories", "gen", "props"):
        dd = os.path.join(COQ, d)
        if os.path.isdir(dd):
            files += sorted(os.path.join(d, f) for f in os.listdir(dd) if f.endswith(".v"))
    proj = "-Q theories YV\n-Q gen YVGen\n-Q props YVProps\n" + "\n".join(files) + "\n"
    changed = write_if_changed(os.path.join(COQ, "_CoqProject"), proj)
    if changed or not os.path.exists(os.path.join(COQ, "Makefile")):
        subprocess.run(["coq_makefile", "-f", "_CoqProject", "-o", "Makefile"], cwd=COQ, check=True,
                       capture_output=True)


def coq_make(targets, timeout=3000):
    """Full .vo build of the given targets (relative to coq/).  Returns (ok, log).
    Serialised with a file lock: several checks may run at once but share one build tree."""
    import fcntl
    os.makedirs(BUILD, exist_ok=True)
    t0 = time.time()
    with open(os.path.join(BUILD, "coq.lock"), "w") as lk:
        fcntl.flock(lk, fcntl.LOCK_EX)
        coq_makefile()
        cmd = ["timeout", str(timeout), "make", "-j%d" % NPROC] + list(targets)
        p = subprocess.run(cmd, cwd=COQ, capture_output=True, text=True, env=ENV)
    log("[coq] make %s -> %d in %.1fs" % (" ".join(targets), p.returncode, time.time() - t0))
    return p.returncode == 0, p.stdout + p.stderr


def coqc_file(path, timeout=900):
    cmd = ["timeout", str(timeout), "coqc", "-noglob"] + coq_args() + [path]
    p = subprocess.run(cmd, cwd=COQ, capture_output=True, text=True, env=ENV)
    return p.returncode == 0, p.stdout, p.stderr


FORBIDDEN = re.compile(
    r"\b(Admitted|admit|Axiom|Axioms|Parameter|Parameters|Conjecture|Admit Obligations|bypass_check)\b|Unset\s+Guard|Unset\s+Positivity|Unset\s+Universe|type-in-type")


def strip_coq_comments(text):
    out = []
    depth = 0
    i = 0
    n = len(text)
    instr = False
    while i < n:
        if depth == 0 and text[i] == '"':
            instr = not instr
            out.append(text[i])
            i += 1
            continue
        if not instr and text.startswith("(*", i):
            depth += 1
            i += 2
            continue
        if not instr and depth > 0 and text.startswith("*)", i):
            depth -= 1
            i += 2
            continue
        if depth == 0:
            out.append(text[i])
        i += 1
    return "".join(out)


def coq_deps(vfile):
    """Transitive .v dependencies of a file inside the development (via coqdep)."""
    seen = set()
    todo = [vfile]
    while todo:
        f = todo.pop()
        if f in seen:
            continue
        seen.add(f)
        p = subprocess.run(["coqdep"] + ["-Q", "theories", "YV", "-Q", "gen", "YVGen", "-Q", "props", "YVProps", f],
                           cwd=COQ, capture_output=True, text=True)
        for tok in p.stdout.replace("\\\n", " ").split():
            if tok.endswith(".vo") and not tok.startswith("/"):
                v = tok[:-1]
                if os.path.exists(os.path.join(COQ, v)) and v not in seen:
                    todo.append(v)
    return sorted(seen)


def forbidden_scan(files):
    hits = []
    for f in files:
        with open(os.path.join(COQ, f)) as fh:
            txt = strip_coq_comments(fh.read())
        for m in FORBIDDEN.finditer(txt):
            line = txt.count("\n", 0, m.start()) + 1
            hits.append("%s:%d:%s" % (f, line, m.group(0)))
    return hits


ALLOWED_AXIOMS = {
    # stdlib axioms that may legitimately appear (each is named in DESIGN.md §7 when used)
    "functional_extensionality_dep", "proof_irrelevance", "classic", "JMeq_eq",
    "Eqdep.Eq_rect_eq.eq_rect_eq", "eq_rect_eq",
    "ClassicalDedekindReals.sig_forall_dec", "ClassicalDedekindReals.sig_not_dec",
    "FunctionalExtensionality.functional_extensionality_dep", "Classical_Prop.classic",
}


def parse_assumptions(stdout):
    """Splits the output of successive `Print Assumptions` into a list of axiom-name lists."""
    res = []
    cur = None
    for l in stdout.split("\n"):
        if l.startswith("Closed under the global context"):
            res.append([])
            cur = None
        elif l.startswith("Axioms:"):
            cur = []
            res.append(cur)
        elif cur is not None:
            m = re.match(r"^([A-Za-z_][\w.']*)\s*:", l)
            if m:
                cur.append(m.group(1))
            elif l and not l.startswith(" "):
                cur = None
    return res


def coq_eval(imports, terms, shard_size=250, timeout=1200, tag="cases", preamble=""):
    """Evaluates Gallina terms of type `string` with vm_compute, sharded over coqc processes.
    Returns a list of Python strings (None where evaluation failed)."""
    if not terms:
        return []
    # the modules a case file imports must be up to date with the regenerated tables, whether or not they are in
    # the closure of the property file (a stale .vo makes every evaluation fail with "inconsistent assumptions")
    targets = []
    for i in imports:
        lib, mod = i.split(":")
        d = {"YV": "theories", "YVGen": "gen", "YVProps": "props"}.get(lib)
        if d and os.path.exists(os.path.join(COQ, d, mod + ".v")):
            targets.append("%s/%s.vo" % (d, mod))
    if targets and not os.environ.get("YV_NO_EVAL_MAKE"):
        ok_mk, mk_log = coq_make(targets)
        if not ok_mk:
            raise RuntimeError("model files needed for evaluation do not build: %s\n%s" % (targets, mk_log[-1500:]))
    cdir = os.path.join(BUILD, "cases", tag)
    if os.path.isdir(cdir):
        shutil.rmtree(cdir)
    os.makedirs(cdir)
    head = "".join("From %s Require Import %s.\n" % tuple(i.split(":")) for i in imports)
    head += "From Coq Require Import String List ZArith NArith.\nImport ListNotations.\nSet Printing Width 1000000.\nSet Printing Depth 1000000.\n" + preamble + "\n"
    chunks = [terms[i:i + shard_size] for i in range(0, len(terms), shard_size)]

    def run(ix):
        path = os.path.join(cdir, "cases_%d.v" % ix)
        with open(path, "w") as fh:
            fh.write(head)
            for t in chunks[ix]:
                fh.write("Eval vm_compute in (%s).\n" % t)
        p = subprocess.run("ulimit -s unlimited; exec timeout %d coqc -noglob %s %s" % (
            timeout, " ".join(coq_args()), path), shell=True, cwd=cdir, capture_output=True, text=True, env=ENV)
        vals = re.findall(r'^\s*= "((?:[^"]|"")*)"\s*\n\s*: string', p.stdout, re.M)
        if p.returncode != 0 or len(vals) != len(chunks[ix]):
            log("[coq_eval] shard %d: rc=%d got %d/%d values\n%s" % (ix, p.returncode, len(vals), len(chunks[ix]), p.stderr[-2000:]))
            if len(chunks[ix]) > 1 and p.returncode != 0:
                return None
            return [None] * len(chunks[ix])
        return [v.replace('""', '"') for v in vals]

    with ThreadPoolExecutor(max_workers=NPROC) as ex:
        res = list(ex.map(run, range(len(chunks))))
    if all(r is None for r in res) and len(terms) > 1 and tag[-6:] != "_retry":
        raise RuntimeError("model evaluation failed for every shard of %s (see stderr): the model does not evaluate" % tag)
    out = []
    for ix, r in enumerate(res):
        if r is None:
            # a failing shard is re-run term by term so that one bad term does not hide the others
            for t in chunks[ix]:
                sub = coq_eval(imports, [t], shard_size=1, timeout=timeout, tag=tag + "_retry", preamble=preamble)
                out.extend(sub)
        else:
            out.extend(r)
    return out


def coq_str(b):
    """Gallina `string` literal for ASCII-printable text; otherwise a byte list conversion."""
    if isinstance(b, str):
        b = b.encode("utf-8")
    if all(32 <= c < 127 for c in b):
        return '"%s"%%string' % b.decode().replace('"', '""')
    return "(YV.Wire.string_of_bytes_N [%s]%%N)" % ";".join(str(c) for c in b)


def coq_bytes(b):
    """Gallina `list byte` from bytes, via N codes (YV.Wire.bytes_of_Ns)."""
    if isinstance(b, str):
        b = b.encode("utf-8")
    return "(YV.Wire.bytes_of_Ns [%s]%%N)" % ";".join(str(c) for c in b)


# ------------------------------------------------------------------------------------------
# evidence, replay, known findings


def load_known_findings():
    p = os.path.join(VERIF, "known_findings.json")
    if not os.path.exists(p):
        return {"open": [], "fixed": []}
    with open(p) as fh:
        return json.load(fh)


def write_json(path, obj):
    os.makedirs(os.path.dirname(path), exist_ok=True)
    tmp = path + ".tmp"
    with open(tmp, "w") as fh:
        json.dump(obj, fh, indent=1, sort_keys=True, default=str)
        fh.write("\n")
    os.replace(tmp, path)


def replay_path(pid, n):
    d = os.path.join(VERIF, "evidence", "replay")
    os.makedirs(d, exist_ok=True)
    return os.path.join(d, "%s-%d.json" % (pid, n))


class Rng(random.Random):
    pass
