#!/usr/bin/env python3
"""rust2gallina - a small Rust -> Gallina translator for the PURE core functions of /repo/yarel.

Pipeline:  rustlex tokens -> recursive-descent parser (the subset below) -> typed CPS translation into a tiny
monadic IR -> Gallina text using only the vocabulary of coq/theories/R2G.v (+ YV.Num floats, YV.Utf8).

FAILS CLOSED: any construct outside the subset inside a requested function raises `Unsupported`; the caller
(translate_r2g.py) then emits `Definition <name>_untranslatable : False := I.` (which does not compile) and an
entry in coq/gen/manifest.json.

Supported subset (notes/R2G.md has the full statement):
  items       fn with typed parameters (free, or in an `impl` block with &self / &mut self), module consts
  statements  let / let mut (with tuple patterns), assignment, compound assignment, expression statements,
              if / if let / else, match on Option / enum-tuple / tuple / literal patterns, loop, while,
              for x in <slice>, break, continue, return, `?` on a translated function returning Result
  expressions integer / float / bool / string literals, paths to locals, parameters, self fields, consts,
              unary ! - * &, binary + - * / % & | ^ << >> == != < <= > >= && ||, `as` casts, tuples,
              field access, indexing of slices / Vec, struct literals (of the function's own result type),
              Some / None / Ok / Err / Value::Number, error!(..), cfg!(..) (-> boolean parameter),
              whitelisted methods (METHODS below)
"""
import os
import re
import sys
from fractions import Fraction

sys.path.insert(0, os.path.dirname(os.path.abspath(__file__)))
from rustlex import lex, match_group  # noqa


class Unsupported(Exception):
    pass


class ResolveInt(Exception):
    """the type of `let x = <unsuffixed literal>` has been determined by a later use"""
    def __init__(self, ident, ty):
        Exception.__init__(self, "unresolved integer literal")
        self.ident, self.ty = ident, ty


def unsupported(what, tok=None):
    raise Unsupported("%s%s" % (what, " (line %d)" % tok.line if tok is not None else ""))


# =========================================================================================
# 1. parser
# =========================================================================================

INT_TYPES = {"u8": (False, 8), "u16": (False, 16), "u32": (False, 32), "u64": (False, 64), "u128": (False, 128),
             "usize": (False, 64), "i8": (True, 8), "i16": (True, 16), "i32": (True, 32), "i64": (True, 64),
             "i128": (True, 128), "isize": (True, 64)}

BINOP_PREC = {
    "||": 4, "&&": 5,
    "==": 6, "!=": 6, "<": 6, "<=": 6, ">": 6, ">=": 6,
    "|": 7, "^": 8, "&": 9, "<<": 10, ">>": 10, "+": 11, "-": 11, "*": 12, "/": 12, "%": 12,
}
ASSIGN_OPS = {"=", "+=", "-=", "*=", "/=", "%=", "^=", "&=", "|=", "<<=", ">>="}


class Parser:
    def __init__(self, toks, lo, hi):
        self.t = toks
        self.i = lo
        self.hi = hi

    # --- token helpers
    def peek(self, k=0):
        j = self.i + k
        return self.t[j] if j < self.hi else None

    def text(self, k=0):
        p = self.peek(k)
        return p.text if p is not None else None

    def at(self, s, k=0):
        p = self.peek(k)
        return p is not None and p.text == s and p.kind in ("op", "id")

    def next(self):
        p = self.peek()
        if p is None:
            unsupported("unexpected end of input")
        self.i += 1
        return p

    def expect(self, s):
        p = self.next()
        if p.text != s:
            unsupported("expected `%s`, found `%s`" % (s, p.text), p)
        return p

    def done(self):
        return self.i >= self.hi

    # --- types
    def parse_type(self):
        """returns a type AST; `>>` closing two generic lists is split by the caller via self.pending_gt"""
        p = self.peek()
        if p is None:
            unsupported("type expected")
        if p.text == "&" or p.text == "&&":
            self.next()
            if self.peek() is not None and self.peek().kind == "life":
                self.next()
            if self.at("mut"):
                self.next()
            inner = self.parse_type()
            return ("tref", ("tref", inner)) if p.text == "&&" else ("tref", inner)
        if p.text == "*":
            self.next()
            if self.at("const") or self.at("mut"):
                self.next()
            return ("tptr", self.parse_type())
        if p.text == "(":
            self.next()
            elems = []
            while not self.at(")"):
                elems.append(self.parse_type())
                if self.at(","):
                    self.next()
            self.expect(")")
            if not elems:
                return ("tunit",)
            if len(elems) == 1:
                return elems[0]
            return ("ttuple", elems)
        if p.text == "[":
            self.next()
            inner = self.parse_type()
            if self.at(";"):
                self.next()
                lo = self.i
                while not self.at("]"):
                    self.next()
                self.expect("]")
                return ("tarray", inner, " ".join(x.text for x in self.t[lo:self.i - 1]))
            self.expect("]")
            return ("tslice", inner)
        if p.kind == "id":
            if p.text in ("dyn", "impl", "fn"):
                unsupported("type `%s`" % p.text, p)
            segs = [self.next().text]
            args = []
            while True:
                if self.at("::") and self.peek(1) is not None and self.peek(1).kind == "id":
                    self.next()
                    segs.append(self.next().text)
                    continue
                if self.at("<") or (self.at("::") and self.at("<", 1)):
                    if self.at("::"):
                        self.next()
                    self.next()
                    args = self.parse_generic_args()
                break
            return ("tpath", segs[-1], args)
        unsupported("type starting with `%s`" % p.text, p)

    def parse_generic_args(self):
        """after `<`; consumes up to and including the closing `>` (splitting `>>`)"""
        args = []
        while True:
            if getattr(self, "pending_gt", 0):
                self.pending_gt -= 1
                return args
            if self.at(">"):
                self.next()
                return args
            if self.at(">>"):
                self.next()
                self.pending_gt = 1
                return args
            if self.at(","):
                self.next()
                continue
            if self.peek() is not None and self.peek().kind == "life":
                self.next()
                continue
            if self.peek() is not None and self.peek().kind == "num":
                args.append(("tconst", self.next().text))
                continue
            args.append(self.parse_type())

    # --- patterns
    def parse_pattern(self):
        p = self.peek()
        if p.text == "&":
            self.next()
            return ("p_ref", self.parse_pattern())
        if p.text == "_":
            self.next()
            return ("p_wild",)
        if p.text == "(":
            self.next()
            elems = []
            while not self.at(")"):
                elems.append(self.parse_pattern())
                if self.at(","):
                    self.next()
            self.expect(")")
            return ("p_tuple", elems) if len(elems) != 1 else elems[0]
        if p.kind == "num" or (p.text == "-" and self.peek(1).kind == "num"):
            neg = False
            if p.text == "-":
                self.next()
                neg = True
            v, suf = parse_int_literal(self.next().text)
            return ("p_lit", -v if neg else v)
        if p.kind == "str" and not p.text.startswith("b"):
            self.next()
            return ("p_str", unescape_str(p.text[1:-1], p))
        if p.kind == "id":
            if p.text in ("true", "false"):
                self.next()
                return ("p_bool", p.text == "true")
            mutable = False
            if p.text == "ref":
                unsupported("`ref` pattern", p)
            if p.text == "mut":
                self.next()
                mutable = True
            segs = [self.next().text]
            while self.at("::"):
                self.next()
                segs.append(self.next().text)
            if self.at("("):
                self.next()
                elems = []
                while not self.at(")"):
                    elems.append(self.parse_pattern())
                    if self.at(","):
                        self.next()
                self.expect(")")
                return ("p_ts", segs, elems)
            if self.at("{"):
                unsupported("struct pattern", p)
            if len(segs) == 1 and (segs[0][0].islower() or segs[0][0] == "_"):
                return ("p_id", segs[0], mutable)
            return ("p_path", segs)
        unsupported("pattern starting with `%s`" % p.text, p)

    # --- blocks and statements
    def parse_block(self):
        """at `{`; returns ('block', stmts, tail)"""
        o = self.i
        if not self.at("{"):
            unsupported("block expected, found `%s`" % self.text(), self.peek())
        c = match_group(self.t, o)
        sub = Parser(self.t, o + 1, c)
        stmts, tail = sub.parse_stmts()
        self.i = c + 1
        return ("block", stmts, tail)

    def skip_attribute(self):
        """at `#`; returns the attribute text"""
        self.expect("#")
        if self.at("!"):
            self.next()
        o = self.i
        c = match_group(self.t, o)
        txt = " ".join(x.text for x in self.t[o + 1:c])
        self.i = c + 1
        return txt

    def parse_stmts(self):
        stmts = []
        tail = None
        while not self.done():
            attrs = []
            while self.at("#"):
                attrs.append(self.skip_attribute())
            hooked = any(a.startswith("cfg") and "verif_hooks" in a for a in attrs)
            other_cfg = [a for a in attrs if a.startswith("cfg") and "verif_hooks" not in a]
            if other_cfg:
                unsupported("statement under #[%s]" % other_cfg[0], self.peek())
            if self.at(";"):
                self.next()
                continue
            st, is_tail = self.parse_stmt()
            if hooked:
                continue          # add-only verification hooks (feature verif_hooks) are not part of the code
            if is_tail:
                if not self.done():
                    unsupported("expression without `;` in the middle of a block", self.peek())
                tail = st
            else:
                stmts.append(st)
        return stmts, tail

    def parse_stmt(self):
        """returns (stmt, False) or (expr, True) for a tail expression"""
        p = self.peek()
        if p.text == "let":
            self.next()
            pat = self.parse_pattern()
            ty = None
            if self.at(":"):
                self.next()
                ty = self.parse_type()
            init = None
            if self.at("="):
                self.next()
                init = self.parse_expr()
            if self.at("else"):
                unsupported("let-else", p)
            self.expect(";")
            return ("let", pat, ty, init, p.line), False
        if p.kind == "id" and p.text in ("fn", "struct", "enum", "impl", "use", "const", "static", "mod", "type",
                                         "trait", "macro_rules!"):
            unsupported("nested item `%s`" % p.text, p)
        e = self.parse_expr(stmt=True)
        if self.at(";"):
            self.next()
            return ("expr", e, p.line), False
        if self.done():
            return e, True
        if e[0] in ("if", "match", "loop", "while", "for", "block", "unsafe"):
            return ("expr", e, p.line), False      # block-like expression statement
        unsupported("`;` expected after expression, found `%s`" % self.text(), self.peek())

    # --- expressions
    def parse_expr(self, no_struct=False, stmt=False):
        return self.parse_assign(no_struct, stmt)

    def parse_assign(self, no_struct, stmt=False):
        if self.at(".."):
            p0 = self.next()
            q = self.peek()
            rhs = None
            if q is not None and not (q.kind == "op" and q.text in ("]", ")", "}", ";", ",", "{", "=>")):
                rhs = self.parse_binary(0, no_struct)
            return ("range", None, rhs)
        lhs = self.parse_binary(0, no_struct, stmt)
        p = self.peek()
        if p is not None and p.kind == "op" and p.text in ASSIGN_OPS:
            self.next()
            rhs = self.parse_assign(no_struct)
            return ("assign", p.text, lhs, rhs)
        if p is not None and p.kind == "op" and p.text in ("..", "..="):
            self.next()
            q = self.peek()
            rhs = None
            if q is not None and not (q.kind == "op" and q.text in ("]", ")", "}", ";", ",", "{", "=>")):
                rhs = self.parse_binary(0, no_struct)
            if p.text == "..=":
                unsupported("inclusive range", p)
            return ("range", lhs, rhs)
        return lhs

    def parse_binary(self, min_prec, no_struct, stmt=False):
        lhs = self.parse_unary(no_struct, stmt)
        if stmt and lhs[0] in ("if", "match", "loop", "while", "for", "block", "unsafe"):
            return lhs                       # a block-like expression at statement start ends the statement
        while True:
            p = self.peek()
            if p is None:
                return lhs
            if p.kind == "id" and p.text == "as":
                if 13 < min_prec:
                    return lhs
                self.next()
                ty = self.parse_type()
                lhs = ("cast", lhs, ty)
                continue
            if p.kind != "op" or p.text not in BINOP_PREC:
                return lhs
            prec = BINOP_PREC[p.text]
            if prec < min_prec:
                return lhs
            self.next()
            rhs = self.parse_binary(prec + 1, no_struct)
            if prec == 6 and lhs[0] == "binary" and BINOP_PREC.get(lhs[1]) == 6:
                unsupported("chained comparison", p)
            lhs = ("binary", p.text, lhs, rhs)

    def parse_unary(self, no_struct, stmt=False):
        p = self.peek()
        if p is None:
            unsupported("expression expected")
        if p.kind == "op" and p.text in ("!", "-", "*"):
            self.next()
            return ("unary", p.text, self.parse_unary(no_struct))
        if p.kind == "op" and p.text in ("&", "&&"):
            self.next()
            if self.at("mut"):
                self.next()
            e = ("unary", "&", self.parse_unary(no_struct))
            return ("unary", "&", e) if p.text == "&&" else e
        prim = self.parse_primary(no_struct)
        if stmt and prim[0] in ("if", "match", "loop", "while", "for", "block", "unsafe"):
            return prim                      # a block-like expression at statement start takes no postfix operator
        return self.parse_postfix(prim, no_struct)

    def parse_args(self):
        """at `(`"""
        self.expect("(")
        args = []
        while not self.at(")"):
            args.append(self.parse_expr())
            if self.at(","):
                self.next()
            elif not self.at(")"):
                unsupported("`,` or `)` expected in argument list", self.peek())
        self.expect(")")
        return args

    def parse_postfix(self, e, no_struct):
        while True:
            p = self.peek()
            if p is None:
                return e
            if p.text == "?" and p.kind == "op":
                self.next()
                e = ("try", e)
            elif p.text == "." and p.kind == "op":
                self.next()
                n = self.next()
                if n.kind == "num":
                    e = ("tfield", e, int(n.text))
                elif n.kind == "id":
                    if n.text == "await":
                        unsupported(".await", n)
                    generics = None
                    if self.at("::"):
                        self.next()
                        self.expect("<")
                        generics = self.parse_generic_args()
                    if self.at("("):
                        e = ("mcall", e, n.text, self.parse_args(), generics)
                    else:
                        e = ("field", e, n.text)
                else:
                    unsupported("`.%s`" % n.text, n)
            elif p.text == "(" and p.kind == "op":
                e = ("call", e, self.parse_args())
            elif p.text == "[" and p.kind == "op":
                self.next()
                idx = self.parse_expr()
                self.expect("]")
                e = ("index", e, idx)
            else:
                return e

    def parse_primary(self, no_struct):
        p = self.next()
        if p.kind == "num":
            txt = p.text
            if is_float_literal(txt):
                return ("lit_float", txt)
            v, suf = parse_int_literal(txt)
            return ("lit_int", v, suf)
        if p.kind == "str":
            if p.text.startswith("b"):
                unsupported("byte string literal", p)
            return ("lit_str", unescape_str(p.text[1:-1], p))
        if p.kind == "chr" and not p.text.startswith("b"):
            body = unescape_str(p.text[1:-1], p)
            if len(body) != 1:
                unsupported("char literal `%s`" % p.text, p)
            return ("lit_char", ord(body))
        if p.kind in ("rstr", "chr", "life"):
            unsupported("literal `%s`" % p.text, p)
        if p.kind == "op":
            if p.text == "(":
                elems = []
                trailing = False
                while not self.at(")"):
                    elems.append(self.parse_expr())
                    trailing = False
                    if self.at(","):
                        self.next()
                        trailing = True
                self.expect(")")
                if len(elems) == 1 and not trailing:
                    e = elems[0]
                    return ("paren", e)
                if not elems:
                    return ("unit",)
                return ("tuple", elems)
            if p.text == "{":
                self.i -= 1
                return self.parse_block()
            if p.text == "|" or p.text == "||":
                params = []
                if p.text == "|":
                    while not self.at("|"):
                        pat = self.parse_pattern()
                        if self.at(":"):
                            self.next()
                            self.parse_type()
                        params.append(pat)
                        if self.at(","):
                            self.next()
                    self.expect("|")
                if self.at("->"):
                    unsupported("closure with a declared result type", p)
                body = self.parse_expr(no_struct)
                return ("closure", params, body, p.line)
            unsupported("expression starting with `%s`" % p.text, p)
        # identifiers / keywords
        t = p.text
        if t in ("true", "false"):
            return ("lit_bool", t == "true")
        if t == "if":
            return self.parse_if()
        if t == "match":
            scrut = self.parse_expr(no_struct=True)
            o = self.i
            if not self.at("{"):
                unsupported("`{` expected after match scrutinee", self.peek())
            c = match_group(self.t, o)
            sub = Parser(self.t, o + 1, c)
            arms = []
            while not sub.done():
                while sub.at("#"):
                    sub.skip_attribute()
                if sub.at("|"):
                    sub.next()
                pats = [sub.parse_pattern()]
                while sub.at("|"):
                    sub.next()
                    pats.append(sub.parse_pattern())
                guard = None
                if sub.at("if"):
                    sub.next()
                    guard = sub.parse_expr(no_struct=True)
                sub.expect("=>")
                body = sub.parse_expr()
                if sub.at(","):
                    sub.next()
                for pt in pats:
                    arms.append((pt, guard, body))
            self.i = c + 1
            return ("match", scrut, arms)
        if t == "loop":
            return ("loop", self.parse_block())
        if t == "while":
            if self.at("let"):
                unsupported("while let", p)
            cond = self.parse_expr(no_struct=True)
            return ("while", cond, self.parse_block())
        if t == "for":
            pat = self.parse_pattern()
            self.expect("in")
            it = self.parse_expr(no_struct=True)
            return ("for", pat, it, self.parse_block())
        if t == "unsafe":
            return ("unsafe", self.parse_block())
        if t == "return":
            if self.done() or self.at(";") or self.at("}") or self.at(","):
                return ("return", None)
            return ("return", self.parse_expr(no_struct))
        if t == "break":
            if self.peek() is not None and self.peek().kind == "life":
                unsupported("labelled break", p)
            if not (self.done() or self.at(";") or self.at("}") or self.at(",")):
                unsupported("break with value", p)
            return ("break",)
        if t == "continue":
            if self.peek() is not None and self.peek().kind == "life":
                unsupported("labelled continue", p)
            return ("continue",)
        if t in ("move", "async", "let", "mut", "ref", "dyn", "impl", "where", "yield"):
            unsupported("keyword `%s` in expression" % t, p)
        if t.endswith("!"):
            # macro call: keep the raw token range of its arguments
            o = self.i
            if self.peek() is None or self.peek().text not in ("(", "[", "{"):
                unsupported("macro without arguments", p)
            c = match_group(self.t, o)
            self.i = c + 1
            return ("macro", t[:-1], o + 1, c, p.line)
        # path
        segs = [t]
        generics = None
        while self.at("::"):
            self.next()
            if self.at("<"):
                self.next()
                generics = self.parse_generic_args()
                continue
            n = self.next()
            if n.kind != "id":
                unsupported("path segment `%s`" % n.text, n)
            segs.append(n.text)
        if self.at("{") and not no_struct and segs[-1][0].isupper():
            # struct literal
            o = self.i
            c = match_group(self.t, o)
            sub = Parser(self.t, o + 1, c)
            fields = []
            while not sub.done():
                if sub.at(".."):
                    unsupported("struct update syntax", sub.peek())
                fname = sub.next()
                if fname.kind != "id":
                    unsupported("struct literal field `%s`" % fname.text, fname)
                if sub.at(":"):
                    sub.next()
                    fields.append((fname.text, sub.parse_expr()))
                else:
                    fields.append((fname.text, ("path", [fname.text], None)))
                if sub.at(","):
                    sub.next()
            self.i = c + 1
            return ("struct", segs, fields)
        return ("path", segs, generics)

    def parse_if(self):
        if self.at("let"):
            self.next()
            pat = self.parse_pattern()
            self.expect("=")
            scrut = self.parse_expr(no_struct=True)
            cond = ("let", pat, scrut)
        else:
            cond = self.parse_expr(no_struct=True)
        then = self.parse_block()
        els = None
        if self.at("else"):
            self.next()
            if self.at("if"):
                self.next()
                els = self.parse_if()
            else:
                els = self.parse_block()
        return ("if", cond, then, els)


def split_fields(toks, lo, hi):
    """splits toks[lo:hi] at commas outside every bracket, `<...>` included"""
    parts = []
    depth = 0
    start = lo
    for j in range(lo, hi):
        t = toks[j]
        if t.kind != "op":
            continue
        if t.text in ("(", "[", "{", "<"):
            depth += 1
        elif t.text in (")", "]", "}", ">"):
            depth -= 1
        elif t.text == ">>":
            depth -= 2
        elif t.text == "," and depth == 0:
            parts.append((start, j))
            start = j + 1
    if start < hi:
        parts.append((start, hi))
    return parts


def is_float_literal(txt):
    if txt.startswith(("0x", "0b", "0o")):
        return False
    body = re.sub(r"_?(f32|f64)$", "", txt)
    if body != txt:
        return True
    body = re.sub(r"_?(u8|u16|u32|u64|u128|usize|i8|i16|i32|i64|i128|isize|64)$", "", txt)
    return "." in body or "e" in body.lower()


def parse_int_literal(txt):
    m = re.match(r"^(.*?)_?(u8|u16|u32|u64|u128|usize|i8|i16|i32|i64|i128|isize)?$", txt)
    body, suf = m.group(1), m.group(2)
    body = body.replace("_", "")
    if body.startswith("0x"):
        v = int(body[2:], 16)
    elif body.startswith("0b"):
        v = int(body[2:], 2)
    elif body.startswith("0o"):
        v = int(body[2:], 8)
    else:
        v = int(body)
    return v, suf


def unescape_str(s, tok):
    out = []
    i = 0
    while i < len(s):
        c = s[i]
        if c == "\\":
            i += 1
            d = s[i]
            m = {"n": "\n", "t": "\t", "\\": "\\", '"': '"', "'": "'", "0": "\0", "r": "\r"}
            if d in m:
                out.append(m[d])
            elif d == "x" and re.match(r"^[0-7][0-9a-fA-F]$", s[i + 1:i + 3]):
                out.append(chr(int(s[i + 1:i + 3], 16)))
                i += 2
            else:
                unsupported("string escape \\%s" % d, tok)
        else:
            out.append(c)
        i += 1
    return "".join(out)


# =========================================================================================
# 2. source index: struct declarations, fn items, consts
# =========================================================================================

class FnDecl:
    def __init__(self):
        self.file = self.impl = self.name = None
        self.self_kind = None          # None | 'ref' | 'mut' | 'value'
        self.params = []               # [(pattern, type_ast)]
        self.ret = None                # type_ast | None
        self.body = None               # (lo, hi) token indices of `{` and `}`
        self.const_generics = []       # [(name, type_ast)]
        self.toks = None


class Source:
    def __init__(self, src_dir):
        self.dir = src_dir
        self._toks = {}
        self._structs = None

    def toks(self, f):
        if f not in self._toks:
            with open(os.path.join(self.dir, f)) as fh:
                self._toks[f] = lex(fh.read())
        return self._toks[f]

    def files(self):
        return sorted(f for f in os.listdir(self.dir) if f.endswith(".rs") and "template" not in f)

    @staticmethod
    def _hooked(toks, i):
        """is the item starting at token i (possibly after `pub`, `pub(crate)`) under #[cfg(... verif_hooks ...)]"""
        j = i - 1
        seen = 0
        while j >= 0 and seen < 40:
            t = toks[j]
            if t.text in ("}", ";", "{"):
                return False
            if t.kind == "str" and "verif_hooks" in t.text:
                return True
            j -= 1
            seen += 1
        return False

    def structs(self):
        if self._structs is None:
            self._structs = {}
            for f in self.files():
                toks = self.toks(f)
                for i, t in enumerate(toks):
                    if t.kind == "id" and t.text == "struct" and i + 1 < len(toks) and toks[i + 1].kind == "id":
                        name = toks[i + 1].text
                        j = i + 2
                        # generics
                        if toks[j].text == "<":
                            depth = 0
                            while True:
                                if toks[j].text == "<":
                                    depth += 1
                                elif toks[j].text == ">":
                                    depth -= 1
                                elif toks[j].text == ">>":
                                    depth -= 2
                                j += 1
                                if depth <= 0:
                                    break
                        if toks[j].text != "{":
                            continue
                        c = match_group(toks, j)
                        fields = []
                        for lo, hi in split_fields(toks, j + 1, c):
                            p = Parser(toks, lo, hi)
                            try:
                                while p.at("#"):
                                    p.skip_attribute()
                                if p.at("pub"):
                                    p.next()
                                    if p.at("("):
                                        p.i = match_group(toks, p.i) + 1
                                fname = p.next().text
                                p.expect(":")
                                try:
                                    fty = p.parse_type()
                                    if not p.done():
                                        fty = ("topaque",)
                                except Unsupported:
                                    fty = ("topaque",)
                                fields.append((fname, fty))
                            except Unsupported:
                                continue
                        if name not in self._structs and not self._hooked(toks, i):
                            self._structs[name] = fields
        return self._structs

    def enums(self):
        """name -> [variant names] for the enums whose variants are all unit variants"""
        if getattr(self, "_enums", None) is None:
            self._enums = {}
            for f in self.files():
                toks = self.toks(f)
                for i, t in enumerate(toks):
                    if t.kind == "id" and t.text == "enum" and i + 2 < len(toks) and toks[i + 1].kind == "id" \
                            and toks[i + 2].text == "{":
                        c = match_group(toks, i + 2)
                        names = []
                        ok = True
                        for lo, hi in split_fields(toks, i + 3, c):
                            j = lo
                            while j < hi and toks[j].text == "#":
                                j = match_group(toks, j + 1) + 1
                            if hi - j != 1 or toks[j].kind != "id":
                                ok = False
                                break
                            names.append(toks[j].text)
                        if ok and names and toks[i + 1].text not in self._enums and not self._hooked(toks, i):
                            self._enums[toks[i + 1].text] = names
        return self._enums

    def impl_blocks(self, f):
        """[(self_type_name, open_idx, close_idx)] for the non-hook impl blocks of file f"""
        toks = self.toks(f)
        res = []
        for i, t in enumerate(toks):
            if t.kind == "id" and t.text == "impl" and (i == 0 or toks[i - 1].text in ("}", ";", "]", "{", "unsafe")):
                j = i + 1
                if toks[j].text == "<":
                    depth = 0
                    while True:
                        if toks[j].text == "<":
                            depth += 1
                        elif toks[j].text == ">":
                            depth -= 1
                        elif toks[j].text == ">>":
                            depth -= 2
                        j += 1
                        if depth <= 0:
                            break
                k = j
                while toks[k].text != "{":
                    k += 1
                header = toks[j:k]
                # cut a where clause
                for q, h in enumerate(header):
                    if h.kind == "id" and h.text == "where":
                        header = header[:q]
                        break
                names = header
                for q, h in enumerate(header):
                    if h.kind == "id" and h.text == "for":
                        names = header[q + 1:]
                # self type = last path segment before generics
                ty = None
                q = 0
                while q < len(names) and names[q].kind == "id":
                    ty = names[q].text
                    if q + 1 < len(names) and names[q + 1].text == "::":
                        q += 2
                    else:
                        break
                if ty is None or self._hooked(toks, i):
                    continue
                res.append((ty, k, match_group(toks, k)))
        return res

    def find_fn(self, f, impl, name):
        toks = self.toks(f)
        blocks = self.impl_blocks(f)
        cands = []
        for i, t in enumerate(toks):
            if t.kind == "id" and t.text == "fn" and i + 1 < len(toks) and toks[i + 1].text == name \
                    and toks[i + 1].kind == "id":
                encl = None
                for ty, o, c in blocks:
                    if o < i < c:
                        # innermost
                        if encl is None or o > encl[1]:
                            encl = (ty, o, c)
                if (encl[0] if encl else None) == impl and not self._hooked(toks, i):
                    cands.append(i)
        if not cands:
            unsupported("fn %s%s not found in %s" % ((impl + "::") if impl else "", name, f))
        if len(cands) > 1:
            unsupported("fn %s%s is defined %d times in %s" % ((impl + "::") if impl else "", name, len(cands), f))
        return self.parse_fn(f, impl, cands[0])

    def parse_fn(self, f, impl, i):
        toks = self.toks(f)
        d = FnDecl()
        d.file, d.impl, d.name, d.toks = f, impl, toks[i + 1].text, toks
        # qualifiers before `fn`
        if i > 0 and toks[i - 1].text in ("unsafe", "async", "extern"):
            unsupported("`%s fn`" % toks[i - 1].text, toks[i])
        j = i + 2
        if toks[j].text == "<":
            # generics: record const generics, skip the rest
            depth = 0
            start = j
            while True:
                if toks[j].text == "<":
                    depth += 1
                elif toks[j].text == ">":
                    depth -= 1
                elif toks[j].text == ">>":
                    depth -= 2
                j += 1
                if depth <= 0:
                    break
        if toks[j].text != "(":
            unsupported("parameter list expected", toks[j])
        c = match_group(toks, j)
        p = Parser(toks, j + 1, c)
        while not p.done():
            while p.at("#"):
                p.skip_attribute()
            if p.at("&") and (p.at("self", 1) or (p.at("mut", 1) and p.at("self", 2))):
                p.next()
                if p.at("mut"):
                    p.next()
                    d.self_kind = "mut"
                else:
                    d.self_kind = "ref"
                p.next()
            elif p.at("self") or (p.at("mut") and p.at("self", 1)):
                if p.at("mut"):
                    p.next()
                p.next()
                d.self_kind = "value"
            else:
                pat = p.parse_pattern()
                p.expect(":")
                ty = p.parse_type()
                d.params.append((pat, ty))
            if p.at(","):
                p.next()
        j = c + 1
        if toks[j].text == "->":
            p = Parser(toks, j + 1, len(toks))
            d.ret = p.parse_type()
            j = p.i
        while toks[j].text != "{":
            if toks[j].text == ";":
                unsupported("fn without body", toks[j])
            j += 1
        d.body = (j, match_group(toks, j))
        # const generics of the enclosing impl
        if impl is not None:
            for ty, o, cc in self.impl_blocks(f):
                if o < i < cc:
                    k = o
                    while toks[k].text != "impl":
                        k -= 1
                    q = k
                    while q < o:
                        if toks[q].text == "const" and toks[q + 2].text == ":":
                            pp = Parser(toks, q + 3, o)
                            d.const_generics.append((toks[q + 1].text, pp.parse_type()))
                        q += 1
        return d

    def fn_ret_type(self, f, impl, name):
        try:
            return self.find_fn(f, impl, name).ret
        except Unsupported:
            return None

    def find_const(self, files, name):
        """returns (file, type_ast, lo, hi) of `const NAME: T = <expr>;`"""
        for f in files:
            toks = self.toks(f)
            for i, t in enumerate(toks):
                if t.kind == "id" and t.text == "const" and toks[i + 1].text == name and toks[i + 2].text == ":" \
                        and (i == 0 or toks[i - 1].text not in ("*", "<", ",")):
                    p = Parser(toks, i + 3, len(toks))
                    ty = p.parse_type()
                    if not p.at("="):
                        continue
                    lo = p.i + 1
                    hi = lo
                    while toks[hi].text != ";":
                        hi += 1
                    return f, ty, lo, hi
        return None


# =========================================================================================
# 3. types of the target language
# =========================================================================================

def T_int(name):
    s, b = INT_TYPES[name]
    return ("int", s, b, name)


T_USIZE = T_int("usize")
T_U32 = T_int("u32")
T_I32 = T_int("i32")


def is_int(t):
    return isinstance(t, tuple) and t[0] == "int"


def int_range(t):
    _, s, b, _ = t
    return (-(1 << (b - 1)), (1 << (b - 1)) - 1) if s else (0, (1 << b) - 1)


def gty(t):
    """Gallina text of a type"""
    if is_int(t) or t == "ptr":
        return "Z"
    if t in ("f64", "bool", "unit", "rvalue", "byte", "xvalue"):
        return t
    if t == "char":
        return "Z"
    if t == "xelem":
        return "(xvalue * string)"
    if t == "fx":
        return "stack_fx"
    if t == "str":
        return "list byte"
    if t == "msg":
        return "string"
    if t == "error":
        return "rerror"
    if t == "objstring":
        return "(Z * list byte)"
    if isinstance(t, tuple):
        if t[0] == "opt":
            return "option %s" % gatom(gty(t[1]))
        if t[0] == "list":
            return "list %s" % gatom(gty(t[1]))
        if t[0] == "result":
            return "rresult %s" % gatom(gty(t[1]))
        if t[0] == "tuple":
            return "(" + " * ".join(gatom(gty(x)) for x in t[1]) + ")"
        if t[0] == "tyvar":
            return t[1]
        if t[0] == "enum":
            return "Z"
        if t[0] == "sval":
            fs = [gatom(gty(ft)) for _, ft in t[2]]
            return fs[0] if len(fs) == 1 else "(" + " * ".join(fs) + ")"
        if t[0] == "result2":
            return "(%s + %s)" % (gatom(gty(t[1])), gatom(gty(t[2])))
    unsupported("no Gallina type for %r" % (t,))


def gatom(t):
    return t if re.match(r"^\w+$", t) or (t.startswith("(") and t.endswith(")") and t.count("(") == 1) else "(%s)" % t


def ty_eq(a, b):
    if is_int(a) and is_int(b):
        return a[1] == b[1] and a[2] == b[2]          # usize = u64, isize = i64 as far as values go
    if isinstance(a, tuple) and isinstance(b, tuple) and a[0] == b[0] and a[0] in ("opt", "list", "result"):
        return ty_eq(a[1], b[1])
    if isinstance(a, tuple) and isinstance(b, tuple) and a[0] == b[0] == "sval":
        return a[1] == b[1]
    if isinstance(a, tuple) and isinstance(b, tuple) and a[0] == b[0] == "result2":
        return ty_eq(a[1], b[1]) and ty_eq(a[2], b[2])
    if isinstance(a, tuple) and isinstance(b, tuple) and a[0] == b[0] == "tuple":
        return len(a[1]) == len(b[1]) and all(ty_eq(x, y) for x, y in zip(a[1], b[1]))
    return a == b


GALLINA_RESERVED = set("""
as at cofix else end exists exists2 fix for forall fun if IF in let match mod Prop return Set then Type using
where with by struct
Val Fault rbind res fault Overflow DivByZero OutOfBounds OutOfFuel ExplicitPanic mk_error ekind emsg rerror rresult
ResOk ResErr format rvalue RNumber ROther in_u in_s chk_u chk_s u_add u_sub u_mul u_div u_rem s_add s_sub s_mul s_neg
s_div s_rem u_shl u_shr wrap_s u_checked_shl u_checked_shr s_checked_shl s_checked_shr unwrap_or_default_Z
f_is_sign_negative f64_lit byte_Z list_len list_index str_is_char_boundary str_eqb step Continue Break Return loop
for_in f64 fadd fsub fmul fdiv fneg fabs feqb fltb fgtb fleb fgeb frem ftrunc cast_int to_i64 to_isize to_u32 to_u8
to_usize to_u64 f64_of_Z f64_of_bits bits_of_f64 f64_zero round_ratio negb andb orb xorb fst snd pair Some None
option list nat bool true false tt unit Z N byte string inl inr Empty_set fuel O S
xvalue XNone XBoolean XNumber XObjString XObjRange XObjVec XOther new_obj_string x_try_as_obj_string x_try_as_number
x_try_as_obj_vec x_try_into_bool stack_fx FxPop FxPoke FxPush show_int z_range str_is_empty str_slice_z str_chars char_is_ascii_alphabetic
char_is_ascii_digit char_is_ascii_hexdigit str_lit str_starts_with str_ends_with str_replace enum_index forallb map
length rev firstn skipn seq enumerate_z list_pop combine
""".split())


def mangle(name):
    n = name
    while n in GALLINA_RESERVED:
        n += "_"
    return n


def coq_string(s):
    for ch in s:
        if ord(ch) < 32 or ord(ch) > 126:
            unsupported("non-printable character in a string literal")
    return '"' + s.replace('"', '""') + '"%string'


def canonical_order(x, y):
    """operands of a TOTAL commutative operator (& | ^ wrapping_add wrapping_mul; both operands are pure terms,
    already evaluated) are emitted smaller-term-first, so that `a ^ f(a)` and `f(a) ^ a` give the same text.
    The size is the number of identifiers/numerals, hence independent of how variables are named; ties keep
    the source order."""
    def size(t):
        return len(re.findall(r"[A-Za-z_0-9.']+", t))
    return (y, x) if size(y) < size(x) else (x, y)


def str_literal(txt):
    """a Rust string literal used as a `&str` VALUE: bytes"""
    if txt == "":
        return "(str_lit \"\"%string)"
    if all(32 <= ord(ch) <= 126 for ch in txt):
        return "(str_lit %s)" % coq_string(txt)
    bs = txt.encode("utf-8")
    return "[" + "; ".join('"%03d"%%byte' % b for b in bs) + "]"


def zlit(v):
    return str(v) if v >= 0 else "(%d)" % v


# =========================================================================================
# 4. monadic IR and printer
# =========================================================================================
# M ::= ('ret', term) | ('let', pat, term, M) | ('bind', pat, M, M) | ('if', term, M, M)
#     | ('match', term, [(pat, M)]) | ('prim', text) | ('fail', fault_text) | ('absurd', term)
#     | ('loop', pat, bodyM, init_term, Rty|None) | ('forin', list_term, xpat, pat, bodyM, init_term, Rty|None)

def m_pure(m):
    k = m[0]
    if k in ("ret", "absurd"):
        return True
    if k in ("prim", "fail", "loop", "forin"):
        return False
    if k == "let":
        return m_pure(m[3])
    if k == "bind":
        return m_pure(m[2]) and m_pure(m[3])
    if k == "if":
        return m_pure(m[2]) and m_pure(m[3])
    if k == "match":
        return all(m_pure(b) for _, b in m[2])
    raise AssertionError(k)


def fun_pat(pat):
    """binder text for `fun <pat> =>`"""
    return "'" + pat if pat.startswith("(") else pat


def let_pat(pat):
    return "'" + pat if pat.startswith("(") else pat


def atom(t):
    """t as an argument of an application"""
    if re.match(r"^[\w'.]+$", t):
        return t
    if t.startswith("(") and t.endswith(")"):
        depth = 0
        for i, ch in enumerate(t):
            if ch == "(":
                depth += 1
            elif ch == ")":
                depth -= 1
                if depth == 0 and i != len(t) - 1:
                    break
        else:
            return t
    return "(%s)" % t


def m_print(m, monadic, ind):
    """Gallina text of M; in monadic mode the result has type `res _`"""
    sp = "  " * ind
    k = m[0]
    if k == "bind" and m[3] == ("ret", m[1]):
        return m_print(m[2], monadic, ind)            # m >>= return  =  m
    if k == "let" and m[3] == ("ret", m[1]):
        return ("Val %s" % atom(m[2])) if monadic else m[2]
    if k == "ret":
        return ("Val %s" % atom(m[1])) if monadic else m[1]
    if k == "absurd":
        return "match %s with end" % m[1]
    if k == "prim":
        assert monadic
        return m[1]
    if k == "fail":
        assert monadic
        return "Fault %s" % m[1]
    if k == "let":
        return "let %s := %s in\n%s%s" % (let_pat(m[1]), m[2], sp, m_print(m[3], monadic, ind))
    if k == "bind":
        if m_pure(m[2]):
            inner = m_print(m[2], False, ind + 1)
            return "let %s :=\n%s  %s in\n%s%s" % (let_pat(m[1]), sp, inner, sp, m_print(m[3], monadic, ind)) \
                if "\n" in inner else \
                "let %s := %s in\n%s%s" % (let_pat(m[1]), inner, sp, m_print(m[3], monadic, ind))
        assert monadic
        return "rbind (%s) (fun %s =>\n%s%s)" % (m_print(m[2], True, ind + 1), fun_pat(m[1]), sp,
                                                  m_print(m[3], True, ind))
    if k == "if":
        return "if %s\n%s  then (%s)\n%s  else (%s)" % (m[1], sp, m_print(m[2], monadic, ind + 2), sp,
                                                      m_print(m[3], monadic, ind + 2))
    if k == "match":
        arms = "".join("\n%s  | %s => %s" % (sp, p, m_print(b, monadic, ind + 2)) for p, b in m[2])
        return "match %s with%s\n%s  end" % (m[1], arms, sp)
    if k == "loop":
        assert monadic
        _, pat, body, init, rty = m
        return "loop (R:=%s) fuel (fun %s =>\n%s    %s)\n%s  %s" % (
            rty or "Empty_set", fun_pat(pat), sp, m_print(body, True, ind + 2), sp, init)
    if k == "forin":
        assert monadic
        _, lst, xpat, pat, body, init, rty = m
        return "for_in (R:=%s) %s (fun %s %s =>\n%s    %s)\n%s  %s" % (
            rty or "Empty_set", lst, xpat, fun_pat(pat), sp, m_print(body, True, ind + 2), sp, init)
    raise AssertionError(k)


# =========================================================================================
# 5. the translation
# =========================================================================================

class V:
    """value of an expression: a pure Gallina term with its type, or a PLACE (struct-typed path)"""
    __slots__ = ("term", "ty", "path", "root_ast", "shown")

    def __init__(self, term, ty, path=None, shown=None):
        self.term, self.ty, self.path, self.shown = term, ty, path, shown


class Ctl:
    def __init__(self, ret, ret_packed, brk=None, cont=None):
        self.ret, self.ret_packed, self.brk, self.cont = ret, ret_packed, brk, cont


class FnOut:
    """a translated function"""
    def __init__(self):
        self.name = None
        self.params = []        # [(gname, gallina type, origin)]
        self.ret_ty = None      # type of the Rust result
        self.mutated = []       # [(path tuple, ty)] self leaves written, in struct order
        self.pure = True
        self.body = None
        self.tyvars = []
        self.cfgs = []          # texts of the cfg!(..) conditions, in parameter order
        self.decl = None
        self.note = ""
        self.whole = True
        self.param_tys = []

    def result_types(self):
        ts = ([] if self.ret_ty == "unit" else [self.ret_ty]) + [t for _, t in self.mutated]
        return ts

    def result_gty(self):
        ts = self.result_types()
        if not ts:
            return "unit"
        if len(ts) == 1:
            return gty(ts[0])
        return "(" + " * ".join(gatom(gty(t)) for t in ts) + ")"

    def text(self):
        binders = "".join(" {%s : Type}" % v for v in self.tyvars)
        binders += "".join(" (%s : %s)" % (g, t) for g, t, _ in self.params)
        rt = self.result_gty()
        if not self.pure:
            rt = "res %s" % gatom(rt)
        return "Definition %s%s : %s :=\n  %s." % (self.name, binders, rt, self.body)


ABRUPT = ("return", "break", "continue", "try")


def ast_children(e):
    if isinstance(e, tuple):
        for x in e:
            if isinstance(x, (tuple, list)):
                yield x
    elif isinstance(e, list):
        for x in e:
            if isinstance(x, (tuple, list)):
                yield x


def ast_any(e, pred):
    if isinstance(e, tuple) and e and isinstance(e[0], str) and pred(e):
        return True
    return any(ast_any(c, pred) for c in ast_children(e))


def is_abrupt(e):
    return ast_any(e, lambda n: n[0] in ABRUPT or (n[0] == "macro" and n[1] in ("panic", "unreachable", "todo",
                                                                                 "unimplemented")))


def has_return(e):
    return ast_any(e, lambda n: n[0] in ("return", "try"))


class Unit:
    """a group of translated functions that end up in one generated file"""
    def __init__(self, src):
        self.src = src
        self.consts = []          # [(name, gallina type, term)]
        self.const_names = {}
        self.fns = {}             # (impl, fn) -> FnOut   (whole-function translations only)
        self.by_name = {}

    def enum_const(self, ename, vname):
        """`Enum::Variant` as its discriminant (declaration order), through a named constant"""
        key = "%s::%s" % (ename, vname)
        if key not in self.const_names:
            names = self.src.enums()[ename]
            lst = "%s_variants" % ename
            if lst not in self.const_names:
                self.consts.append((lst, "list string", "[%s]" % "; ".join(coq_string(n) for n in names)))
                self.const_names[lst] = V(lst, "msglist")
            g = mangle("%s_%s" % (ename, vname))
            self.consts.append((g, "Z", "enum_index %s %s 0" % (lst, coq_string(vname))))
            self.const_names[key] = V(g, ("enum", ename))
        return self.const_names[key]

    def const_eval(self, e, files):
        """value of an integer constant expression (literals, T::MAX/MIN, other consts, + - * /, widening `as`)"""
        k = e[0]
        if k == "paren":
            return self.const_eval(e[1], files)
        if k == "lit_int":
            return e[1]
        if k == "cast":
            v = self.const_eval(e[1], files)
            t = e[2]
            if v is None or t[0] != "tpath" or t[1] not in INT_TYPES:
                return None
            lo, hi = int_range(T_int(t[1]))
            return v if lo <= v <= hi else None
        if k == "path":
            segs = e[1]
            if len(segs) == 2 and segs[0] in INT_TYPES and segs[1] in ("MAX", "MIN"):
                lo, hi = int_range(T_int(segs[0]))
                return hi if segs[1] == "MAX" else lo
            hit = self.src.find_const(files, segs[-1])
            if hit is None:
                return None
            f2, _, lo, hi = hit
            p2 = Parser(self.src.toks(f2), lo, hi)
            return self.const_eval(p2.parse_expr(), files)
        if k == "binary" and e[1] in ("+", "-", "*"):
            a, b = self.const_eval(e[2], files), self.const_eval(e[3], files)
            if a is None or b is None:
                return None
            return a + b if e[1] == "+" else a - b if e[1] == "-" else a * b
        return None

    def const(self, files, name):
        if name in self.const_names:
            return self.const_names[name]
        hit = self.src.find_const(files, name)
        if hit is None:
            return None
        f, tast, lo, hi = hit
        cx = Cx(self, None, {}, const_file=f)
        ty = cx.resolve(tast)
        p = Parser(self.src.toks(f), lo, hi)
        e = p.parse_expr()
        if not p.done():
            unsupported("const %s: trailing tokens" % name)
        out = []
        m = cx.tr_expr(e, {}, ty, None, lambda v, env: ("ret", cx.coerce(v, ty).term))
        if not m_pure(m):
            # an integer constant expression with checked operators: folded here (rustc evaluates it at compile
            # time and rejects an overflow)
            val = self.const_eval(e, [f, "common.rs"]) if is_int(ty) else None
            if val is None:
                unsupported("const %s is not a pure expression" % name)
            lo, hi = int_range(ty)
            if not lo <= val <= hi:
                unsupported("const %s overflows its type" % name)
            m = ("ret", zlit(val))
        v = V(mangle(name), ty)
        self.consts.append((mangle(name), gty(ty), m_print(m, False, 1)))
        self.const_names[name] = v
        return v


class Cx:
    """translation of ONE function (or fragment)"""

    def __init__(self, unit, decl, cfg, const_file=None):
        self.unit = unit
        self.src = unit.src
        self.decl = decl
        self.cfg = cfg
        self.overrides = dict(cfg.get("types", {}))
        self.param_over = dict(cfg.get("params", {}))
        self.abstract = dict(cfg.get("abstract", {}))
        self.params = {}            # key -> (gname, ty, sortkey, origin)
        self.extra_n = 0
        self.tmp_n = 0
        self.regions = []           # active join / loop regions: (outer_names, state_keys)
        self.fuel = False
        self.tyvars = []
        self.free_lets = {}         # fragment mode: top-level lets of the fn body by name
        self.file = decl.file if decl is not None else const_file
        self.idents = set()
        if decl is not None:
            self.idents = {t.text for t in decl.toks[decl.body[0]:decl.body[1]] if t.kind == "id"}
        self.param_index = {}
        self.self_struct = decl.impl if decl is not None else None

    # ----- types
    def resolve(self, t):
        k = t[0]
        if k == "tref":
            return self.resolve(t[1])
        if k == "tptr":
            return "ptr"
        if k == "tunit":
            return "unit"
        if k == "ttuple":
            return ("tuple", [self.resolve(x) for x in t[1]])
        if k in ("tslice", "tarray"):
            if t[1] == ("tpath", "u8", []):
                return ("list", "byte")
            return ("list", self.resolve(t[1]))
        if k == "topaque":
            unsupported("opaque field type")
        if k == "tconst":
            unsupported("const generic argument in a value type")
        name, args = t[1], t[2]
        if name in self.overrides:
            o = self.overrides[name]
            if o in ("str", "msg", "rvalue", "objstring", "xvalue"):
                return o
            if len(o) == 1 and o.isupper():
                if o not in self.tyvars:
                    self.tyvars.append(o)
                return ("tyvar", o)
            unsupported("bad type override %r" % o)
        if name in INT_TYPES:
            return T_int(name)
        if name in ("f64", "bool", "char"):
            return name
        if name in ("str", "String"):
            return "str"
        if name == "Self":
            if self.self_struct is None:
                unsupported("Self outside an impl")
            return self.resolve(("tpath", self.self_struct, []))
        if name in ("Gc", "Root", "RefCell", "Box", "Ref", "RefMut", "Cell", "Pin", "Rc"):
            if len(args) != 1:
                unsupported("wrapper %s without argument" % name)
            return self.resolve(args[0])
        if name == "Vec":
            if args and args[0] == ("tpath", "u8", []):
                return ("list", "byte")
            try:
                return ("list", self.as_value_type(self.resolve(args[0])))
            except Unsupported:
                # a Vec of something that is not modelled: only its length can be looked at
                a0 = args[0]
                if a0[0] == "tpath" and re.match(r"^[A-Z]\w*$", a0[1]):
                    tv = "T_" + a0[1]
                    if tv not in self.tyvars:
                        self.tyvars.append(tv)
                    return ("list", ("tyvar", tv))
                raise
        if name == "Option":
            return ("opt", self.as_value_type(self.resolve(args[0])))
        if name == "Result":
            if len(args) == 2 and args[1][0] == "tpath" and args[1][1] == "Error":
                return ("result", self.resolve(args[0]))
            if len(args) == 2 and args[1][0] == "tpath" and args[1][1] in self.src.enums():
                return ("result2", self.resolve(args[0]), ("enum", args[1][1]))
            unsupported("Result with an error type other than Error")
        if name == "Error":
            return "error"
        if name == "Value":
            return "rvalue"
        if name == "ObjString":
            return "objstring"
        st = self.src.structs()
        if name in st:
            return ("struct", name)
        if name in self.src.enums():
            return ("enum", name)
        unsupported("type `%s`" % name)

    def as_value_type(self, t):
        """a struct stored in a Vec / Option is a VALUE: the tuple of its fields (declaration order)"""
        if isinstance(t, tuple) and t[0] == "struct":
            fields = self.src.structs().get(t[1])
            if not fields:
                unsupported("struct `%s` has no readable declaration" % t[1])
            fs = []
            for n, ft in fields:
                rt = self.resolve(ft)
                if isinstance(rt, tuple) and rt[0] == "struct":
                    unsupported("struct `%s` nests the struct `%s`" % (t[1], rt[1]))
                fs.append((n, rt))
            return ("sval", t[1], fs)
        return t

    @staticmethod
    def proj(term, i, n):
        t = term
        for _ in range(n - 1 - i):
            t = "(fst %s)" % t
        if i > 0 and n > 1:
            t = "(snd %s)" % t
        return t

    def path_type(self, p, env):
        """resolved type of the place p (tuple of segments), None if unknown"""
        try:
            root = p[0]
            if root not in env:
                return None
            b = env[root]
            if b[0] == "place":
                sname = b[2]
                ty = ("struct", sname)
                for f in p[1:]:
                    if not (isinstance(ty, tuple) and ty[0] == "struct"):
                        return None
                    _, t = self.field_index(ty[1], f)
                    ty = self.resolve(t)
                return ty
            if len(p) == 1 and b[0] in ("val", "param"):
                return b[2]
        except Unsupported:
            return None
        return None

    def stack_effect(self, n):
        st = self.cfg.get("stack")
        return bool(st) and n[0] == "mcall" and n[1] == ("path", [st], None) and n[2] in ("pop", "poke", "push")

    def mutated_place(self, n, env):
        """`x.push(v)` / `x.pop()` on a Vec-typed place: the path, else None"""
        if n[0] == "mcall" and n[2] in ("push", "pop"):
            p = self.static_path(n[1])
            if p is not None:
                ty = self.path_type(p, env)
                if isinstance(ty, tuple) and ty[0] == "list":
                    return p
        return None

    # ----- names
    def tmp(self, hint=None):
        if hint:
            return hint
        while True:
            self.tmp_n += 1
            n = "t%d" % self.tmp_n
            if n not in self.idents and n not in GALLINA_RESERVED:
                return n

    def reg_param(self, key, gname, ty, sortkey, origin):
        if key not in self.params:
            for k2, (g2, _, _, _) in self.params.items():
                if g2 == gname:
                    unsupported("parameter name clash on `%s`" % gname)
            self.params[key] = (gname, ty, sortkey, origin)
        return self.params[key][0]

    def need_fuel(self):
        self.fuel = True
        self.reg_param("#fuel", "fuel", "nat", (0,), ("fuel",))

    def field_index(self, sname, fname):
        fields = self.src.structs().get(sname)
        if fields is None:
            unsupported("struct `%s` has no readable declaration" % sname)
        for i, (n, t) in enumerate(fields):
            if n == fname:
                return i, t
        unsupported("struct `%s` has no field `%s`" % (sname, fname))

    def path_sortkey(self, path):
        """path = (root, f1, f2..): sort key from declaration order"""
        if len(path) == 2 and path[1] == "#fx":
            return (3, 9999)
        root = path[0]
        if root == "self":
            key = [3]
            sname = self.self_struct
        else:
            key = [4, self.param_index[root]]
            sname = self.param_struct.get(root)
        for f in path[1:]:
            i, t = self.field_index(sname, f)
            key.append(i)
            rt = self.resolve(t)
            sname = rt[1] if isinstance(rt, tuple) and rt[0] == "struct" else None
        return tuple(key)

    def leaf(self, path, ty):
        key = ".".join(path)
        g = "_".join(mangle(p) if i == 0 else p for i, p in enumerate(path))
        if len(path) == 1:
            g = mangle(path[0])
        if len(path) == 2 and path[1] == "#fx":
            g = mangle(path[0]) + "_fx"
        return self.reg_param(key, g, ty, self.path_sortkey(path) + (0,), ("leaf",) + tuple(path))

    def shown(self, path):
        """the Display rendering of a Value-typed input, as an extra string parameter"""
        key = ".".join(path) + "#shown"
        g = "_".join(path) + "_shown"
        return self.reg_param(key, g, "msg", self.path_sortkey(path) + (1,), ("shown",) + tuple(path))

    # ----- entry points
    def setup_params(self):
        d = self.decl
        self.param_struct = {}
        env = {}
        if d.self_kind is not None:
            st = self.resolve(("tpath", d.impl, []))
            if isinstance(st, tuple) and st[0] == "struct":
                env["self"] = ("place", ("self",), st[1])
            else:
                self.leaf(("self",), st)
                env["self"] = ("val", mangle("self"), st, ("self",))
        for i, (pat, tast) in enumerate(d.params):
            if pat[0] != "p_id":
                unsupported("parameter pattern")
            name = pat[1]
            self.param_index[name] = i
            if name in self.param_over:
                ty = self.param_over[name]
            else:
                try:
                    ty = self.resolve(tast)
                except Unsupported as ex:
                    env[name] = ("badparam", name, str(ex))
                    continue
            if isinstance(ty, tuple) and ty[0] == "struct":
                self.param_struct[name] = ty[1]
                env[name] = ("place", (name,), ty[1])
            else:
                env[name] = ("param", name, ty)      # registered when first used
        return env

    def use_param(self, name, ty):
        return self.leaf((name,), ty)

    def finish(self, name, m, ret_ty, mutated):
        out = FnOut()
        out.name = name
        out.decl = self.decl
        out.ret_ty = ret_ty
        out.mutated = mutated
        out.pure = m_pure(m)
        out.body = m_print(m, not out.pure, 1)
        ps = sorted(self.params.values(), key=lambda p: p[2])
        out.params = [(g, t if t == "nat" else gty(t), o) for g, t, _, o in ps]
        out.param_tys = [t for _, t, _, _ in ps]
        out.tyvars = list(self.tyvars)
        out.cfgs = [o[1] for _, _, _, o in ps if o[0] == "cfg"]
        return out

    def mutated_self_paths(self, stmts_ast):
        """self leaves assigned in the AST (directly, or through a translated callee)"""
        found = []

        def visit(n):
            if isinstance(n, tuple) and n and isinstance(n[0], str):
                if n[0] == "assign":
                    p = self.static_path(n[2])
                    if p is not None and p[0] == "self" and p not in found:
                        found.append(p)
                mp = self.mutated_place(n, self.scan_env)
                if mp is not None and mp[0] == "self" and mp not in found:
                    found.append(mp)
                if self.stack_effect(n) and (self.cfg["stack"], "#fx") not in found:
                    found.append((self.cfg["stack"], "#fx"))
                if n[0] == "mcall" and n[1] == ("path", ["self"], None):
                    cal = self.unit.fns.get((self.decl.impl, n[2]))
                    if cal is not None:
                        for p, _ in cal.mutated:
                            if p not in found:
                                found.append(p)
            for c in ast_children(n):
                visit(c)
        visit(stmts_ast)
        res = []
        for p in found:
            if len(p) == 2 and p[1] == "#fx":
                res.append((p, ("list", "fx")))
                continue
            sname = self.self_struct
            ty = None
            for f in p[1:]:
                _, t = self.field_index(sname, f)
                ty = self.resolve(t)
                sname = ty[1] if isinstance(ty, tuple) and ty[0] == "struct" else None
            if ty is None or (isinstance(ty, tuple) and ty[0] == "struct"):
                unsupported("assignment to a whole struct")
            res.append((p, ty))
        res.sort(key=lambda x: self.path_sortkey(x[0]))
        return res

    @staticmethod
    def static_path(e):
        """`self.a.b` / `x` as a tuple of segments, None if the expression is not a plain place"""
        segs = []
        while True:
            if e[0] == "field":
                segs.append(e[2])
                e = e[1]
            elif e[0] == "paren":
                e = e[1]
            elif e[0] == "unary" and e[1] in ("*", "&"):
                e = e[2]
            elif e[0] == "mcall" and e[2] in ("borrow", "borrow_mut") and not e[3]:
                e = e[1]
            elif e[0] == "path" and len(e[1]) == 1:
                segs.append(e[1][0])
                return tuple(reversed(segs))
            else:
                return None

    def translate_whole(self, name):
        d = self.decl
        env = self.setup_params()
        p = Parser(d.toks, d.body[0], d.body[1] + 1)
        block = p.parse_block()
        ret_ty = self.resolve(d.ret) if d.ret is not None else "unit"
        if isinstance(ret_ty, tuple) and ret_ty[0] == "struct":
            ret_ty = self.struct_value_type(ret_ty[1])
        return self.translate_body(name, block, env, ret_ty)

    def struct_value_type(self, sname):
        """a struct RESULT is the tuple of its fields of a modelled type, in declaration order"""
        fields = self.src.structs().get(sname)
        if fields is None:
            unsupported("struct `%s` has no readable declaration" % sname)
        kept = []
        for n, t in fields:
            try:
                ty = self.resolve(t)
            except Unsupported:
                continue
            if isinstance(ty, tuple) and ty[0] == "struct":
                continue
            kept.append((n, ty))
        if not kept:
            unsupported("struct `%s` has no field of a modelled type" % sname)
        self.struct_kept = {sname: kept}
        return kept[0][1] if len(kept) == 1 else ("tuple", [t for _, t in kept])

    def translate_body(self, name, block, env, ret_ty):
        self.scan_env = env
        mutated = self.mutated_self_paths(block) if (self.decl.self_kind == "mut") else []
        if self.decl.self_kind != "mut" and self.decl.self_kind is not None:
            if self.mutated_self_paths(block):
                unsupported("assignment through &self")
        self.fn_ret_ty = ret_ty
        self.fn_mutated = mutated
        for p, t in mutated:
            self.leaf(p, t)
        ctl = Ctl(ret=lambda v, env2: ("ret", self.pack(v)), ret_packed=lambda term: ("ret", term))
        m = self.tr_block(block, env, ret_ty, ctl, lambda v, env2: ("ret", self.pack(self.coerce(v, ret_ty))), top=True)
        return self.finish(name, m, ret_ty, mutated)

    def pack(self, v):
        items = []
        if self.fn_ret_ty != "unit":
            if v is None or v.term is None:
                unsupported("a value of the result type is required here")
            items.append(v.term)
        for p, t in self.fn_mutated:
            items.append(self.params[".".join(p)][0])
        if not items:
            return "tt"
        if len(items) == 1:
            return items[0]
        return "(" + ", ".join(items) + ")"

    def pack_gty(self):
        ts = ([] if self.fn_ret_ty == "unit" else [self.fn_ret_ty]) + [t for _, t in self.fn_mutated]
        if not ts:
            return "unit"
        if len(ts) == 1:
            return gty(ts[0])
        return "(" + " * ".join(gatom(gty(t)) for t in ts) + ")"

    # ----- coercions
    def coerce(self, v, ty):
        """checks that v fits the expected type ty (None / never are accepted)"""
        if ty is None or v is None:
            return v
        if v.ty == "never":
            return v
        if v.term is None:
            unsupported("a struct value is used where a %s is expected" % (ty,))
        if isinstance(v.ty, tuple) and v.ty[0] == "intq" and is_int(ty):
            raise ResolveInt(v.ty[1], ty)
        if not ty_eq(v.ty, ty):
            unsupported("type mismatch: found %r, expected %r" % (v.ty, ty))
        return v

    # ----- blocks and statements
    def tr_block(self, block, env, expect, ctl, k, top=False):
        assert block[0] == "block"
        stmts, tail = block[1], block[2]
        outer = env
        renames = {}
        if not top:
            for st in stmts:
                if st[0] == "let":
                    for n in pat_names(st[1]):
                        if n in outer:
                            # an immutable `let x` may shadow an outer x: it gets a fresh Gallina name (the text that
                            # follows the block is emitted inside its scope and must still see the outer x)
                            if st[1][0] == "p_id" and not st[1][2] and n not in renames:
                                j = 1
                                while "%s_%d" % (mangle(n), j) in self.idents:
                                    j += 1
                                renames[n] = "%s_%d" % (mangle(n), j)
                                self.idents.add(renames[n])
                            else:
                                unsupported("a `let` in an inner block shadows the outer variable `%s`" % n)

        def go(i, env1):
            if i == len(stmts):
                if tail is not None:
                    return self.tr_expr(tail, env1, expect, ctl, lambda v, env2: k(v, outer if not top else env2))
                return k(V("tt", "unit"), outer if not top else env1)
            st = stmts[i]
            if st[0] == "let":
                _, pat, tast, init, line = st
                if init is None:
                    unsupported("`let` without initialiser (line %d)" % line)
                want = self.resolve(tast) if tast is not None else None
                hint = mangle(pat[1]) if pat[0] == "p_id" else None
                if pat[0] == "p_id" and pat[1] in renames:
                    hint = renames[pat[1]]
                if pat[0] == "p_id" and tast is None and self.is_bare_literal(init) and init[0] == "lit_int":
                    # the type of the literal is fixed by the first typed use of the variable (Rust infers it);
                    # i32 if nothing fixes it
                    self.intq_n = getattr(self, "intq_n", 0) + 1
                    ident = self.intq_n
                    snap = (dict(self.params), self.tmp_n, self.extra_n, len(self.regions), list(self.tyvars),
                            self.fuel)

                    def attempt(ty):
                        self.params, self.tmp_n, self.extra_n = dict(snap[0]), snap[1], snap[2]
                        del self.regions[snap[3]:]
                        self.tyvars, self.fuel = list(snap[4]), snap[5]
                        lo, hi = (0, 0) if ty[0] == "intq" else int_range(ty)
                        if not lo <= init[1] <= hi:
                            unsupported("literal %d out of range for %s" % (init[1], ty[3]))
                        lets, env3 = self.bind_pat(pat, V(zlit(init[1]), ty), env1, rename=renames.get(pat[1]))
                        m = go(i + 1, env3)
                        for lp, lt in reversed(lets):
                            m = ("let", lp, lt, m)
                        return m
                    try:
                        return attempt(("intq", ident))
                    except ResolveInt as rx:
                        if rx.ident != ident:
                            raise
                        return attempt(rx.ty)
                    except Unsupported:
                        return attempt(T_I32)

                def after(v, env2):
                    v = self.coerce(v, want)
                    lets, env3 = self.bind_pat(pat, v, env2, rename=renames.get(pat[1]) if pat[0] == "p_id" else None)
                    m = go(i + 1, env3)
                    for lp, lt in reversed(lets):
                        m = ("let", lp, lt, m)
                    return m
                return self.tr_expr(init, env1, want, ctl, after, hint=hint)
            if st[0] == "expr":
                return self.tr_expr(st[1], env1, None, ctl, lambda v, env2: go(i + 1, env2))
            unsupported("statement %s" % st[0])
        return go(0, env)

    def bind_pat(self, pat, v, env, rename=None):
        """irrefutable pattern: returns ([(gallina pattern, term)], env')"""
        k = pat[0]
        if k == "p_ref":
            return self.bind_pat(pat[1], v, env, rename)
        if k == "p_wild":
            return [], env
        if k == "p_id":
            env2 = dict(env)
            if v.term is None:
                env2[pat[1]] = ("place", v.path, v.ty[1])
                return [], env2
            g = rename or mangle(pat[1])
            if g in [p[0] for p in self.params.values()] and v.term != g:
                unsupported("local `%s` has the name of a generated parameter" % g)
            env2[pat[1]] = ("val", g, v.ty, None)
            return ([] if v.term == g else [(g, v.term)]), env2
        if k == "p_tuple":
            if not (isinstance(v.ty, tuple) and v.ty[0] == "tuple" and len(v.ty[1]) == len(pat[1])):
                unsupported("tuple pattern against %r" % (v.ty,))
            env2 = dict(env)
            names = []
            for sub, t in zip(pat[1], v.ty[1]):
                if sub[0] == "p_ref":
                    sub = sub[1]
                if sub[0] == "p_wild":
                    names.append("_")
                elif sub[0] == "p_id":
                    g = mangle(sub[1])
                    names.append(g)
                    env2[sub[1]] = ("val", g, t, None)
                else:
                    unsupported("nested pattern in `let`")
            return [("(" + ", ".join(names) + ")", v.term)], env2
        unsupported("refutable pattern in `let`")

    # ----- variables and places
    def lookup(self, name, env):
        if name in env:
            b = env[name]
            if b[0] == "place":
                return V(None, ("struct", b[2]), b[1])
            if b[0] == "param":
                g = self.use_param(b[1], b[2])
                v = V(g, b[2])
                v.path = (b[1],)
                return v
            if b[0] == "badparam":
                unsupported("parameter `%s`: %s" % (b[1], b[2]))
            if b[0] == "xelem":
                return V("(fst %s)" % b[1], "xvalue", shown="(snd %s)" % b[1])
            v = V(b[1], b[2])
            v.path = b[3] if len(b) > 3 else None
            return v
        if self.decl is not None:
            for n, tast in self.decl.const_generics:
                if n == name:
                    ty = self.resolve(tast)
                    g = self.reg_param("#const." + n, mangle(n), ty, (2, n), ("constgen", n))
                    return V(g, ty)
        if name in self.free_lets:
            ty = self.free_lets[name]
            self.extra_n += 1
            g = self.reg_param("#extra." + name, mangle(name), ty, (5, self.extra_n), ("extra", name, ty))
            return V(g, ty)
        c = self.unit.const([self.file, "common.rs"], name)
        if c is not None:
            return c
        unsupported("unknown identifier `%s`" % name)

    def field_of(self, base, fname):
        if base.term is None:
            sname = base.ty[1]
            _, tast = self.field_index(sname, fname)
            ty = self.resolve(tast)
            path = base.path + (fname,)
            if isinstance(ty, tuple) and ty[0] == "struct":
                return V(None, ty, path)
            key = ".".join(path)
            if key in self.abstract:
                unsupported("abstract field")
            g = self.leaf(path, ty)
            v = V(g, ty)
            v.path = path
            return v
        if isinstance(base.ty, tuple) and base.ty[0] == "sval":
            fs = base.ty[2]
            for i, (n, ft) in enumerate(fs):
                if n == fname:
                    return V(self.proj(base.term, i, len(fs)), ft)
            unsupported("struct `%s` has no field `%s`" % (base.ty[1], fname))
        if base.ty == "objstring":
            if fname == "hash":
                return V("(fst %s)" % base.term, T_int("u64"))
            unsupported("field `%s` of an ObjString" % fname)
        unsupported("field `%s` of a value of type %r" % (fname, base.ty))

    def state_names(self, keys, env):
        """gallina names and types of the state variables `keys` (locals by name, leaves by dotted path)"""
        res = []
        for kx in keys:
            if "." in kx or kx not in env:
                g, ty, _, _ = self.params[kx]
                res.append((g, ty))
            else:
                b = env[kx]
                if b[0] == "param":
                    res.append((self.use_param(b[1], b[2]), b[2]))
                elif b[0] == "val":
                    res.append((b[1], b[2]))
                else:
                    unsupported("a struct place is reassigned")
        return res

    def assigned_keys(self, ast, env):
        """state keys (outer locals / leaves) assigned somewhere in ast"""
        found = []

        def add(kx):
            if kx not in found:
                found.append(kx)

        def visit(n):
            if isinstance(n, tuple) and n and isinstance(n[0], str):
                if n[0] == "assign":
                    p = self.static_path(n[2])
                    if p is None:
                        unsupported("assignment to a computed place")
                    kx = self.assign_key(p, env, lenient=True)
                    if kx is not None:
                        add(kx)
                mp = self.mutated_place(n, env)
                if mp is not None:
                    kx = self.assign_key(mp, env, lenient=True)
                    if kx is not None:
                        add(kx)
                if self.stack_effect(n):
                    add(self.cfg["stack"] + ".#fx")
                if n[0] == "mcall" and n[1] == ("path", ["self"], None) and self.decl is not None:
                    cal = self.unit.fns.get((self.decl.impl, n[2]))
                    if cal is not None:
                        for p, _ in cal.mutated:
                            add(".".join(p))
            for c in ast_children(n):
                visit(c)
        visit(ast)
        return sorted(found)

    def assign_key(self, p, env, lenient=False):
        """key of the assigned place p (tuple of segments): local name or dotted leaf path"""
        root = p[0]
        if root in env and env[root][0] == "place":
            full = env[root][1] + p[1:]
            return ".".join(full)
        if len(p) == 1:
            if root in env:
                return root
            if lenient:
                return None           # declared inside the region being scanned
            unsupported("assignment to unknown variable `%s`" % root)
        if lenient and root not in env:
            return None
        unsupported("assignment to a field of the value `%s`" % root)

    def check_captured(self, key, env):
        for outer_names, state_keys in self.regions:
            is_outer = ("." in key) or (key in outer_names)
            if is_outer and key not in state_keys:
                unsupported("assignment to `%s` is not captured by the enclosing branch/loop state" % key)

    # ----- expressions (continuation-passing: k(value, env) -> M)
    def tr_expr(self, e, env, expect, ctl, k, hint=None):
        kind = e[0]
        if kind == "paren":
            return self.tr_expr(e[1], env, expect, ctl, k, hint)
        if kind == "lit_int":
            return k(self.int_lit(e[1], e[2], expect), env)
        if kind == "lit_float":
            fr = Fraction(re.sub(r"_?(f32|f64)$", "", e[1]).replace("_", ""))
            if fr == 0:
                return k(V("f64_zero", "f64"), env)
            return k(V("(f64_lit %d %d)" % (fr.numerator, fr.denominator), "f64"), env)
        if kind == "lit_bool":
            return k(V("true" if e[1] else "false", "bool"), env)
        if kind == "lit_str":
            if expect == "str":
                return k(V(str_literal(e[1]), "str"), env)
            return k(V(coq_string(e[1]), "msg"), env)
        if kind == "lit_char":
            return k(V(str(e[1]), "char"), env)
        if kind == "rangeval":
            return k(e[1], env)
        if kind == "closure":
            unsupported("closure (line %d)" % e[3])
        if kind == "range":
            unsupported("range expression outside `for` / a slice index")
        if kind == "unit":
            return k(V("tt", "unit"), env)
        if kind == "path":
            return self.tr_path(e, env, expect, k)
        if kind == "field":
            return self.tr_expr(e[1], env, None, ctl, lambda b, env1: k(self.field_of(b, e[2]), env1))
        if kind == "tfield":
            def proj(b, env1):
                if not (isinstance(b.ty, tuple) and b.ty[0] == "tuple") or b.term is None:
                    unsupported("tuple field of a non-tuple")
                n = len(b.ty[1])
                i = e[2]
                if i >= n:
                    unsupported("tuple index out of range")
                t = b.term
                for _ in range(n - 1 - i):
                    t = "(fst %s)" % t
                if i > 0:
                    t = "(snd %s)" % t
                return k(V(t, b.ty[1][i]), env1)
            return self.tr_expr(e[1], env, None, ctl, proj)
        if kind == "unary":
            return self.tr_unary(e, env, expect, ctl, k, hint)
        if kind == "binary":
            return self.tr_binary(e, env, expect, ctl, k, hint)
        if kind == "cast":
            want = self.resolve(e[2])
            inner_expect = None
            return self.tr_expr(e[1], env, inner_expect, ctl, lambda v, env1: k(self.cast(v, want), env1))
        if kind == "tuple":
            want = expect[1] if isinstance(expect, tuple) and expect[0] == "tuple" and len(expect[1]) == len(e[1]) \
                else [None] * len(e[1])
            vals = []

            def go(i, env1):
                if i == len(e[1]):
                    for v in vals:
                        if v.term is None:
                            unsupported("struct value inside a tuple")
                    return k(V("(" + ", ".join(v.term for v in vals) + ")", ("tuple", [v.ty for v in vals])), env1)

                def got(v, env2):
                    vals.append(v)
                    return go(i + 1, env2)
                return self.tr_expr(e[1][i], env1, want[i], ctl, got)
            return go(0, env)
        if kind == "block":
            return self.tr_block(e, env, expect, ctl, k)
        if kind == "if":
            return self.tr_if(e, env, expect, ctl, k, hint)
        if kind == "match":
            return self.tr_match(e[1], e[2], env, expect, ctl, k, hint)
        if kind == "return":
            if e[1] is None:
                return ctl.ret(V("tt", "unit"), env)
            return self.tr_expr(e[1], env, self.fn_ret_ty, ctl,
                                lambda v, env1: ctl.ret(self.coerce(v, self.fn_ret_ty), env1))
        if kind == "break":
            if ctl.brk is None:
                unsupported("break outside a loop")
            return ctl.brk(env)
        if kind == "continue":
            if ctl.cont is None:
                unsupported("continue outside a loop")
            return ctl.cont(env)
        if kind in ("loop", "while", "for"):
            return self.tr_loop(e, env, ctl, k)
        if kind == "assign":
            return self.tr_assign(e, env, ctl, k)
        if kind == "try":
            def got(v, env1):
                if not (isinstance(v.ty, tuple) and v.ty[0] == "result"):
                    unsupported("`?` on a value that is not a Result")
                if not (isinstance(self.fn_ret_ty, tuple) and self.fn_ret_ty[0] == "result"):
                    unsupported("`?` in a function that does not return Result")
                x = self.tmp(hint)
                er = self.tmp()
                return ("match", v.term, [
                    ("ResOk %s" % x, k(V(x, v.ty[1]), env1)),
                    ("ResErr %s" % er, ctl.ret(V("(ResErr %s)" % er, self.fn_ret_ty), env1))])
            return self.tr_expr(e[1], env, None, ctl, got)
        if kind == "index" and e[2][0] == "range":
            def with_sbase(b, env1):
                if b.term is None:
                    unsupported("slicing a struct")
                if b.ty == "objstring":
                    b = V("(snd %s)" % b.term, "str")
                if b.ty != "str":
                    unsupported("slicing a value of type %r" % (b.ty,))
                lo_e, hi_e = e[2][1], e[2][2]

                def with_lo(lo, env2):
                    def with_hi(hi, env3):
                        t = self.tmp(hint)
                        return ("bind", t, ("prim", "str_slice_z %s %s %s" % (
                            b.term, self.coerce(lo, T_USIZE).term, self.coerce(hi, T_USIZE).term)),
                            k(V(t, "str"), env3))
                    if hi_e is None:
                        return with_hi(V("(list_len %s)" % b.term, T_USIZE), env2)
                    return self.tr_expr(hi_e, env2, T_USIZE, ctl, with_hi)
                if lo_e is None:
                    return with_lo(V("0", T_USIZE), env1)
                return self.tr_expr(lo_e, env1, T_USIZE, ctl, with_lo)
            return self.tr_expr(e[1], env, None, ctl, with_sbase)
        if kind == "index":
            def with_base(b, env1):
                if not (isinstance(b.ty, tuple) and b.ty[0] == "list") or b.term is None:
                    unsupported("indexing a value of type %r" % (b.ty,))

                def with_idx(i, env2):
                    if not (is_int(i.ty) and not i.ty[1] and i.ty[2] == 64):
                        unsupported("index of type %r" % (i.ty,))
                    t = self.tmp(hint)
                    return ("bind", t, ("prim", "list_index %s %s" % (b.term, i.term)), k(V(t, b.ty[1]), env2))
                return self.tr_expr(e[2], env1, T_USIZE, ctl, with_idx)
            return self.tr_expr(e[1], env, None, ctl, with_base)
        if kind == "mcall":
            return self.tr_mcall(e, env, expect, ctl, k, hint)
        if kind == "call":
            return self.tr_call(e, env, expect, ctl, k, hint)
        if kind == "macro":
            return self.tr_macro(e, env, expect, ctl, k)
        if kind == "struct":
            return self.tr_struct(e, env, expect, ctl, k)
        if kind == "unsafe":
            unsupported("unsafe block")
        unsupported("expression `%s`" % kind)

    def int_lit(self, v, suffix, expect):
        if suffix is not None:
            ty = T_int(suffix)
        elif isinstance(expect, tuple) and expect[0] == "intq":
            return V(zlit(v), expect)
        elif is_int(expect):
            ty = expect
        elif expect == "f64":
            unsupported("integer literal where a float is expected")
        else:
            ty = T_I32
        lo, hi = int_range(ty)
        if not lo <= v <= hi:
            unsupported("literal %d out of range for %s" % (v, ty[3]))
        return V(zlit(v), ty)

    def tr_path(self, e, env, expect, k):
        segs = e[1]
        if len(segs) == 1:
            n = segs[0]
            if n == "None" and n not in env:
                if not (isinstance(expect, tuple) and expect[0] == "opt"):
                    unsupported("`None` without a known Option type")
                return k(V("None", expect), env)
            return k(self.lookup(n, env), env)
        if len(segs) == 2 and segs[0] in INT_TYPES and segs[1] in ("MAX", "MIN"):
            lo, hi = int_range(T_int(segs[0]))
            return k(V(zlit(hi if segs[1] == "MAX" else lo), T_int(segs[0])), env)
        if len(segs) == 2 and segs[0] == "Option" and segs[1] == "None":
            return k(V("None", expect), env)
        if segs == ["Value", "None"] and self.resolve(("tpath", "Value", [])) == "xvalue":
            return k(V("XNone", "xvalue"), env)
        if len(segs) == 2 and segs[0] in self.src.enums() and segs[0] not in self.overrides:
            names = self.src.enums()[segs[0]]
            if segs[1] not in names:
                unsupported("enum `%s` has no unit variant `%s`" % (segs[0], segs[1]))
            return k(self.unit.enum_const(segs[0], segs[1]), env)
        # module path to a const: common::X, self::X, crate::common::X
        c = self.unit.const([segs[-2] + ".rs" if os.path.exists(os.path.join(self.src.dir, segs[-2] + ".rs"))
                             else self.file, self.file, "common.rs"], segs[-1])
        if c is not None:
            return k(c, env)
        unsupported("path `%s`" % "::".join(segs))

    def tr_unary(self, e, env, expect, ctl, k, hint):
        op, x = e[1], e[2]
        if op in ("*", "&"):
            return self.tr_expr(x, env, expect, ctl, k, hint)
        if op == "-" and x[0] == "lit_int":
            return k(self.int_lit(-x[1], x[2], expect), env)
        if op == "-" and x[0] == "lit_float":
            unsupported("negative float literal")

        def got(v, env1):
            if op == "!":
                if v.ty == "bool":
                    return k(V("(negb %s)" % v.term, "bool"), env1)
                if is_int(v.ty):
                    if v.ty[1]:
                        return k(V("(- %s - 1)" % v.term, v.ty), env1)
                    return k(V("(2 ^ %d - 1 - %s)" % (v.ty[2], v.term), v.ty), env1)
                unsupported("`!` on %r" % (v.ty,))
            if op == "-":
                if v.ty == "f64":
                    return k(V("(fneg %s)" % v.term, "f64"), env1)
                if is_int(v.ty) and v.ty[1]:
                    t = self.tmp(hint)
                    return ("bind", t, ("prim", "s_neg %d %s" % (v.ty[2], v.term)), k(V(t, v.ty), env1))
                unsupported("unary `-` on %r" % (v.ty,))
            unsupported("unary `%s`" % op)
        return self.tr_expr(x, env, expect if op in ("!", "-") else None, ctl, got)

    @staticmethod
    def is_bare_literal(e):
        while e[0] == "paren":
            e = e[1]
        if e[0] == "unary" and e[1] == "-":
            e = e[2]
        return e[0] == "lit_int" and e[2] is None

    def tr_binary(self, e, env, expect, ctl, k, hint):
        _, op, l, r = e
        if op in ("&&", "||"):
            if is_abrupt(r):
                unsupported("`return`/`?` in the right operand of `%s`" % op)

            def with_l(lv, env1):
                self.coerce(lv, "bool")
                self.regions.append((set(env1.keys()), set()))
                try:
                    mr = self.tr_expr(r, env1, "bool", ctl, lambda rv, env2: ("ret", self.coerce(rv, "bool").term))
                finally:
                    self.regions.pop()
                if mr[0] == "ret":
                    return k(V("(%s %s %s)" % (lv.term, op, mr[1]), "bool"), env1)
                t = self.tmp(hint)
                m = ("if", lv.term, mr, ("ret", "false")) if op == "&&" else ("if", lv.term, ("ret", "true"), mr)
                return ("bind", t, m, k(V(t, "bool"), env1))
            return self.tr_expr(l, env, "bool", ctl, with_l)
        is_cmp = op in ("==", "!=", "<", "<=", ">", ">=")
        is_shift = op in ("<<", ">>")
        ex = None if is_cmp else expect
        if self.is_bare_literal(l) and not self.is_bare_literal(r) and not is_shift:
            return self.tr_expr(r, env, ex, ctl, lambda rv, env1: self.tr_expr(
                l, env1, rv.ty, ctl, lambda lv, env2: self.binop(op, lv, rv, env2, k, hint)))
        return self.tr_expr(l, env, ex, ctl, lambda lv, env1: self.tr_expr(
            r, env1, (None if is_shift else lv.ty), ctl, lambda rv, env2: self.binop(op, lv, rv, env2, k, hint)))

    def binop(self, op, a, b, env, k, hint=None):
        if a.term is None or b.term is None:
            unsupported("operator `%s` on a struct" % op)
        ta, tb = a.ty, b.ty
        if isinstance(ta, tuple) and ta[0] == "intq" and is_int(tb) and op not in ("<<", ">>"):
            raise ResolveInt(ta[1], tb)
        if isinstance(tb, tuple) and tb[0] == "intq" and is_int(ta) and op not in ("<<", ">>"):
            raise ResolveInt(tb[1], ta)
        cmp_names = {"==": "=?", "<": "<?", "<=": "<=?", ">": ">?", ">=": ">=?"}
        if is_int(ta) and is_int(tb):
            if op in ("<<", ">>"):
                if ta[1]:
                    unsupported("shift of a signed integer")
                t = self.tmp(hint)
                return ("bind", t, ("prim", "%s %d %s %s" % ("u_shl" if op == "<<" else "u_shr", ta[2], a.term, b.term)),
                        k(V(t, ta), env))
            if not ty_eq(ta, tb):
                unsupported("operands of `%s` have types %s and %s" % (op, ta[3], tb[3]))
            pre = "s" if ta[1] else "u"
            arith = {"+": "add", "-": "sub", "*": "mul", "/": "div", "%": "rem"}
            if op in arith:
                t = self.tmp(hint)
                return ("bind", t, ("prim", "%s_%s %d %s %s" % (pre, arith[op], ta[2], a.term, b.term)),
                        k(V(t, ta), env))
            bits = {"&": "Z.land", "|": "Z.lor", "^": "Z.lxor"}
            if op in bits:
                x, y = canonical_order(a.term, b.term)
                return k(V("(%s %s %s)" % (bits[op], x, y), ta), env)
            if op in cmp_names:
                return k(V("(%s %s %s)" % (a.term, cmp_names[op], b.term), "bool"), env)
            if op == "!=":
                return k(V("(negb (%s =? %s))" % (a.term, b.term), "bool"), env)
        if ta == "ptr" and tb == "ptr":
            if op == "==":
                return k(V("(%s =? %s)" % (a.term, b.term), "bool"), env)
            if op == "!=":
                return k(V("(negb (%s =? %s))" % (a.term, b.term), "bool"), env)
            unsupported("pointer operator `%s`" % op)
        if ta == "f64" and tb == "f64":
            fa = {"+": "fadd", "-": "fsub", "*": "fmul", "/": "fdiv", "%": "frem"}
            if op in fa:
                return k(V("(%s %s %s)" % (fa[op], a.term, b.term), "f64"), env)
            fc = {"==": "feqb", "<": "fltb", "<=": "fleb", ">": "fgtb", ">=": "fgeb"}
            if op in fc:
                return k(V("(%s %s %s)" % (fc[op], a.term, b.term), "bool"), env)
            if op == "!=":
                return k(V("(negb (feqb %s %s))" % (a.term, b.term), "bool"), env)
        if ta == "bool" and tb == "bool":
            bo = {"&": "andb", "|": "orb", "^": "xorb", "==": "Bool.eqb"}
            if op in bo:
                return k(V("(%s %s %s)" % (bo[op], a.term, b.term), "bool"), env)
            if op == "!=":
                return k(V("(xorb %s %s)" % (a.term, b.term), "bool"), env)
        if ta == "str" and tb == "str" and op in ("==", "!="):
            t = "(str_eqb %s %s)" % (a.term, b.term)
            return k(V(t if op == "==" else "(negb %s)" % t, "bool"), env)
        if ((ta == "char" and tb == "char") or (isinstance(ta, tuple) and ta[0] == "enum" and ta == tb)) \
                and op in ("==", "!="):
            t = "(%s =? %s)" % (a.term, b.term)
            return k(V(t if op == "==" else "(negb %s)" % t, "bool"), env)
        if ta == "char" and tb == "char" and op in cmp_names:
            return k(V("(%s %s %s)" % (a.term, cmp_names[op], b.term), "bool"), env)
        if ta == "byte" and tb == "byte" and op in ("==", "!="):
            t = "(Byte.eqb %s %s)" % (a.term, b.term)
            return k(V(t if op == "==" else "(negb %s)" % t, "bool"), env)
        unsupported("operator `%s` on %r and %r" % (op, ta, tb))

    def cast(self, v, want):
        if v.term is None:
            unsupported("cast of a struct")
        src = v.ty
        if is_int(want):
            lo, hi = int_range(want)
            if src == "byte":
                return V("(byte_Z %s)" % v.term, want)
            if is_int(src):
                slo, shi = int_range(src)
                if lo <= slo and shi <= hi:
                    return V(v.term, want)
                if want[1]:
                    return V("(wrap_s %d %s)" % (want[2], v.term), want)
                return V("(%s mod 2 ^ %d)" % (v.term, want[2]), want)
            if src == "f64":
                named = {"isize": "to_isize", "i64": "to_i64", "usize": "to_usize", "u64": "to_u64", "u32": "to_u32",
                         "u8": "to_u8"}
                if want[3] in named:
                    return V("(%s %s)" % (named[want[3]], v.term), want)
                return V("(cast_int %s %s %s)" % (zlit(lo), zlit(hi), v.term), want)
            if src == "bool":
                return V("(if %s then 1 else 0)" % v.term, want)
            if src == "char" and not want[1] and want[2] >= 32:
                return V(v.term, want)
            if isinstance(src, tuple) and src[0] == "enum" and want[2] >= 32:
                return V(v.term, want)
            if src == "ptr" and want[2] == 64 and not want[1]:
                return V(v.term, want)
        if want == "f64":
            if is_int(src):
                return V("(f64_of_Z %s)" % v.term, "f64")
            if src == "f64":
                return v
        if want == "ptr" and src == "ptr":
            return v
        unsupported("cast from %r to %r" % (src, want))

    # ----- control flow
    def tr_branch(self, b, env, expect, ctl, k):
        if b[0] == "block":
            return self.tr_block(b, env, expect, ctl, k)
        return self.tr_expr(b, env, expect, ctl, k)

    def join(self, branches, build, env, expect, ctl, k, hint, envs=None):
        """non-abrupt branches: each yields (value, assigned state); the results are merged by one binder"""
        keys = []
        for b in branches:
            for kx in self.assigned_keys(b, env):
                if kx not in keys:
                    keys.append(kx)
        keys.sort()
        seen = {}

        def branch_k(v, env2):
            if v.ty != "never":
                if "ty" in seen and not ty_eq(seen["ty"], v.ty):
                    unsupported("branches have different types: %r and %r" % (seen["ty"], v.ty))
                seen.setdefault("ty", v.ty)
            if v.term is None:
                unsupported("a branch evaluates to a struct")
            items = ([v.term] if v.ty != "unit" else []) + [g for g, _ in self.state_names(keys, env2)]
            return ("ret", "tt" if not items else items[0] if len(items) == 1 else "(" + ", ".join(items) + ")")
        self.regions.append((set(env.keys()), set(keys)))
        try:
            ms = [self.tr_branch(b, envs[i] if envs else env, expect, ctl, branch_k) for i, b in enumerate(branches)]
        finally:
            self.regions.pop()
        vty = seen.get("ty", "unit")
        names = [g for g, _ in self.state_names(keys, env)]
        vname = self.tmp(hint) if vty != "unit" else None
        items = ([vname] if vname else []) + names
        m = build(ms)
        if not items:
            if m_pure(m):
                return k(V("tt", "unit"), env)
            return ("bind", "_", m, k(V("tt", "unit"), env))
        pat = items[0] if len(items) == 1 else "(" + ", ".join(items) + ")"
        return ("bind", pat, m, k(V(vname or "tt", vty), env))

    def tr_if(self, e, env, expect, ctl, k, hint):
        _, cond, then, els = e
        els_b = els if els is not None else ("block", [], None)
        if cond[0] == "let":
            return self.tr_match(cond[2], [(cond[1], None, then), (("p_wild",), None, els_b)], env, expect, ctl, k, hint)

        def with_cond(c, env1):
            self.coerce(c, "bool")
            if is_abrupt(then) or is_abrupt(els_b):
                return ("if", c.term, self.tr_branch(then, env1, expect, ctl, k),
                        self.tr_branch(els_b, env1, expect, ctl, k))
            return self.join([then, els_b], lambda ms: ("if", c.term, ms[0], ms[1]), env1, expect, ctl, k, hint)
        return self.tr_expr(cond, env, "bool", ctl, with_cond)

    def arm_pattern(self, pat, sty, env):
        """returns (gallina pattern, env with the variables of the pattern)"""
        def sub_binder(sp, ty, env2):
            if sp[0] == "p_ref":
                sp = sp[1]
            if sp[0] == "p_wild":
                return "_", env2
            if sp[0] == "p_id":
                if sp[1] in env2:
                    unsupported("pattern variable `%s` shadows an outer variable" % sp[1])
                env3 = dict(env2)
                g = mangle(sp[1])
                env3[sp[1]] = ("val", g, ty, None)
                return g, env3
            unsupported("nested pattern in a match arm")
        if pat[0] == "p_ref":
            pat = pat[1]
        if pat[0] == "p_wild":
            return "_", env
        if pat[0] == "p_id":
            g, env2 = sub_binder(pat, sty, env)
            return g, env2
        if isinstance(sty, tuple) and sty[0] == "opt":
            if pat[0] == "p_ts" and pat[1][-1] == "Some" and len(pat[2]) == 1:
                g, env2 = sub_binder(pat[2][0], sty[1], env)
                return "Some %s" % g, env2
            if pat[0] == "p_path" and pat[1][-1] == "None":
                return "None", env
        if isinstance(sty, tuple) and sty[0] == "result2":
            if pat[0] == "p_ts" and pat[1][-1] == "Ok" and len(pat[2]) == 1:
                g, env2 = sub_binder(pat[2][0], sty[1], env)
                return "inl %s" % g, env2
            if pat[0] == "p_ts" and pat[1][-1] == "Err" and len(pat[2]) == 1:
                g, env2 = sub_binder(pat[2][0], sty[2], env)
                return "inr %s" % g, env2
        if isinstance(sty, tuple) and sty[0] == "result":
            if pat[0] == "p_ts" and pat[1][-1] == "Ok" and len(pat[2]) == 1:
                g, env2 = sub_binder(pat[2][0], sty[1], env)
                return "ResOk %s" % g, env2
            if pat[0] == "p_ts" and pat[1][-1] == "Err" and len(pat[2]) == 1:
                g, env2 = sub_binder(pat[2][0], "error", env)
                return "ResErr %s" % g, env2
        if sty == "rvalue":
            if pat[0] == "p_ts" and pat[1] == ["Value", "Number"] and len(pat[2]) == 1:
                g, env2 = sub_binder(pat[2][0], "f64", env)
                return "RNumber %s" % g, env2
        if sty == "xvalue" and pat[0] == "p_ts" and len(pat[1]) == 2 and pat[1][0] == "Value" and len(pat[2]) == 1:
            xc = {"Number": ("XNumber", "f64"), "Boolean": ("XBoolean", "bool"), "ObjString": ("XObjString", "objstring")}
            if pat[1][1] in xc:
                g, env2 = sub_binder(pat[2][0], xc[pat[1][1]][1], env)
                return "%s %s" % (xc[pat[1][1]][0], g), env2
        if sty == "xvalue" and pat[0] == "p_ts" and pat[1] == ["Value", "ObjRange"] and len(pat[2]) == 1:
            sp = pat[2][0]
            if sp[0] == "p_ref":
                sp = sp[1]
            if sp[0] == "p_wild":
                return "XObjRange _ _", env
            if sp[0] != "p_id" or sp[1] in env:
                unsupported("pattern inside Value::ObjRange(..)")
            gb, ge = mangle(sp[1]) + "_begin", mangle(sp[1]) + "_end"
            env3 = dict(env)
            isz = T_int("isize")
            env3[sp[1]] = ("val", "(%s, %s)" % (gb, ge), ("sval", "ObjRange", [("begin", isz), ("end", isz)]), None)
            return "XObjRange %s %s" % (gb, ge), env3
        if sty == "xvalue" and pat[0] == "p_path" and pat[1] == ["Value", "None"]:
            return "XNone", env
        if sty == "bool" and pat[0] == "p_bool":
            return ("true" if pat[1] else "false"), env
        if is_int(sty) and pat[0] == "p_lit" and pat[1] >= 0:
            return str(pat[1]), env
        if isinstance(sty, tuple) and sty[0] == "tuple" and pat[0] == "p_tuple" and len(pat[1]) == len(sty[1]):
            names = []
            env2 = env
            for sp, t in zip(pat[1], sty[1]):
                g, env2 = sub_binder(sp, t, env2)
                names.append(g)
            return "(" + ", ".join(names) + ")", env2
        unsupported("pattern %r against a scrutinee of type %r" % (pat, sty))

    def tr_match(self, scrut, arms, env, expect, ctl, k, hint):
        for _, guard, _ in arms:
            if guard is not None:
                unsupported("match guard")

        def with_scrut(s, env1):
            if s.term is None:
                unsupported("match on a struct")
            if s.ty == "str":
                return self.tr_match_str(s, arms, env1, expect, ctl, k, hint)
            pats = []
            for pat, _, body in arms:
                gp, envp = self.arm_pattern(pat, s.ty, env1)
                pats.append((gp, envp, body))
            if any(is_abrupt(b) for _, _, b in arms):
                return ("match", s.term, [(gp, self.tr_branch(b, envp, expect, ctl,
                                                              lambda v, env2: k(v, env1)))
                                          for gp, envp, b in pats])
            # the arm variables are local to each arm: translate each arm in its own environment
            keys = []
            for _, _, b in arms:
                for kx in self.assigned_keys(b, env1):
                    if kx not in keys:
                        keys.append(kx)
            keys.sort()
            seen = {}

            def branch_k(v, env2):
                if v.ty != "never":
                    if "ty" in seen and not ty_eq(seen["ty"], v.ty):
                        unsupported("arms have different types")
                    seen.setdefault("ty", v.ty)
                if v.term is None:
                    unsupported("an arm evaluates to a struct")
                items = ([v.term] if v.ty != "unit" else []) + [g for g, _ in self.state_names(keys, env2)]
                return ("ret", "tt" if not items else items[0] if len(items) == 1 else "(" + ", ".join(items) + ")")
            self.regions.append((set(env1.keys()), set(keys)))
            try:
                ms = [(gp, self.tr_branch(b, envp, expect, ctl, branch_k)) for gp, envp, b in pats]
            finally:
                self.regions.pop()
            vty = seen.get("ty", "unit")
            names = [g for g, _ in self.state_names(keys, env1)]
            vname = self.tmp(hint) if vty != "unit" else None
            items = ([vname] if vname else []) + names
            m = ("match", s.term, ms)
            if not items:
                if m_pure(m):
                    return k(V("tt", "unit"), env1)
                return ("bind", "_", m, k(V("tt", "unit"), env1))
            pat = items[0] if len(items) == 1 else "(" + ", ".join(items) + ")"
            return ("bind", pat, m, k(V(vname or "tt", vty), env1))
        return self.tr_expr(scrut, env, None, ctl, with_scrut)

    def tr_match_str(self, s, arms, env, expect, ctl, k, hint):
        """`match <&str> { "lit" => .., x => .. }`: a chain of comparisons, first match wins"""
        tests = []          # [(condition term | None, env of the arm, body)]
        for pat, _, body in arms:
            if pat[0] == "p_str":
                tests.append(("(str_eqb %s %s)" % (s.term, str_literal(pat[1])), env, body))
            elif pat[0] == "p_wild":
                tests.append((None, env, body))
                break
            elif pat[0] == "p_id":
                if pat[1] in env:
                    unsupported("pattern variable `%s` shadows an outer variable" % pat[1])
                env2 = dict(env)
                g = mangle(pat[1])
                if s.term != g:
                    unsupported("a binding arm of a match on a &str whose scrutinee is not the variable itself")
                env2[pat[1]] = ("val", g, "str", None)
                tests.append((None, env2, body))
                break
            else:
                unsupported("pattern %r against a &str" % (pat,))
        if not tests or tests[-1][0] is not None:
            unsupported("match on a &str without a catch-all arm")

        def chain(ms):
            m = ms[-1]
            for (c, _, _), mi in reversed(list(zip(tests[:-1], ms[:-1]))):
                m = ("if", c, mi, m)
            return m
        if any(is_abrupt(b) for _, _, b in tests):
            return chain([self.tr_branch(b, envp, expect, ctl, lambda v, env2: k(v, env)) for _, envp, b in tests])
        return self.join([b for _, _, b in tests], chain, env, expect, ctl, k, hint, envs=[ev for _, ev, _ in tests])

    def tr_loop(self, e, env, ctl, k):
        kind = e[0]
        body = e[-1]
        scan = [body] + ([e[1]] if kind == "while" else [])
        keys = []
        for s in scan:
            for kx in self.assigned_keys(s, env):
                if kx not in keys:
                    keys.append(kx)
        keys.sort()
        for kx in keys:
            self.check_captured(kx, env)

        def st(env2):
            items = [g for g, _ in self.state_names(keys, env2)]
            return "tt" if not items else items[0] if len(items) == 1 else "(" + ", ".join(items) + ")"
        pat = st(env)
        pat_b = "_" if pat == "tt" else pat
        with_ret = has_return(body) or (kind == "while" and has_return(e[1]))
        rty = self.pack_gty() if with_ret else None

        def paren(t):
            return t if re.match(r"^[\w']+$", t) or t.startswith("(") else "(%s)" % t
        lctl = Ctl(ret=lambda v, env2: ("ret", "Return %s" % paren(self.pack(v))),
                   ret_packed=lambda t: ("ret", "Return %s" % paren(t)),
                   brk=lambda env2: ("ret", "Break %s" % paren(st(env2))),
                   cont=lambda env2: ("ret", "Continue %s" % paren(st(env2))))
        self.regions.append((set(env.keys()), set(keys)))
        try:
            if kind == "loop":
                self.need_fuel()
                bm = self.tr_block(body, env, None, lctl, lambda v, env2: lctl.cont(env2))
                node = ("loop", pat_b, bm, pat, rty)
            elif kind == "while":
                self.need_fuel()
                bm = self.tr_expr(e[1], env, "bool", lctl, lambda c, env1: (
                    "if", self.coerce(c, "bool").term,
                    self.tr_block(body, env1, None, lctl, lambda v, env2: lctl.cont(env2)),
                    lctl.brk(env1)))
                node = ("loop", pat_b, bm, pat, rty)
            else:
                _, lpat, it, _ = e
                if lpat[0] == "p_ref":
                    lpat = lpat[1]
                if lpat[0] == "p_tuple" and not all(
                        (sp[1] if sp[0] == "p_ref" else sp)[0] in ("p_id", "p_wild") for sp in lpat[1]):
                    unsupported("pattern of a `for` loop")
                if lpat[0] not in ("p_id", "p_wild", "p_tuple"):
                    unsupported("pattern of a `for` loop")
                box = {}

                def with_it(lv, env1):
                    if not (isinstance(lv.ty, tuple) and lv.ty[0] == "list") or lv.term is None:
                        unsupported("`for` over a value of type %r" % (lv.ty,))
                    env2 = dict(env1)
                    if lpat[0] == "p_tuple":
                        ety = lv.ty[1]
                        if not (isinstance(ety, tuple) and ety[0] == "tuple" and len(ety[1]) == len(lpat[1])):
                            unsupported("tuple pattern of a `for` loop over %r" % (ety,))
                        names = []
                        for sp, st in zip(lpat[1], ety[1]):
                            if sp[0] == "p_ref":
                                sp = sp[1]
                            if sp[0] == "p_wild":
                                names.append("_")
                                continue
                            if sp[1] in env1:
                                unsupported("loop variable shadows `%s`" % sp[1])
                            names.append(mangle(sp[1]))
                            env2[sp[1]] = ("val", mangle(sp[1]), st, None)
                        g = "'(" + ", ".join(names) + ")"
                    elif lpat[0] == "p_wild":
                        g = "_"
                    else:
                        if lpat[1] in env1:
                            unsupported("loop variable shadows `%s`" % lpat[1])
                        g = mangle(lpat[1])
                        if lv.ty[1] == "xelem":
                            env2[lpat[1]] = ("xelem", g)
                        else:
                            env2[lpat[1]] = ("val", g, lv.ty[1], None)
                    bm = self.tr_block(body, env2, None, lctl, lambda v, env3: lctl.cont(env3))
                    box["node"] = ("forin", lv.term, g, pat_b, bm, pat, rty)
                    return ("ret", "tt")
                while it[0] == "paren":
                    it = it[1]
                if it[0] == "range":
                    # `for i in a..b`: both bounds are evaluated once, before the loop (they may fault)
                    if it[1] is None or it[2] is None:
                        unsupported("`for` over an open range")
                    self.regions.pop()
                    try:
                        return self.tr_expr(it[1], env, None if self.is_bare_literal(it[1]) else None, ctl,
                                            lambda lo, env1: self.for_range(e, lo, it, env1, ctl, k, keys))
                    finally:
                        self.regions.append((set(env.keys()), set(keys)))
                r = self.tr_expr(it, env, None, ctl, with_it)
                if r != ("ret", "tt"):
                    unsupported("the iterated expression of a `for` loop is not pure")
                node = box["node"]
        finally:
            self.regions.pop()
        o = self.tmp()
        rr = self.tmp()
        has_break = kind != "loop" or ast_any(body, lambda n: n[0] == "break")
        if has_break:
            after_break = k(V("tt", "unit"), env)
        else:
            after_break = ("fail", '(ExplicitPanic "a loop without break was left by break")')
        arms = [("inl %s" % paren(pat_b), after_break),
                ("inr %s" % rr, ctl.ret_packed(rr) if with_ret else ("absurd", rr))]
        return ("bind", o, node, ("match", o, arms))

    def for_range(self, e, lo, it, env, ctl, k, keys):
        """`for i in lo..hi { body }` with lo already evaluated"""
        def with_hi(hi, env1):
            lo2 = lo
            if not is_int(hi.ty):
                unsupported("range bound of type %r" % (hi.ty,))
            if self.is_bare_literal(it[1]):
                lo2 = self.int_lit(it[1][1], None, hi.ty) if it[1][0] == "lit_int" else lo
            if not (is_int(lo2.ty) and ty_eq(lo2.ty, hi.ty)):
                unsupported("range bounds of types %r and %r" % (lo2.ty, hi.ty))
            rng = V("(z_range %s %s)" % (lo2.term, hi.term), ("list", hi.ty))
            e2 = ("for", e[1], ("rangeval", rng), e[3])
            return self.tr_loop(e2, env1, ctl, k)
        return self.tr_expr(it[2], env, lo.ty if not self.is_bare_literal(it[1]) else None, ctl, with_hi)

    def tr_assign(self, e, env, ctl, k):
        _, op, lhs, rhs = e
        p = self.static_path(lhs)
        if p is None:
            unsupported("assignment to a computed place")
        key = self.assign_key(p, env)
        self.check_captured(key, env)
        box = {}

        def grab(v, env1):
            box["v"] = v
            return ("ret", "tt")
        self.tr_expr(lhs, env, None, ctl, grab)
        cur = box["v"]
        if cur.term is None:
            unsupported("assignment to a whole struct")
        g, ty = cur.term, cur.ty

        def store(v, env1):
            v = self.coerce(v, ty)
            if v.term == g:
                return k(V("tt", "unit"), env1)
            return ("let", g, v.term, k(V("tt", "unit"), env1))
        if op == "=":
            return self.tr_expr(rhs, env, ty, ctl, store, hint=g)
        bop = op[:-1]
        return self.tr_expr(rhs, env, None if bop in ("<<", ">>") else ty, ctl,
                            lambda rv, env1: self.binop(bop, cur, rv, env1, store, hint=g))

    def pure_lambda(self, clo, ptys, env, expect, what):
        """a closure |x..| body whose body is a pure expression: ('fun x .. => term', result type)"""
        if clo[0] != "closure":
            unsupported("%s expects a closure" % what)
        _, params, body, line = clo
        if len(params) != len(ptys):
            unsupported("%s: closure with %d parameters (line %d)" % (what, len(params), line))
        env2 = dict(env)
        names = []
        for pat, ty in zip(params, ptys):
            while pat[0] == "p_ref":
                pat = pat[1]
            if pat[0] == "p_wild":
                names.append("_")
            elif pat[0] == "p_id":
                if pat[1] in env:
                    unsupported("closure parameter `%s` shadows an outer variable" % pat[1])
                g = mangle(pat[1])
                if ty == "xelem":
                    env2[pat[1]] = ("xelem", g)
                else:
                    env2[pat[1]] = ("val", g, ty, None)
                names.append(g)
            else:
                unsupported("closure parameter pattern (line %d)" % line)
        if self.assigned_keys(body, env2):
            unsupported("a closure that assigns captured variables (line %d)" % line)
        if is_abrupt(body):
            unsupported("return / ? / break inside a closure (line %d)" % line)
        box = {}

        def fin(v, env3):
            v = self.coerce(v, expect)
            if v.term is None:
                unsupported("a closure that evaluates to a struct")
            box["ty"] = v.ty
            return ("ret", v.term)
        self.regions.append((set(env2.keys()), set()))
        try:
            m = self.tr_expr(body, env2, expect, Ctl(None, None), fin)
        finally:
            self.regions.pop()
        if not m_pure(m):
            unsupported("%s: the closure body can fault or loops (line %d)" % (what, line))
        text = m_print(m, False, 3)
        if names:
            return "(fun %s => %s)" % (" ".join(names), text), box["ty"]
        return text, box["ty"]

    def display(self, v):
        """the `{}` rendering of v as a Gallina string term"""
        if v.ty == "msg":
            return v.term
        if v.ty in ("rvalue", "xvalue"):
            if getattr(v, "shown", None):
                return v.shown() if callable(v.shown) else v.shown
            if getattr(v, "path", None):
                return self.shown(tuple(v.path))
        if is_int(v.ty):
            return "(show_int %s)" % v.term
        unsupported("Display of a value of type %r" % (v.ty,))

    def tr_format_args(self, toks, lo, hi, line, env, ctl, k):
        """`"fmt", args..` of format!/error!: k(message term, env)"""
        p = Parser(toks, lo, hi)
        parts = []
        while not p.done():
            parts.append(p.parse_expr())
            if p.at(","):
                p.next()
        if not parts or parts[0][0] != "lit_str":
            unsupported("format string expected (line %d)" % line)
        fmt = parts[0][1]
        rendered = []

        def go(i, env1):
            if i == len(parts):
                return k(V("(format %s [%s])" % (coq_string(fmt), "; ".join(rendered)), "msg"), env1)

            def got(v, env2):
                rendered.append(self.display(v))
                return go(i + 1, env2)
            return self.tr_expr(parts[i], env1, None, ctl, got)
        return go(1, env)

    # ----- calls
    IDENTITY_ON_PLACE = ("borrow", "borrow_mut", "as_ref", "as_mut", "deref", "clone", "get")

    def tr_mcall(self, e, env, expect, ctl, k, hint):
        _, recv, name, args, generics = e
        # self.method(..): abstract value, or a translated function of the same impl
        if recv == ("path", ["self"], None) and self.decl is not None and "self" in env:
            key = "self." + name
            if key in self.abstract:
                if args:
                    unsupported("abstract call with arguments")
                gname, tname = self.abstract[key]
                ty = T_int(tname) if tname in INT_TYPES else tname
                g = self.reg_param("#abs." + key, gname, ty, (3, 999, gname), ("abstract", key))
                return k(V(g, ty), env)
            cal = self.unit.fns.get((self.decl.impl, name))
            if cal is not None:
                return self.call_translated(cal, True, args, env, ctl, k, hint)

        # Vec::push / Vec::pop on a place
        mp = self.mutated_place(e, env)
        if mp is not None:
            key = self.assign_key(mp, env)
            self.check_captured(key, env)
            box = {}

            def grab(v, env1):
                box["v"] = v
                return ("ret", "tt")
            self.tr_expr(recv, env, None, ctl, grab)
            cur = box["v"]
            g, lty = cur.term, cur.ty
            if name == "push" and len(args) == 1:
                return self.tr_expr(args[0], env, lty[1], ctl, lambda v, env1: (
                    "let", g, "(%s ++ [%s])" % (g, self.coerce(v, lty[1]).term), k(V("tt", "unit"), env1)))
            if name == "pop" and not args:
                t = self.tmp(hint)
                return ("let", "(%s, %s)" % (t, g), "(list_pop %s)" % g, k(V(t, ("opt", lty[1])), env))
            unsupported("method `%s` with these arguments" % name)
        # an abstract method of a field: self.stack.len()
        sp = self.static_path(recv)
        if sp is not None and ".".join(sp) + "." + name in self.abstract and not args:
            key = ".".join(sp) + "." + name
            gname, tname = self.abstract[key]
            ty = T_int(tname) if tname in INT_TYPES else tname
            g = self.reg_param("#abs." + key, gname, ty, (3, 999, gname), ("abstract", key))
            return k(V(g, ty), env)
        # the value stack of the VM as seen by a native: vm.peek(k) is the abstract input `<vm>_peek_<k>`
        stack = self.cfg.get("stack")
        if stack and recv == ("path", [stack], None):
            if name == "peek" and len(args) == 1 and args[0][0] == "lit_int":
                if getattr(self, "fx_used", False):
                    unsupported("peek after a stack effect (the slot numbers have moved)")
                kx = args[0][1]
                base = "%s_peek_%d" % (mangle(stack), kx)
                g = self.reg_param("#peek.%d" % kx, base, "xvalue", (6, kx, 0), ("peek", kx))
                return k(V(g, "xvalue", shown=lambda: self.reg_param(
                    "#peek.%d#shown" % kx, base + "_shown", "msg", (6, kx, 1), ("peekshown", kx))), env)
            if name in ("pop", "poke", "push"):
                # effects on the value stack: appended to the log <stack>_fx, which the function returns
                if stack != "self" or self.decl.self_kind != "mut":
                    unsupported("stack effect through `%s`" % stack)
                key = stack + ".#fx"
                self.check_captured(key, env)
                self.fx_used = True
                g = self.leaf((stack, "#fx"), ("list", "fx"))
                if name == "pop" and not args:
                    return ("let", g, "(%s ++ [FxPop])" % g, k(V("tt", "popped"), env))
                if name == "poke" and len(args) == 2 and args[0][0] == "lit_int":
                    return self.tr_expr(args[1], env, "xvalue", ctl, lambda v, env1: (
                        "let", g, "(%s ++ [FxPoke %d %s])" % (g, args[0][1], atom(self.coerce(v, "xvalue").term)),
                        k(V("tt", "unit"), env1)))
                if name == "push" and len(args) == 1:
                    return self.tr_expr(args[0], env, "xvalue", ctl, lambda v, env1: (
                        "let", g, "(%s ++ [FxPush %s])" % (g, atom(self.coerce(v, "xvalue").term)),
                        k(V("tt", "unit"), env1)))
                unsupported("stack effect `%s` with these arguments" % name)
            if name == "new_gc_obj_string" and len(args) == 1:
                return self.tr_expr(args[0], env, "str", ctl, lambda v, env1: k(
                    V("(new_obj_string %s)" % self.coerce(v, "str").term, "objstring"), env1))

        def with_recv(r, env1):
            if r.term is None:
                if name in self.IDENTITY_ON_PLACE and not args:
                    return k(r, env1)
                unsupported("method `%s` on a struct" % name)
            ty = r.ty
            # a translated method of ObjString called on a value
            if ty == "objstring":
                cal = self.unit.fns.get(("ObjString", name))
                if cal is not None:
                    return self.call_translated(cal, False, args, env1, ctl, k, hint, recv=r)
            if isinstance(ty, tuple) and ty[0] == "sval":
                cal = self.unit.fns.get((ty[1], name))
                if cal is not None:
                    return self.call_translated(cal, False, args, env1, ctl, k, hint, recv=r)
            if ty in ("xvalue", "rvalue"):
                cal = self.unit.fns.get(("Value", name))
                if cal is not None:
                    return self.call_translated(cal, False, args, env1, ctl, k, hint, recv=r)
            if ty == "objstring" and name not in ("as_str", "len", "is_char_boundary"):
                r = V("(snd %s)" % r.term, "str")
                ty = "str"
            if ty == "msg" and name == "as_str" and not args:
                return k(r, env1)
            if ty == "xvalue" and not args:
                xm = {"try_as_obj_string": ("x_try_as_obj_string", ("opt", "objstring")),
                      "try_as_number": ("x_try_as_number", ("opt", "f64")),
                      "try_as_obj_vec": ("x_try_as_obj_vec", ("opt", ("list", "xelem"))),
                      "try_into_bool": ("x_try_into_bool", ("opt", "bool"))}
                if name in xm:
                    return k(V("(%s %s)" % (xm[name][0], r.term), xm[name][1]), env1)
            if ty == "char" and not args:
                cm = {"is_ascii_alphabetic": "char_is_ascii_alphabetic", "is_ascii_digit": "char_is_ascii_digit",
                      "is_ascii_hexdigit": "char_is_ascii_hexdigit"}
                if name in cm:
                    return k(V("(%s %s)" % (cm[name], r.term), "bool"), env1)
            if ty == "str":
                if name == "is_empty" and not args:
                    return k(V("(str_is_empty %s)" % r.term, "bool"), env1)
                if name == "chars" and not args:
                    return k(V("(str_chars %s)" % r.term, ("list", "char")), env1)
                if name in ("starts_with", "ends_with") and len(args) == 1:
                    return self.tr_expr(args[0], env1, "str", ctl, lambda a, env2: k(
                        V("(str_%s %s %s)" % (name, r.term, self.coerce(a, "str").term), "bool"), env2))
                if name == "replace" and len(args) == 2:
                    return self.tr_expr(args[0], env1, "str", ctl, lambda a, env2: self.tr_expr(
                        args[1], env2, "str", ctl, lambda b, env3: k(
                            V("(str_replace %s %s %s)" % (r.term, self.coerce(a, "str").term,
                                                          self.coerce(b, "str").term), "str"), env3)))
            if isinstance(ty, tuple) and ty[0] == "list":
                if name == "enumerate" and not args:
                    return k(V("(enumerate_z %s)" % r.term, ("list", ("tuple", [T_USIZE, ty[1]]))), env1)
                if name == "rev" and not args:
                    return k(V("(rev %s)" % r.term, ty), env1)
                if name == "all" and len(args) == 1:
                    fn, _ = self.pure_lambda(args[0], [ty[1]], env1, "bool", "all")
                    return k(V("(forallb %s %s)" % (fn, r.term), "bool"), env1)
                if name == "count" and not args:
                    return k(V("(list_len %s)" % r.term, T_USIZE), env1)
                if name == "is_empty" and not args:
                    return k(V("(list_len %s =? 0)" % r.term, "bool"), env1)
            if isinstance(ty, tuple) and ty[0] == "opt":
                if name in ("expect", "unwrap") and len(args) == (1 if name == "expect" else 0):
                    msg = ""
                    if args:
                        if args[0][0] != "lit_str":
                            unsupported("expect(..) with a computed message")
                        msg = args[0][1]
                    x = self.tmp(hint)
                    return ("match", r.term, [
                        ("Some %s" % x, k(V(x, ty[1]), env1)),
                        ("None", ("fail", "(ExplicitPanic %s)" % coq_string(msg)))])
                if name == "ok_or_else" and len(args) == 1:
                    et, _ = self.pure_lambda(args[0], [], env1, "error", "ok_or_else")
                    x = self.tmp()
                    return k(V("(match %s with Some %s => ResOk %s | None => ResErr %s end)" % (
                        r.term, x, x, atom(et)), ("result", ty[1])), env1)
            if isinstance(ty, tuple) and ty[0] == "result":
                if name == "map_err" and len(args) == 1:
                    et, _ = self.pure_lambda(args[0], ["error"], env1, "error", "map_err")
                    x = self.tmp()
                    return k(V("(match %s with ResOk %s => ResOk %s | ResErr %s => ResErr (%s %s) end)" % (
                        r.term, x, x, x + "e", et, x + "e"), ty), env1)
            if name in ("as_ref", "clone", "iter", "as_bytes", "borrow") and not args:
                return k(r, env1)
            if is_int(ty):
                return self.int_method(r, name, args, env1, expect, ctl, k)
            if ty == "f64" and not args:
                m = {"trunc": ("(ftrunc %s)", "f64"), "is_sign_negative": ("(f_is_sign_negative %s)", "bool"),
                     "abs": ("(fabs %s)", "f64"), "to_bits": ("(bits_of_f64 %s)", T_int("u64"))}
                if name in m:
                    return k(V(m[name][0] % r.term, m[name][1]), env1)
                if name == "to_ne_bytes":
                    return k(V(r.term, ("nebytes", "f64")), env1)
            if ty == "str":
                if name == "len" and not args:
                    return k(V("(list_len %s)" % r.term, T_USIZE), env1)
                if name == "as_str" and not args:
                    return k(r, env1)
                if name == "is_char_boundary" and len(args) == 1:
                    return self.tr_expr(args[0], env1, T_USIZE, ctl, lambda i, env2: k(
                        V("(str_is_char_boundary %s %s)" % (r.term, self.coerce(i, T_USIZE).term), "bool"), env2))
            if ty == "objstring":
                if name == "as_str" and not args:
                    return k(V("(snd %s)" % r.term, "str"), env1)
                if name == "len" and not args:
                    return k(V("(list_len (snd %s))" % r.term, T_USIZE), env1)
                if name == "is_char_boundary" and len(args) == 1:
                    return self.tr_expr(args[0], env1, T_USIZE, ctl, lambda i, env2: k(
                        V("(str_is_char_boundary (snd %s) %s)" % (r.term, self.coerce(i, T_USIZE).term), "bool"), env2))
            if isinstance(ty, tuple) and ty[0] == "list":
                if name == "len" and not args:
                    return k(V("(list_len %s)" % r.term, T_USIZE), env1)
            if isinstance(ty, tuple) and ty[0] == "opt" and not args:
                if name == "is_some":
                    return k(V("(match %s with Some _ => true | None => false end)" % r.term, "bool"), env1)
                if name == "is_none":
                    return k(V("(match %s with Some _ => false | None => true end)" % r.term, "bool"), env1)
                if name == "unwrap_or_default" and is_int(ty[1]):
                    return k(V("(unwrap_or_default_Z %s)" % r.term, ty[1]), env1)
            unsupported("method `%s` on a value of type %r" % (name, ty))
        return self.tr_expr(recv, env, None, ctl, with_recv)

    def int_method(self, r, name, args, env, expect, ctl, k):
        ty = r.ty
        signed, n = ty[1], ty[2]

        def wrap(t):
            return "(wrap_s %d %s)" % (n, t) if signed else "(%s mod 2 ^ %d)" % (t, n)
        if name in ("wrapping_add", "wrapping_sub", "wrapping_mul") and len(args) == 1:
            sym = {"wrapping_add": "+", "wrapping_sub": "-", "wrapping_mul": "*"}[name]

            def done(b, env1):
                x, y = r.term, self.coerce(b, ty).term
                if sym != "-":
                    x, y = canonical_order(x, y)
                return k(V(wrap("(%s %s %s)" % (x, sym, y)), ty), env1)
            return self.tr_expr(args[0], env, ty, ctl, done)
        if name in ("wrapping_shl", "wrapping_shr", "checked_shl", "checked_shr") and len(args) == 1:
            a0 = args[0]
            while a0[0] == "paren":
                a0 = a0[1]

            def with_amount(b, env1):
                if not (is_int(b.ty) and not b.ty[1] and b.ty[2] == 32):
                    unsupported("shift amount of type %r" % (b.ty,))
                if name.startswith("wrapping"):
                    if a0[0] == "lit_int":
                        amt = str(a0[1] % n)
                    else:
                        amt = "(%s mod %d)" % (b.term, n)
                    if name == "wrapping_shl":
                        return k(V(wrap("(%s * 2 ^ %s)" % (r.term, amt)), ty), env1)
                    if signed:
                        return k(V("(Z.shiftr %s %s)" % (r.term, amt), ty), env1)
                    return k(V("(%s / 2 ^ %s)" % (r.term, amt), ty), env1)
                fn = ("s" if signed else "u") + "_" + name
                return k(V("(%s %d %s %s)" % (fn, n, r.term, b.term), ("opt", ty)), env1)
            return self.tr_expr(a0, env, T_U32, ctl, with_amount)
        if name == "to_ne_bytes" and not args:
            return k(V(r.term, ("nebytes", ty)), env)
        unsupported("integer method `%s`" % name)

    def tr_call(self, e, env, expect, ctl, k, hint):
        _, f, args = e
        if f[0] != "path":
            unsupported("call of a computed function")
        segs = f[1]
        last = segs[-1]
        if segs == ["Some"] and len(args) == 1:
            want = expect[1] if isinstance(expect, tuple) and expect[0] == "opt" else None
            return self.tr_expr(args[0], env, want, ctl, lambda v, env1: k(
                V("(Some %s)" % self.need_term(v), ("opt", v.ty)), env1))
        if segs in (["Ok"], ["Err"]) and len(args) == 1:
            rt = expect if isinstance(expect, tuple) and expect[0] in ("result", "result2") else self.fn_ret_ty
            if isinstance(rt, tuple) and rt[0] == "result2":
                if last == "Ok":
                    return self.tr_expr(args[0], env, rt[1], ctl, lambda v, env1: k(
                        V("(inl %s)" % self.coerce(v, rt[1]).term, rt), env1))
                return self.tr_expr(args[0], env, rt[2], ctl, lambda v, env1: k(
                    V("(inr %s)" % self.coerce(v, rt[2]).term, rt), env1))
            if not (isinstance(rt, tuple) and rt[0] == "result"):
                unsupported("`%s(..)` without a known Result type" % last)
            if last == "Ok":
                return self.tr_expr(args[0], env, rt[1], ctl, lambda v, env1: k(
                    V("(ResOk %s)" % self.coerce(v, rt[1]).term, rt), env1))
            return self.tr_expr(args[0], env, "error", ctl, lambda v, env1: k(
                V("(ResErr %s)" % self.coerce(v, "error").term, rt), env1))
        if len(segs) == 2 and segs[0] == "Value" and len(args) == 1 \
                and self.resolve(("tpath", "Value", [])) == "xvalue":
            ctor = {"Number": ("XNumber", "f64"), "Boolean": ("XBoolean", "bool"),
                    "ObjString": ("XObjString", "objstring")}
            if last not in ctor:
                unsupported("constructor Value::%s" % last)
            cn, aty = ctor[last]
            return self.tr_expr(args[0], env, aty, ctl, lambda v, env1: k(
                V("(%s %s)" % (cn, self.coerce(v, aty).term), "xvalue"), env1))
        if segs == ["Error", "with_message"] and len(args) == 2:
            kp = args[0]
            if kp[0] != "path" or kp[1][0] != "ErrorKind":
                unsupported("Error::with_message with a computed kind")
            return self.tr_expr(args[1], env, "msg", ctl, lambda v, env1: k(
                V("(mk_error %s %s)" % (coq_string(kp[1][-1]), self.coerce(v, "msg").term), "error"), env1))
        if segs == ["String", "from"] and len(args) == 1:
            return self.tr_expr(args[0], env, "str", ctl, lambda v, env1: k(self.coerce(v, "str"), env1))
        if segs == ["Value", "Number"] and len(args) == 1:
            return self.tr_expr(args[0], env, "f64", ctl, lambda v, env1: k(
                V("(RNumber %s)" % self.coerce(v, "f64").term, "rvalue"), env1))
        if len(segs) == 2 and segs[1] == "from_ne_bytes" and len(args) == 1:
            def conv(v, env1):
                if not (isinstance(v.ty, tuple) and v.ty[0] == "nebytes"):
                    unsupported("from_ne_bytes of something that is not to_ne_bytes()")
                srct = v.ty[1]
                if segs[0] in INT_TYPES:
                    dst = T_int(segs[0])
                    if srct == "f64" and dst[2] == 64 and not dst[1]:
                        return k(V("(bits_of_f64 %s)" % v.term, dst), env1)
                    if is_int(srct) and srct[2] == dst[2]:
                        return k(self.cast(V(v.term, srct), dst), env1)
                if segs[0] == "f64" and is_int(srct) and srct[2] == 64 and not srct[1]:
                    return k(V("(f64_of_bits %s)" % v.term, "f64"), env1)
                unsupported("from_ne_bytes between %r and %s" % (srct, segs[0]))
            return self.tr_expr(args[0], env, None, ctl, conv)
        if segs == ["f64", "from_bits"] and len(args) == 1:
            return self.tr_expr(args[0], env, T_int("u64"), ctl, lambda v, env1: k(
                V("(f64_of_bits %s)" % self.coerce(v, T_int("u64")).term, "f64"), env1))
        # a translated free function (last path segment), or an associated function of the same impl
        cal = self.unit.fns.get((None, last))
        if cal is None and self.decl is not None and len(segs) == 2 and segs[0] in ("Self", self.decl.impl):
            cal = self.unit.fns.get((self.decl.impl, last))
        if cal is not None:
            return self.call_translated(cal, False, args, env, ctl, k, hint)
        unsupported("call of `%s`" % "::".join(segs))

    @staticmethod
    def need_term(v):
        if v.term is None:
            unsupported("a struct value is used as a plain value")
        return v.term

    def call_translated(self, cal, is_self, args, env, ctl, k, hint, recv=None):
        d = cal.decl
        if len(args) != len(d.params):
            unsupported("call of %s with %d arguments" % (cal.name, len(args)))
        if cal.whole is False:
            unsupported("call of a function of which only a fragment is translated")
        want = {}
        for (g, gt, origin), pty in zip(cal.params, cal.param_tys):
            if origin[0] == "leaf" and len(origin) == 2 and origin[1] != "self":
                want[origin[1]] = pty
        vals = {}
        if recv is not None:
            vals["self"] = recv

        def go(i, env1):
            if i == len(args):
                return fin(env1)
            pname = d.params[i][0][1]

            def got(v, env2):
                vals[pname] = v
                return go(i + 1, env2)
            return self.tr_expr(args[i], env1, want.get(pname), ctl, got)

        def fin(env1):
            actuals = []
            for (g, gt, origin), pty in zip(cal.params, cal.param_tys):
                o = origin[0]
                if o == "fuel":
                    self.need_fuel()
                    actuals.append("fuel")
                elif o == "cfg":
                    actuals.append(self.cfg_param(origin[1]))
                elif o == "constgen":
                    actuals.append(self.lookup(origin[1], env1).term)
                elif o == "extra":
                    self.extra_n += 1
                    actuals.append(self.reg_param("#extra." + origin[1], mangle(origin[1]), origin[2],
                                                  (5, self.extra_n), origin))
                elif o == "peek":
                    unsupported("callee reads the value stack")
                elif o == "abstract":
                    if not is_self:
                        unsupported("abstract parameter of a callee that is not a method of self")
                    actuals.append(self.reg_param("#abs." + origin[1], g, pty, (3, 999, g), origin))
                elif o in ("leaf", "shown"):
                    root, sub = origin[1], tuple(origin[2:])
                    if root == "self" and not is_self and "self" in vals and not sub:
                        actuals.append(self.coerce(vals["self"], pty).term if o == "leaf"
                                       else self.display(vals["self"]))
                        continue
                    if root == "self" and not is_self and "self" in vals and len(sub) == 1 and o == "leaf" \
                            and isinstance(vals["self"].ty, tuple) and vals["self"].ty[0] == "sval":
                        actuals.append(self.coerce(self.field_of(vals["self"], sub[0]), pty).term)
                        continue
                    if root != "self" and o == "shown" and not sub and getattr(vals[root], "shown", None):
                        actuals.append(self.display(vals[root]))
                        continue
                    if root == "self":
                        if not is_self:
                            unsupported("callee uses self")
                        path = ("self",) + sub
                    else:
                        v = vals[root]
                        if not sub and o == "leaf":
                            actuals.append(self.coerce(v, pty).term)
                            continue
                        if v.path is None:
                            unsupported("argument `%s` of %s must be a parameter or a field" % (root, cal.name))
                        path = tuple(v.path) + sub
                    actuals.append(self.leaf(path, pty) if o == "leaf" else self.shown(path))
                else:
                    unsupported("callee parameter of kind %s" % o)
            term = "(%s %s)" % (cal.name, " ".join(actuals)) if actuals else cal.name
            rts = cal.result_types()
            names = []
            rv = V("tt", "unit")
            if cal.ret_ty != "unit":
                t = self.tmp(hint)
                names.append(t)
                rv = V(t, cal.ret_ty)
            for p, t in cal.mutated:
                key = ".".join(p)
                self.check_captured(key, env1)
                names.append(self.leaf(p, t))
                if (p, t) not in [(a, b) for a, b in self.fn_mutated] and not any(a == p for a, _ in self.fn_mutated):
                    unsupported("callee writes `%s`, which the caller does not return" % key)
            if cal.pure and len(names) == 1 and cal.ret_ty != "unit":
                return k(V(term, cal.ret_ty), env1)
            pat = "_" if not names else names[0] if len(names) == 1 else "(" + ", ".join(names) + ")"
            return ("bind", pat, ("ret", term) if cal.pure else ("prim", term[1:-1] if actuals else term),
                    k(rv, env1))
        return go(0, env)

    def cfg_param(self, text):
        words = [w for w in re.findall(r"[A-Za-z0-9_]+", text)]
        g = "cfg_" + "_".join(words)
        key = "#cfg." + text
        if key not in self.params:
            n = len([1 for kx in self.params if kx.startswith("#cfg.")])
            self.reg_param(key, g, "bool", (1, n), ("cfg", text))
        return self.params[key][0]

    def tr_macro(self, e, env, expect, ctl, k):
        _, name, lo, hi, line = e
        toks = self.decl.toks
        if name == "cfg":
            text = " ".join(t.text for t in toks[lo:hi])
            return k(V(self.cfg_param(text), "bool"), env)
        if name in ("panic", "unreachable"):
            msg = ""
            if hi > lo and toks[lo].kind == "str":
                msg = unescape_str(toks[lo].text[1:-1], toks[lo])
                if hi > lo + 1:
                    msg = msg          # arguments of the message are not rendered
            return ("fail", "(ExplicitPanic %s)" % coq_string(msg))
        if name == "format":
            return self.tr_format_args(toks, lo, hi, line, env, ctl, k)
        if name == "error" and self.cfg.get("display"):
            p0 = Parser(toks, lo, hi)
            kp = p0.parse_expr()
            if kp[0] != "path" or kp[1][0] != "ErrorKind" or not p0.at(","):
                unsupported("error!(..) of an unknown shape (line %d)" % line)
            p0.next()
            return self.tr_format_args(toks, p0.i, hi, line, env, ctl, lambda m, env1: k(
                V("(mk_error %s %s)" % (coq_string(kp[1][-1]), m.term), "error"), env1))
        if name == "error":
            p = Parser(toks, lo, hi)
            parts = []
            while not p.done():
                parts.append(p.parse_expr())
                if p.at(","):
                    p.next()
            if len(parts) < 2 or parts[0][0] != "path" or parts[0][1][0] != "ErrorKind" or parts[1][0] != "lit_str":
                unsupported("error!(..) of an unknown shape (line %d)" % line)
            kind = parts[0][1][-1]
            fmt = parts[1][1]
            rendered = []

            def go(i, env1):
                if i == len(parts):
                    return k(V("(mk_error %s (format %s [%s]))" % (coq_string(kind), coq_string(fmt),
                                                                  "; ".join(rendered)), "error"), env1)

                def got(v, env2):
                    if v.ty == "msg":
                        rendered.append(v.term)
                    elif v.ty == "rvalue" and getattr(v, "path", None):
                        rendered.append(self.shown(tuple(v.path)))
                    else:
                        unsupported("Display of a value of type %r in error!(..)" % (v.ty,))
                    return go(i + 1, env2)
                return self.tr_expr(parts[i], env1, None, ctl, got)
            return go(2, env)
        unsupported("macro `%s!`" % name)

    def tr_struct(self, e, env, expect, ctl, k):
        _, segs, fields = e
        sname = segs[-1]
        if sname == "Self":
            sname = self.self_struct
        kept = getattr(self, "struct_kept", {}).get(sname)
        if kept is None:
            sv = self.as_value_type(("struct", sname))
            given = dict(fields)
            if sorted(given) != sorted(n for n, _ in sv[2]):
                unsupported("struct literal `%s` does not list every field" % sname)
            got = {}
            order = [n for n, _ in fields]
            ftys = dict(sv[2])

            def go_sv(i, env1):
                if i == len(order):
                    items = [got[n] for n, _ in sv[2]]
                    return k(V(items[0] if len(items) == 1 else "(" + ", ".join(items) + ")", sv), env1)
                n = order[i]

                def got_sv(v, env2):
                    got[n] = self.coerce(v, ftys[n]).term
                    return go_sv(i + 1, env2)
                return self.tr_expr(given[n], env1, ftys[n], ctl, got_sv)
            return go_sv(0, env)
        given = dict(fields)
        decl_fields = self.src.structs()[sname]
        if sorted(given) != sorted(n for n, _ in decl_fields):
            unsupported("struct literal `%s` does not list every field" % sname)
        kept_names = [n for n, _ in kept]
        for n, _ in decl_fields:
            if n not in kept_names:
                fe = given[n]
                ok = fe[0] == "path" and len(fe[1]) == 1 and fe[1][0] in env and env[fe[1][0]][0] in ("param", "place")
                if not ok:
                    unsupported("field `%s` of `%s` has no modelled type and is not a parameter passed through" % (n, sname))
        vals = []
        # Rust evaluates the field expressions in the order written
        order = [n for n, _ in fields if n in kept_names]
        tys = dict(kept)
        got_vals = {}

        def go(i, env1):
            if i == len(order):
                items = [got_vals[n] for n in kept_names]
                if len(items) == 1:
                    return k(V(items[0], tys[kept_names[0]]), env1)
                return k(V("(" + ", ".join(items) + ")", ("tuple", [tys[n] for n in kept_names])), env1)
            n = order[i]

            def got(v, env2):
                got_vals[n] = self.coerce(v, tys[n]).term
                return go(i + 1, env2)
            free = n not in env1 and mangle(n) not in [p[0] for p in self.params.values()] \
                and mangle(n) not in got_vals.values()
            return self.tr_expr(given[n], env1, tys[n], ctl, got, hint=mangle(n) if free else None)
        return go(0, env)

    # ----- fragments
    def infer_let_type(self, tast, init):
        if tast is not None:
            return self.resolve(tast)
        e = init
        while e is not None and e[0] == "paren":
            e = e[1]
        if e is None:
            return None
        if e[0] == "mcall" and e[1] == ("path", ["self"], None):
            rt = self.src.fn_ret_type(self.decl.file, self.decl.impl, e[2])
            return self.resolve(rt) if rt is not None else None
        if e[0] == "call" and e[1][0] == "path" and e[1][1][-1] == "size_of":
            return T_USIZE
        if e[0] == "field":
            p = self.static_path(e)
            if p is not None and p[0] == "self":
                sname = self.self_struct
                ty = None
                for f in p[1:]:
                    _, t = self.field_index(sname, f)
                    ty = self.resolve(t)
                    sname = ty[1] if isinstance(ty, tuple) and ty[0] == "struct" else None
                return ty
        return None

    def translate_fragment(self, name, select):
        d = self.decl
        env = self.setup_params()
        p = Parser(d.toks, d.body[0], d.body[1] + 1)
        block = p.parse_block()
        stmts, tail = block[1], block[2]
        items = list(stmts) + ([("expr", tail, 0)] if tail is not None else [])
        for st in stmts:
            if st[0] == "let" and st[1][0] == "p_id":
                try:
                    ty = self.infer_let_type(st[2], st[3])
                except Unsupported:
                    ty = None
                if ty is not None and not (isinstance(ty, tuple) and ty[0] == "struct"):
                    self.free_lets[st[1][1]] = ty
        kind = select[0]
        if kind == "if_cond":
            ifs = [st[1] for st in items if st[0] == "expr" and st[1][0] == "if" and st[1][1][0] != "let"]
            if select[1] >= len(ifs):
                unsupported("the function has no top-level `if` number %d" % select[1])
            body = ("block", [], ifs[select[1]][1])
            return self.translate_body(name, body, env, "bool")
        if kind == "let_init":
            lets = [st for st in stmts if st[0] == "let" and st[1] == ("p_id", select[1], False)]
            if len(lets) != 1:
                unsupported("the function has no unique top-level `let %s`" % select[1])
            self.free_lets.pop(select[1], None)
            ty = self.infer_let_type(lets[0][2], None)
            if ty is None:
                ty = self.resolve(select[2]) if len(select) > 2 else None
            if ty is None:
                unsupported("type of `let %s` unknown" % select[1])
            body = ("block", [], lets[0][3])
            return self.translate_body(name, body, env, ty)
        if kind == "stmts":
            paths = [tuple(x.split(".")) for x in select[1].get("assign", [])]
            calls = select[1].get("calls", [])

            def wanted(st):
                def pred(n):
                    if n[0] == "assign":
                        return self.static_path(n[2]) in paths
                    if n[0] == "mcall" and n[1] == ("path", ["self"], None):
                        return n[2] in calls
                    return False
                return ast_any(st, pred)
            chosen = [st for st in items if wanted(st)]
            if not chosen:
                unsupported("no statement of the function assigns %s" % ", ".join(select[1].get("assign", [])))
            for st in chosen:
                if st[0] == "let":
                    unsupported("the selected statement is a `let`")
            for st in chosen:
                for n in list(self.free_lets):
                    pass
            body = ("block", chosen, None)
            return self.translate_body(name, body, env, "unit")
        unsupported("selector %r" % (select,))


def pat_names(pat):
    k = pat[0]
    if k == "p_id":
        return [pat[1]]
    if k == "p_ref":
        return pat_names(pat[1])
    if k in ("p_tuple",):
        return [n for s in pat[1] for n in pat_names(s)]
    if k == "p_ts":
        return [n for s in pat[2] for n in pat_names(s)]
    return []


# =========================================================================================
# 6. driver: a list of requests -> the text of one generated file
# =========================================================================================

HEADER = """(* GENERATED by translator/rust2gallina.py from /repo/yarel/src (%s) - do not edit.
   Every definition is the translation of the CURRENT text of one Rust function (or of the named fragment of
   it); vocabulary: YV.R2G.  Scheme and trusted-base statement: notes/R2G.md. *)
From Coq Require Import ZArith List Bool String.
From Coq Require Import Strings.Byte Floats.SpecFloat.
From YV Require Import Num Utf8 R2G.
Import ListNotations.
Open Scope bool_scope.
Open Scope Z_scope.
"""


def translate_group(src, requests, man, ext=False):
    """requests: list of dicts (name, file, impl, fn, select, types, params, abstract).
    Returns the Coq text of the group; fills man[name] = {...}."""
    unit = Unit(src)
    defs = []
    files = []
    for rq in requests:
        name = rq["name"]
        entry = {"source": "%s: %s%s" % (rq["file"], (rq["impl"] + "::") if rq.get("impl") else "", rq["fn"]),
                 "select": repr(rq.get("select")) if rq.get("select") else "whole function"}
        if rq["file"] not in files:
            files.append(rq["file"])
        n_consts = len(unit.consts)
        try:
            decl = src.find_fn(rq["file"], rq.get("impl"), rq["fn"])
            cx = Cx(unit, decl, rq)
            if rq.get("select"):
                out = cx.translate_fragment(name, rq["select"])
                out.whole = False
            else:
                out = cx.translate_whole(name)
                out.whole = True
            if out.whole or rq.get("callable"):
                unit.fns[(rq.get("impl"), rq["fn"])] = out
                out.whole = True
            unit.by_name[name] = out
            for cn, cty, cterm in unit.consts[n_consts:]:
                defs.append("Definition %s : %s := %s." % (cn, cty, cterm))
            src_line = decl.toks[decl.body[0]].line
            # (the line number goes to the manifest only: the generated text must not change when lines shift)
            defs.append("(* %s%s *)\n%s" % (entry["source"],
                                            (" - fragment " + entry["select"]) if rq.get("select") else "",
                                            out.text()))
            if out.cfgs:
                defs.append("Definition %s_cfgs : list string := [%s]." % (
                    name, "; ".join(coq_string(c) for c in out.cfgs)))
            peeks = [o[1] for _, _, o in out.params if o[0] == "peek"]
            if peeks:
                # which stack slots the parameters <vm>_peek_<k> stand for (the parameters are positional)
                defs.append("Definition %s_peeks : list Z := [%s]." % (name, "; ".join(str(x) for x in peeks)))
            entry.update({"status": "translated", "pure": out.pure,
                          "params": [g for g, _, _ in out.params], "result": out.result_gty(), "line": src_line})
        except Exception as ex:     # Unsupported, or an internal error of the translator: fail closed either way
            if not isinstance(ex, Unsupported):
                ex = Unsupported("internal error of the translator: %s: %s" % (type(ex).__name__, ex))
            del unit.consts[n_consts:]
            for cn in [c for c in unit.const_names if unit.const_names[c].term not in [x[0] for x in unit.consts]]:
                del unit.const_names[cn]
            msg = str(ex)
            defs.append("(* %s: NOT TRANSLATABLE: %s *)\nDefinition %s_untranslatable : False := I."
                        % (entry["source"], msg.replace("*)", "* )"), name))
            entry.update({"status": "untranslatable", "reason": msg})
        man[name] = entry
    header = HEADER % ", ".join(files)
    if ext:
        # which FIELD each flattened parameter stands for (the parameters are positional; reading another field of the
        # same type would otherwise give the same text up to the parameter's name)
        rows = []
        for rq in requests:
            out = unit.by_name.get(rq["name"])
            if out is None:
                continue
            pidx = {pt[1]: i for i, (pt, _) in enumerate(out.decl.params) if pt[0] == "p_id"}
            fl = [".".join((o[1] if o[1] == "self" else "arg%d" % pidx.get(o[1], 99),) + tuple(o[2:]))
                  for _, _, o in out.params if o[0] == "leaf" and len(o) > 2]
            if fl:
                rows.append("(%s, [%s])" % (coq_string(rq["name"]), "; ".join(coq_string(x) for x in fl)))
        if rows:
            defs.append("Definition r2g_fields : list (string * list string) :=\n  [%s]." % ";\n   ".join(rows))
    if ext:
        header = header.replace("From YV Require Import Num Utf8 R2G.", "From YV Require Import Num Utf8 R2G R2GStr.")
    return header + "\n" + "\n\n".join(defs) + "\n"
