"""A small token-level lexer for Rust source (comments, strings, chars, lifetimes, numbers,
identifiers, punctuation) plus helpers to find items and balanced groups.  Used by the
table extractors in translate.py; no regex-over-lines."""
import re

TOKEN_RE = re.compile(r"""
    (?P<ws>\s+)
  | (?P<lc>//[^\n]*)
  | (?P<str>b?"(?:\\.|[^"\\])*")
  | (?P<rstr>b?r(?P<h>\#*)"(?:.|\n)*?"(?P=h))
  | (?P<chr>b?'(?:\\(?:x[0-9a-fA-F]{2}|u\{[0-9a-fA-F_]+\}|.)|[^'\\\n])')
  | (?P<life>'[A-Za-z_][A-Za-z0-9_]*)
  | (?P<num>(?:0x[0-9a-fA-F_]+|0b[01_]+|0o[0-7_]+|[0-9][0-9_]*(?:\.[0-9][0-9_]*)?(?:[eE][+-]?[0-9_]+)?)(?:_?(?:u8|u16|u32|u64|u128|usize|i8|i16|i32|i64|i128|isize|f32|f64|64))?)
  | (?P<id>[A-Za-z_][A-Za-z0-9_]*!?)
  | (?P<op>::|->|=>|==|!=|<=|>=|&&|\|\||\+=|-=|\*=|/=|%=|\^=|&=|\|=|<<=|>>=|<<|>>|\.\.=|\.\.\.|\.\.|[-+*/%^&|!=<>@.,;:#$?~\[\](){}])
""", re.X)


class Tok:
    __slots__ = ("kind", "text", "line")

    def __init__(self, kind, text, line):
        self.kind, self.text, self.line = kind, text, line

    def __repr__(self):
        return "%s:%r@%d" % (self.kind, self.text, self.line)


def lex(src):
    toks = []
    i = 0
    line = 1
    n = len(src)
    while i < n:
        if src.startswith("/*", i):
            depth = 1
            j = i + 2
            while j < n and depth:
                if src.startswith("/*", j):
                    depth += 1
                    j += 2
                elif src.startswith("*/", j):
                    depth -= 1
                    j += 2
                else:
                    j += 1
            line += src.count("\n", i, j)
            i = j
            continue
        m = TOKEN_RE.match(src, i)
        if not m:
            raise ValueError("cannot lex at line %d: %r" % (line, src[i:i + 30]))
        kind = m.lastgroup
        if kind == "h":
            kind = "rstr"
        text = m.group(0)
        if kind not in ("ws", "lc"):
            toks.append(Tok(kind, text, line))
        line += text.count("\n")
        i = m.end()
    return toks


OPEN = {"(": ")", "[": "]", "{": "}"}


def match_group(toks, i):
    """toks[i] is an opening bracket; returns index of its closing bracket."""
    depth = 0
    o = toks[i].text
    c = OPEN[o]
    j = i
    while j < len(toks):
        t = toks[j].text
        if toks[j].kind == "op":
            if t == o:
                depth += 1
            elif t == c:
                depth -= 1
                if depth == 0:
                    return j
        j += 1
    raise ValueError("unbalanced group from line %d" % toks[i].line)


def find_seq(toks, texts, start=0, end=None):
    """index of the first occurrence of the token-text sequence, or -1"""
    end = len(toks) if end is None else end
    k = len(texts)
    for i in range(start, end - k + 1):
        if all(toks[i + j].text == texts[j] for j in range(k)):
            return i
    return -1


def find_all_seq(toks, texts, start=0, end=None):
    res = []
    i = start
    while True:
        i = find_seq(toks, texts, i, end)
        if i < 0:
            return res
        res.append(i)
        i += 1


def body_after(toks, i):
    """first `{` at or after i and its matching `}`: returns (open_idx, close_idx)"""
    j = i
    while toks[j].text != "{":
        j += 1
    return j, match_group(toks, j)


def split_top(toks, lo, hi, sep=","):
    """splits toks[lo:hi] at top-level separators; returns list of (lo, hi) ranges"""
    parts = []
    depth = 0
    start = lo
    for j in range(lo, hi):
        t = toks[j]
        if t.kind == "op":
            if t.text in OPEN:
                depth += 1
            elif t.text in (")", "]", "}"):
                depth -= 1
            elif t.text == sep and depth == 0:
                parts.append((start, j))
                start = j + 1
    if start < hi:
        parts.append((start, hi))
    return parts


def text_of(toks, lo, hi):
    return " ".join(t.text for t in toks[lo:hi])
