#!/usr/bin/env python3
"""C01: regenerates coq/gen/GcTables.v (holds_gen / marks_gen / blackens_black_gen / blackens_mark_gen)
from the CURRENT struct definitions and `impl GcManaged for T` bodies of object.rs, value.rs, stack.rs,
chunk.rs, memory.rs (token level, rustlex).

Fail-closed rules:
  * a pointer-carrying field of a managed struct that is not in FIELD_ROLES        -> `gen_unknown` entry
  * a managed type (Value variant) that is not in KINDS                            -> `gen_unknown` entry
  * a `mark`/`blacken` body with a statement of unrecognised shape                 -> `gen_unknown` entry and
    NOTHING of that type counts as traced (so `tables_cover` also fails, naming the roles)
  * `Value::mark/blacken` not forwarding some Gc-carrying variant                  -> `gen_unknown` entry
`gen_unknown = []` is the obligation C01_translator_complete of props/C01.v.

Stand-alone use (scratch worktrees):  translate_c01.py --repo /tmp/wt [--out FILE]"""
import os
import sys

sys.path.insert(0, os.path.dirname(os.path.abspath(__file__)))
from rustlex import lex, match_group, body_after  # noqa

FILES = ["object.rs", "value.rs", "stack.rs", "chunk.rs", "memory.rs"]

# managed Rust type -> kinds of Heap.v (one GcBox<T> type each)
KINDS = {
    "ObjString": ["KString"], "ObjStringIter": ["KStringIter"], "ObjUpvalue": ["KUpvalue"],
    "ObjFunction": ["KFunction"], "ObjNative": ["KNative"], "ObjClosure": ["KClosure"],
    "ObjClass": ["KClass"], "ObjInstance": ["KInstance"], "ObjBoundMethod": ["KBoundMethod", "KBoundNative"],
    "ObjVec": ["KVec"], "ObjVecIter": ["KVecIter"], "ObjTuple": ["KTuple"], "ObjTupleIter": ["KTupleIter"],
    "ObjRange": ["KRange"], "ObjRangeIter": ["KRangeIter"], "ObjHashMap": ["KHashMap"],
    "ObjModule": ["KModule"], "ObjFiber": ["KFiber"], "Chunk": ["KChunk"],
}
ALL_KINDS = ["KString", "KStringIter", "KUpvalue", "KFunction", "KNative", "KClosure", "KClass", "KInstance",
             "KBoundMethod", "KBoundNative", "KVec", "KVecIter", "KTuple", "KTupleIter", "KRange", "KRangeIter",
             "KHashMap", "KModule", "KFiber", "KChunk"]
# managed types that are not Value variants (reached through typed Gc fields only)
EXTRA_MANAGED = ["ObjUpvalue", "Chunk"]

# (struct, field) -> roles.  "elem": the Gc/Value (or each element of a Vec/Stack/Option of them);
# "key"/"value": the two sides of a HashMap; "variant:<V>": payload of an enum variant;
# "via:<Struct>": elements are structs of that (unmanaged) type, whose own fields are looked up here.
FIELD_ROLES = {
    ("ObjString", "class"): {"elem": "RClass"},
    ("ObjStringIter", "class"): {"elem": "RClass"},
    ("ObjStringIter", "iterable"): {"elem": "RIterable"},
    ("ObjUpvalue", "data"): {"variant:Closed": "RClosedValue", "variant:Open": "ROpenSlot"},
    ("ObjUpvalue", "next"): {"elem": "RNext"},
    # while the state is Open(raw ptr), `owner` is the fiber whose stack the raw pointer points into (set by
    # ObjUpvalue::new_in_fiber in vm.rs capture_upvalue, cleared by close()): the traced form of role ROpenSlot
    ("ObjUpvalue", "owner"): {"elem": "ROpenSlot"},
    ("ObjFunction", "chunk"): {"elem": "RChunk"},
    ("ObjFunction", "name"): {"elem": "RName"},
    ("ObjFunction", "module_path"): {"elem": "RModulePath"},
    ("ObjNative", "name"): {"elem": "RName"},
    ("ObjClosure", "function"): {"elem": "RFunction"},
    ("ObjClosure", "upvalues"): {"elem": "RUpvalue"},
    ("ObjClosure", "module"): {"elem": "RModule"},
    ("ObjClass", "name"): {"elem": "RName"},
    ("ObjClass", "metaclass"): {"elem": "RMetaclass"},
    ("ObjClass", "superclass"): {"elem": "RSuperclass"},
    ("ObjClass", "methods"): {"key": "RMethodName", "value": "RMethod"},
    ("ObjInstance", "class"): {"elem": "RClass"},
    ("ObjInstance", "fields"): {"key": "RFieldName", "value": "RField"},
    ("ObjBoundMethod", "receiver"): {"elem": "RReceiver"},
    ("ObjBoundMethod", "method"): {"elem": "RBoundFn"},
    ("ObjVec", "class"): {"elem": "RClass"},
    ("ObjVec", "elements"): {"elem": "RElem"},
    ("ObjVecIter", "class"): {"elem": "RClass"},
    ("ObjVecIter", "iterable"): {"elem": "RIterable"},
    ("ObjTuple", "class"): {"elem": "RClass"},
    ("ObjTuple", "elements"): {"elem": "RElem"},
    ("ObjTupleIter", "class"): {"elem": "RClass"},
    ("ObjTupleIter", "iterable"): {"elem": "RIterable"},
    ("ObjRange", "class"): {"elem": "RClass"},
    ("ObjRangeIter", "class"): {"elem": "RClass"},
    ("ObjRangeIter", "iterable"): {"elem": "RIterable"},
    ("ObjHashMap", "class"): {"elem": "RClass"},
    ("ObjHashMap", "elements"): {"key": "RKey", "value": "RValue"},
    ("ObjModule", "class"): {"elem": "RClass"},
    ("ObjModule", "path"): {"elem": "RPath"},
    ("ObjModule", "attributes"): {"key": "RAttrName", "value": "RAttr"},
    ("ObjFiber", "class"): {"elem": "RClass"},
    ("ObjFiber", "caller"): {"elem": "RCaller"},
    ("ObjFiber", "stack"): {"elem": "RStack"},
    ("ObjFiber", "frames"): {"via:CallFrame": None},
    ("ObjFiber", "open_upvalues"): {"elem": "ROpenUpvalues"},
    ("ObjFiber", "return_value"): {"elem": "RReturnValue"},
    ("CallFrame", "closure"): {"elem": "RFrameClosure"},
    ("Chunk", "constant_map"): {"key": "RConstKey"},
    ("Chunk", "constants"): {"elem": "RConstant"},
}

POINTER_WORDS = {"Gc", "Root", "UniqueRoot"}


# ------------------------------------------------------------------------------------------
# type-level helpers (angle-bracket aware)

def split_angle(toks, lo, hi, sep=","):
    """split toks[lo:hi] at separators that are outside (), [], {} and <>"""
    parts, depth, start = [], 0, lo
    for j in range(lo, hi):
        t = toks[j]
        if t.kind != "op":
            continue
        if t.text in "([{<":
            depth += 1
        elif t.text in ")]}>":
            depth -= 1
        elif t.text == ">>":
            depth -= 2
        elif t.text == "<<":
            depth += 2
        elif t.text == sep and depth == 0:
            parts.append((start, j))
            start = j + 1
    if start < hi:
        parts.append((start, hi))
    return parts


def texts(toks, lo, hi):
    """token texts with `>>` split into two `>`"""
    out = []
    for t in toks[lo:hi]:
        if t.kind == "op" and t.text == ">>":
            out += [">", ">"]
        else:
            out.append(t.text)
    return out


def generic_args(ty):
    """ty = list of token texts `Head < A , B > ...`; returns (head, [arg token lists])"""
    if not ty:
        return None, []
    # skip a path prefix a::b::Head
    i = 0
    while i + 2 < len(ty) and ty[i + 1] == "::":
        i += 2
    head = ty[i]
    if i + 1 >= len(ty) or ty[i + 1] != "<":
        return head, []
    depth, args, cur = 0, [], []
    for t in ty[i + 1:]:
        if t == "<":
            depth += 1
            if depth == 1:
                continue
        elif t == ">":
            depth -= 1
            if depth == 0:
                args.append(cur)
                break
        elif t == "," and depth == 1:
            args.append(cur)
            cur = []
            continue
        cur.append(t)
    return head, args


class Src:
    def __init__(self, repo):
        self.toks = {}
        for f in FILES:
            with open(os.path.join(repo, "yarel", "src", f)) as fh:
                self.toks[f] = lex(fh.read())
        self.structs = {}      # name -> [(field, type texts)]
        self.enums = {}        # name -> [(variant, payload type texts | None)]
        self.aliases = {}      # type alias -> type texts
        self.impls = {}        # head -> {"mark": (file, lo, hi), "blacken": ...}
        self.where = {}
        for f in FILES:
            self._scan(f)

    def _scan(self, f):
        toks = self.toks[f]
        n = len(toks)
        i = 0
        depth_verif = None
        while i < n:
            t = toks[i]
            # skip the hook module `pub mod verif { ... }` (instrumentation, feature verif_hooks)
            if t.text == "mod" and i + 2 < n and toks[i + 1].text.startswith("verif") and toks[i + 2].text == "{":
                i = match_group(toks, i + 2) + 1
                continue
            if t.text == "struct" and i + 1 < n and toks[i + 1].kind == "id":
                name = toks[i + 1].text
                j = i + 2
                while toks[j].text not in ("{", ";", "("):
                    j += 1
                if toks[j].text == "{":
                    c = match_group(toks, j)
                    fields = []
                    for lo, hi in split_angle(toks, j + 1, c):
                        k = lo
                        while k < hi and toks[k].text == "#":
                            k = match_group(toks, k + 1) + 1
                        if k < hi and toks[k].text == "pub":
                            k += 1
                            if toks[k].text == "(":
                                k = match_group(toks, k) + 1
                        if k + 1 < hi and toks[k].kind == "id" and toks[k + 1].text == ":":
                            fields.append((toks[k].text, texts(toks, k + 2, hi)))
                    self.structs[name] = fields
                    self.where[name] = "%s:%d" % (f, t.line)
                    i = c + 1
                    continue
            if t.text == "enum" and i + 1 < n and toks[i + 1].kind == "id":
                name = toks[i + 1].text
                o, c = body_after(toks, i)
                vs = []
                for lo, hi in split_angle(toks, o + 1, c):
                    k = lo
                    while k < hi and toks[k].text == "#":
                        k = match_group(toks, k + 1) + 1
                    if k < hi and toks[k].kind == "id":
                        payload = None
                        if k + 1 < hi and toks[k + 1].text == "(":
                            e = match_group(toks, k + 1)
                            payload = texts(toks, k + 2, e)
                        vs.append((toks[k].text, payload))
                self.enums[name] = vs
                self.where[name] = "%s:%d" % (f, t.line)
                i = c + 1
                continue
            if t.text == "type" and i + 2 < n and toks[i + 1].kind == "id" and toks[i + 2].text == "=":
                j = i + 3
                while toks[j].text != ";":
                    j += 1
                self.aliases[toks[i + 1].text] = texts(toks, i + 3, j)
                i = j + 1
                continue
            if t.text == "impl":
                o, c = body_after(toks, i)
                hdr = texts(toks, i + 1, o)
                # the trait right before the top-level `for` must be GcManaged
                fi = [x for x in range(1, len(hdr)) if hdr[x] == "for" and hdr[x - 1] == "GcManaged"]
                if fi:
                    ty = hdr[fi[0] + 1:]
                    if "where" in ty:
                        ty = ty[:ty.index("where")]
                    head = "&[]" if ty[:2] == ["&", "["] else generic_args(ty)[0]
                    fns = {}
                    j = o + 1
                    while j < c:
                        if toks[j].text == "fn" and toks[j + 1].text in ("mark", "blacken"):
                            bo, bc = body_after(toks, j)
                            fns[toks[j + 1].text] = (f, bo + 1, bc)
                            j = bc + 1
                        else:
                            j += 1
                    self.impls[head] = fns
                    self.where["impl " + head] = "%s:%d" % (f, t.line)
                i = c + 1
                continue
            i += 1

    # ---- which types carry managed pointers ----
    def carriers(self):
        car = set(POINTER_WORDS)
        changed = True
        while changed:
            changed = False
            for name, fields in self.structs.items():
                if name in car or name in ("GcBox", "Heap"):
                    continue
                if any(self.mentions(ty, car) for _, ty in fields):
                    car.add(name)
                    changed = True
            for name, vs in self.enums.items():
                if name in car:
                    continue
                if any(p and self.mentions(p, car) for _, p in vs):
                    car.add(name)
                    changed = True
            for name, ty in self.aliases.items():
                if name not in car and ty[:1] != ["fn"] and self.mentions(ty, car):
                    car.add(name)
                    changed = True
        return car

    @staticmethod
    def mentions(ty, car):
        return any(t in car for t in ty)


# ------------------------------------------------------------------------------------------
# bodies of mark / blacken

class Shape(Exception):
    pass


def parse_body(toks, lo, hi):
    """returns a list of statements:
         ("field", F, op)                      self.F.op();  |  if let Some(x) = self.F[.as_ref()] { x.op(); }
         ("match", F, {Variant: op|None|("block", stmts)})
                                               match self.F { E::V(v) => v.op(), E::W(_) => {}, E::U(_) => { stmts } }
         ("selfmatch", {Variant: op}, has_wildcard)
         ("forward", op)                       self.borrow().op(); / self.gc_box().op();
         ("loop", what, {var_role: op})        for … in self[.values()/.keys()/…] { v.op(); }
       raises Shape on anything else"""
    T = [t.text for t in toks[lo:hi]]
    out = []
    i = 0
    n = len(T)

    def opname(s):
        if s not in ("mark", "blacken"):
            raise Shape("call of `%s`" % s)
        return s

    while i < n:
        if T[i:i + 2] == ["self", "."] and i + 7 < n + 1 and T[i + 3:i + 4] == ["."] and T[i + 5:i + 8] == ["(", ")", ";"]:
            out.append(("field", T[i + 2], opname(T[i + 4])))
            i += 8
            continue
        if T[i:i + 5] == ["self", ".", "borrow", "(", ")"] or T[i:i + 5] == ["self", ".", "gc_box", "(", ")"]:
            if T[i + 5] == "." and T[i + 7:i + 10] == ["(", ")", ";"]:
                out.append(("forward", opname(T[i + 6])))
                i += 10
                continue
            raise Shape("forwarding statement")
        if T[i:i + 4] == ["if", "let", "Some", "("]:
            j = i + 4
            if T[j] == "&":
                j += 1
            var = T[j]
            if T[j + 1:j + 3] != [")", "="]:
                raise Shape("if-let pattern")
            j += 3
            if T[j] == "&":
                j += 1
            if T[j:j + 2] != ["self", "."]:
                raise Shape("if-let scrutinee")
            fld = T[j + 2]
            j += 3
            if T[j:j + 4] == [".", "as_ref", "(", ")"]:
                j += 4
            if T[j] != "{":
                raise Shape("if-let scrutinee")
            if T[j + 1] != var or T[j + 2] != "." or T[j + 4:j + 8] != ["(", ")", ";", "}"]:
                raise Shape("if-let body")
            out.append(("field", fld, opname(T[j + 3])))
            i = j + 8
            continue
        if T[i] == "match":
            j = i + 1
            if T[j] == "&":
                j += 1
            if T[j] == "self" and T[j + 1] == ".":
                fld = T[j + 2]
                j += 3
            elif T[j] == "self" or T[j:j + 2] == ["*", "self"]:
                fld = None
                j += 1 if T[j] == "self" else 2
            else:
                raise Shape("match scrutinee")
            if T[j] != "{":
                raise Shape("match scrutinee")
            # find the matching brace in token space
            close = match_group(toks, lo + j) - lo
            arms = {}
            wildcard = False
            k = j + 1
            while k < close:
                if T[k] == "_" and T[k + 1] == "=>":
                    wildcard = True
                    k += 2
                    if T[k:k + 2] == ["{", "}"]:
                        k += 2
                    else:
                        raise Shape("wildcard arm with a body")
                    if k < close and T[k] == ",":
                        k += 1
                    continue
                # Path :: Variant ( pat ) => body ,
                p = k
                while T[p + 1] == "::":
                    p += 2
                variant = T[p]
                if T[p + 1] != "(":
                    raise Shape("match arm pattern")
                q = p + 2
                if T[q] in ("ref", "&"):
                    q += 1
                var = T[q]
                if T[q + 1:q + 3] != [")", "=>"]:
                    raise Shape("match arm pattern")
                q += 3
                if T[q:q + 2] == ["{", "}"]:
                    arms[variant] = None
                    q += 2
                elif T[q] == var and T[q + 1] == "." and T[q + 3:q + 5] == ["(", ")"]:
                    arms[variant] = opname(T[q + 2])
                    q += 5
                elif T[q] == "{" and T[q + 1] == var and T[q + 2] == "." and T[q + 4:q + 8] == ["(", ")", ";", "}"]:
                    arms[variant] = opname(T[q + 3])
                    q += 8
                elif T[q] == "{":
                    # a block of ordinary statements on OTHER fields of self, executed only in this variant
                    # (ObjUpvalue: `Open(_) => { if let Some(owner) = self.owner.as_ref() { owner.mark(); } }`)
                    bclose = match_group(toks, lo + q) - lo
                    arms[variant] = ("block", parse_body(toks, lo + q + 1, lo + bclose))
                    q = bclose + 1
                else:
                    raise Shape("match arm body")
                if var == "_" and arms[variant] is not None and not isinstance(arms[variant], tuple):
                    raise Shape("match arm body")
                if q < close and T[q] == ",":
                    q += 1
                k = q
            out.append(("match", fld, arms) if fld else ("selfmatch", arms, wildcard))
            i = close + 1
            continue
        if T[i] == "for":
            j = i + 1
            if T[j] == "(":
                if T[j + 2] != "," or T[j + 4] != ")":
                    raise Shape("for pattern")
                pat = {T[j + 1]: "key", T[j + 3]: "value"}
                j += 5
                pair = True
            else:
                pat = {T[j]: None}
                j += 1
                pair = False
            if T[j] != "in":
                raise Shape("for pattern")
            j += 1
            k = j
            while T[k] != "{":
                k += 1
            src = T[j:k]
            idx_var = None
            if pair:
                if src not in (["self"], ["self", ".", "iter", "(", ")"], ["&", "self"], ["self", ".", "borrow", "(", ")", ".", "iter", "(", ")"]):
                    raise Shape("for source")
            else:
                v = list(pat)[0]
                if src in (["self"], ["&", "self"], ["self", ".", "iter", "(", ")"]):
                    pat[v] = "elem"
                elif src == ["self", ".", "values", "(", ")"]:
                    pat[v] = "value"
                elif src == ["self", ".", "keys", "(", ")"]:
                    pat[v] = "key"
                elif src == ["&", "self", ".", "stack", "[", "0", "..", "self", ".", "len", "(", ")", "]"]:
                    pat[v] = "elem"
                elif src == ["0", "..", "self", ".", "len", "(", ")"]:
                    idx_var = v
                    pat = {}
                else:
                    raise Shape("for source `%s`" % " ".join(src))
            close = match_group(toks, lo + k) - lo
            ops = {}
            q = k + 1
            while q < close:
                if idx_var and T[q:q + 5] == ["self", "[", idx_var, "]", "."] and T[q + 6:q + 9] == ["(", ")", ";"]:
                    ops["elem"] = opname(T[q + 5])
                    q += 9
                elif T[q] in pat and T[q + 1] == "." and T[q + 3:q + 6] == ["(", ")", ";"]:
                    ops[pat[T[q]]] = opname(T[q + 2])
                    q += 6
                else:
                    raise Shape("for body")
            out.append(("loop", ops))
            i = close + 1
            continue
        raise Shape("statement starting with `%s`" % " ".join(T[i:i + 6]))
    return out


# ------------------------------------------------------------------------------------------

def extract(repo):
    src = Src(repo)
    unknown = []
    car = src.carriers()

    def body(head, fn):
        """parsed statements of `impl GcManaged for head`'s fn, or None (+ unknown entry)"""
        imp = src.impls.get(head)
        if not imp or fn not in imp:
            unknown.append("no `impl GcManaged for %s` with fn %s" % (head, fn))
            return None
        f, lo, hi = imp[fn]
        try:
            return parse_body(src.toks[f], lo, hi)
        except (Shape, IndexError) as e:
            unknown.append("impl GcManaged for %s::%s: unrecognised shape (%s) at %s" % (head, fn, e, src.where.get("impl " + head)))
            return None

    # -- managed kinds: Value variants with a Gc payload + extras
    managed = []
    for v, payload in src.enums.get("Value", []):
        if payload and "Gc" in payload:
            # Gc<RefCell<ObjX<..>>> / Gc<ObjX>
            inner = [t for t in payload if t not in ("Gc", "RefCell", "<", ">")]
            name = inner[0] if inner else v
            if name not in managed:
                managed.append(name)
    if not managed:
        unknown.append("enum Value not found")
    for e in EXTRA_MANAGED:
        if e not in managed:
            managed.append(e)
    for m in managed:
        if m not in KINDS:
            unknown.append("managed type %s has no kind in Heap.v" % m)
        elif m not in src.structs:
            unknown.append("struct %s not found" % m)

    # -- Value::mark / blacken forward every Gc-carrying variant
    value_ops = {}
    for fn in ("mark", "blacken"):
        st = body("Value", fn)
        ok = st is not None and len(st) == 1 and st[0][0] == "selfmatch"
        if st is not None and not ok:
            unknown.append("Value::%s: unrecognised shape" % fn)
        if ok:
            arms = st[0][1]
            for v, payload in src.enums.get("Value", []):
                if payload and "Gc" in payload and arms.get(v) != fn:
                    unknown.append("Value::%s does not forward variant %s" % (fn, v))
                    ok = False
        value_ops[fn] = fn if ok else None

    # -- pointer wrappers Gc / Root / UniqueRoot / RefCell forward the call
    forward = {}
    for head in ("Gc", "RefCell"):
        for fn in ("mark", "blacken"):
            st = body(head, fn)
            good = st is not None and len(st) == 1 and st[0] == ("forward", fn)
            if st is not None and not good:
                unknown.append("%s::%s does not forward to the box" % (head, fn))
            forward[(head, fn)] = good

    # -- containers: which of elem / key / value get which op, per outer call
    containers = {}
    for head in ("Vec", "HashMap", "Stack"):
        for fn in ("mark", "blacken"):
            st = body(head, fn)
            ops = {}
            if st is not None:
                for s in st:
                    if s[0] != "loop":
                        unknown.append("%s::%s: unexpected statement" % (head, fn))
                        ops = {}
                        break
                    ops.update(s[1])
            containers[(head, fn)] = ops

    def resolve(ty):
        head, args = generic_args(ty)
        if head in src.aliases:
            return resolve(src.aliases[head])
        return head, args

    def leaf_op(ty, op):
        """op applied to a value of type ty that is a Gc<…> / Value / Option handled by the caller:
        returns the op reaching the box ('mark'/'blacken') or None"""
        head, args = resolve(ty)
        if head == "Gc":
            if not forward.get(("Gc", op)):
                return None
            # Gc<RefCell<T>>: GcBox<RefCell<T>>.data.op() -> RefCell forwards
            if args and args[0] and args[0][0] == "RefCell" and not forward.get(("RefCell", op)):
                return None
            return op
        if head == "Value":
            return value_ops.get(op)
        return None

    def field_roles(struct, field, ty, op, roles_out, seen_field):
        """op ('mark'|'blacken') is called on a field of type ty: adds (role, box_op) pairs"""
        spec = FIELD_ROLES.get((struct, field))
        if spec is None:
            return
        head, args = resolve(ty)
        if head == "RefCell" and args:
            if not forward.get(("RefCell", op)):
                return
            return field_roles(struct, field, args[0], op, roles_out, seen_field)
        if head == "Option" and args:
            return field_roles(struct, field, args[0], op, roles_out, seen_field)
        if head in ("Vec", "Stack") and args:
            eop = containers.get((head, op), {}).get("elem")
            if eop is None:
                return
            ehead, _ = resolve(args[0])
            if ("via:%s" % ehead) in spec:
                # elements are unmanaged structs with their own impl
                st = body(ehead, eop)
                for s in st or []:
                    if s[0] == "field":
                        fty = dict(src.structs.get(ehead, [])).get(s[1])
                        if fty is not None:
                            field_roles(ehead, s[1], fty, s[2], roles_out, seen_field)
                    else:
                        unknown.append("%s::%s: unexpected statement" % (ehead, eop))
                return
            bop = leaf_op(args[0], eop)
            if bop and "elem" in spec:
                roles_out.append((spec["elem"], bop))
            return
        if head == "HashMap" and len(args) >= 2:
            cops = containers.get(("HashMap", op), {})
            for side, aty in (("key", args[0]), ("value", args[1])):
                if side in cops and side in spec:
                    bop = leaf_op(aty, cops[side])
                    if bop:
                        roles_out.append((spec[side], bop))
            return
        bop = leaf_op(ty, op)
        if bop and "elem" in spec:
            roles_out.append((spec["elem"], bop))

    holds = {k: [] for k in ALL_KINDS}
    marks = {k: set() for k in ALL_KINDS}
    bb = {k: set() for k in ALL_KINDS}
    bm = {k: set() for k in ALL_KINDS}
    detail = {}

    def struct_holds(struct, out):
        for field, ty in src.structs.get(struct, []):
            if not Src.mentions(ty, car) and not (ty[:2] == ["*", "mut"] and "Value" in ty):
                continue
            spec = FIELD_ROLES.get((struct, field))
            if spec is None:
                unknown.append("unmapped pointer-carrying field %s.%s : %s (%s)" % (struct, field, " ".join(ty), src.where.get(struct)))
                continue
            head, args = resolve(ty)
            while head in ("RefCell", "Option") and args:
                head, args = resolve(args[0])
            for key, role in spec.items():
                if key.startswith("via:"):
                    struct_holds(key[4:], out)
                elif key.startswith("variant:"):
                    en = src.enums.get(head)
                    vn = key[8:]
                    if en is None or vn not in dict(en):
                        unknown.append("%s.%s: enum %s has no variant %s" % (struct, field, head, vn))
                    elif role not in out:
                        out.append(role)
                elif key in ("key", "value"):
                    if head != "HashMap":
                        unknown.append("%s.%s is no longer a HashMap" % (struct, field))
                    else:
                        aty = args[0] if key == "key" else args[1]
                        if Src.mentions(aty, car) and role not in out:
                            out.append(role)
                elif role not in out:
                    out.append(role)
            # a HashMap side / enum variant that carries pointers but has no role
            if head == "HashMap" and len(args) >= 2:
                for side, aty in (("key", args[0]), ("value", args[1])):
                    if Src.mentions(aty, car) and side not in spec:
                        unknown.append("unmapped %s side of %s.%s" % (side, struct, field))
            if head in src.enums and any(k.startswith("variant:") for k in spec):
                for vn, payload in src.enums[head]:
                    if payload and (Src.mentions(payload, car) or payload[:2] == ["*", "mut"]) and ("variant:" + vn) not in spec:
                        unknown.append("unmapped variant %s::%s held by %s.%s" % (head, vn, struct, field))

    for struct in managed:
        if struct not in KINDS or struct not in src.structs:
            continue
        hl = []
        struct_holds(struct, hl)
        traced = {"mark": [], "blacken": []}
        good = True
        for fn in ("mark", "blacken"):
            st = body(struct, fn)
            if st is None:
                good = False
                continue
            ftypes = dict(src.structs[struct])
            for s in st:
                if s[0] == "field" and s[1] in ftypes:
                    field_roles(struct, s[1], ftypes[s[1]], s[2], traced[fn], None)
                elif s[0] == "match" and s[1] in ftypes:
                    spec = FIELD_ROLES.get((struct, s[1]), {})
                    ehead, _ = resolve(ftypes[s[1]])
                    en = dict(src.enums.get(ehead, []))
                    for vn, op in s[2].items():
                        if isinstance(op, tuple):
                            for s2 in op[1]:
                                if s2[0] == "field" and s2[1] in ftypes:
                                    field_roles(struct, s2[1], ftypes[s2[1]], s2[2], traced[fn], None)
                                else:
                                    unknown.append("impl GcManaged for %s::%s: unexpected statement inside the arm for %s" % (struct, fn, vn))
                                    good = False
                        elif op and ("variant:" + vn) in spec and en.get(vn):
                            bop = leaf_op(en[vn], op)
                            if bop:
                                traced[fn].append((spec["variant:" + vn], bop))
                else:
                    unknown.append("impl GcManaged for %s::%s: statement on an unknown field (%s)" % (struct, fn, s[1] if len(s) > 1 else s[0]))
                    good = False
        for k in KINDS[struct]:
            holds[k] = list(hl)
            if good:
                for role, bop in traced["mark"]:
                    if bop == "mark":
                        marks[k].add(role)
                    else:
                        unknown.append("%s::mark calls blacken on %s" % (struct, role))
                for role, bop in traced["blacken"]:
                    (bb if bop == "blacken" else bm)[k].add(role)
        detail[struct] = {"holds": hl, "mark": sorted(set(r for r, _ in traced["mark"])),
                          "blacken": sorted("%s:%s" % (r, o) for r, o in set(traced["blacken"]))}
    return holds, marks, bb, bm, unknown, detail


def render(holds, marks, bb, bm, unknown):
    L = ["(* GENERATED by translator/translate_c01.py from object.rs, value.rs, stack.rs, chunk.rs, memory.rs",
         "   (struct definitions and `impl GcManaged for T` bodies) - do not edit *)",
         "From Coq Require Import List String Bool.", "From YV Require Import Heap Collect CollectShape.", "Import ListNotations.", ""]
    L.append("Definition holds_gen (k : kind) : list role :=\n  match k with")
    for k in ALL_KINDS:
        L.append("  | %s => [%s]" % (k, "; ".join(holds[k])))
    L.append("  end.\n")

    def table(name, tab):
        L.append("Definition %s (k : kind) (r : role) : bool :=\n  match k, r with" % name)
        for k in ALL_KINDS:
            if tab[k]:
                order = [r for r in holds[k] if r in tab[k]] + sorted(r for r in tab[k] if r not in holds[k])
                L.append("  | " + " | ".join("%s, %s" % (k, r) for r in order) + " => true")
        L.append("  | _, _ => false\n  end.\n")

    table("marks_gen", marks)
    table("blackens_black_gen", bb)
    table("blackens_mark_gen", bm)
    L.append("(* unmapped fields / impls of unrecognised shape: must be empty (C01_translator_complete) *)")
    L.append("Definition gen_unknown : list string := [%s]%%string." % "; ".join(
        '"%s"' % u.replace('"', "'") for u in unknown))
    return "\n".join(L) + "\n"


def alloc_sites(repo):
    """every function of vm.rs / core.rs that calls an allocating constructor (new_gc_obj_* / new_root_obj_* /
    Root::new / UniqueRoot::new), classified; the plug-in must have a mid-operation probe for each `runtime` site"""
    out = {}
    for f in ("vm.rs", "core.rs", "compiler.rs"):
        with open(os.path.join(repo, "yarel", "src", f)) as fh:
            toks = lex(fh.read())
        fns = []
        skip_until = -1
        for i, t in enumerate(toks):
            if t.text == "mod" and i + 2 < len(toks) and toks[i + 1].text.startswith("verif") and toks[i + 2].text == "{":
                skip_until = max(skip_until, match_group(toks, i + 2))
            if t.text == "fn" and i + 1 < len(toks) and toks[i + 1].kind == "id":
                j = i
                while toks[j].text not in ("{", ";"):
                    j += 1
                if toks[j].text == "{":
                    fns.append((toks[i + 1].text, j, match_group(toks, j), i < skip_until))
        for k, t in enumerate(toks):
            if t.kind != "id" or toks[k - 1].text == "fn":
                continue
            hit = t.text.startswith("new_gc_obj_") or t.text.startswith("new_root_obj_") or (
                t.text in ("Root", "UniqueRoot") and toks[k + 1].text == "::" and toks[k + 2].text == "new")
            if not hit:
                continue
            inner = [x for x in fns if x[1] < k < x[2]]
            if not inner:
                continue
            name, _, _, hook = inner[-1]
            if hook:
                cat = "hook"
            elif name.startswith("new_gc_obj_") or name.startswith("new_root_obj_") and not name.endswith("class"):
                cat = "constructor"
            elif name.endswith("_class") or name.endswith("_metaclass") or name in ("init_heap_allocated_data", "build_methods", "new_base_metaclass"):
                cat = "vm-init"
            elif name in ("execute", "global", "set_global", "define_native"):
                cat = "host-api"
            else:
                cat = "runtime"
            out["%s:%s" % (f, name)] = cat
    return out



# ------------------------------------------------------------------------------------------
# the collector ALGORITHM itself (round 7): bodies of GcBox::unmark/mark/blacken and of Heap::collect / mark_roots /
# trace_references / sweep in memory.rs -> `collector_shape_gen` (theories/CollectShape.v: record collector_shape), which
# props/C01.v compares with `collector_shape_ref`, the shape Collect.v models (side condition C01_collector_shape).
# Instrumentation is dropped first: an attribute `#[...]`, the statement following `#[cfg(feature = "verif_hooks")]`, and
# `if cfg!(feature = "debug_trace_gc") { ... }` blocks.  Closure parameter names and iter()/iter_mut() are normalised.
# ANYTHING else in these bodies - an early return, a depth / size guard, a wrapper around the recursive call, a bounded loop,
# a `.take(n)` - is an unrecognised statement: `gen_unknown` entry (C01_translator_complete) and a field of the shape that
# differs from the reference (C01_collector_shape).

COLLECTOR_FNS = {"GcBox": ["unmark", "mark", "blacken"], "Heap": ["collect", "mark_roots", "trace_references", "sweep"]}


def _impl_fns(toks, type_name, names):
    """bodies (token index ranges, exclusive of the braces) of the named fns of the INHERENT impl of type_name"""
    out = {}
    n = len(toks)
    i = 0
    while i < n:
        if toks[i].text == "mod" and i + 2 < n and toks[i + 1].text.startswith("verif") and toks[i + 2].text == "{":
            i = match_group(toks, i + 2) + 1
            continue
        if toks[i].text == "impl":
            o, c = body_after(toks, i)
            hdr = [t.text for t in toks[i + 1:o]]
            if "for" not in hdr and type_name in hdr:
                j = o + 1
                while j < c:
                    if toks[j].text == "fn" and toks[j + 1].text in names:
                        bo, bc = body_after(toks, j)
                        out[toks[j + 1].text] = (bo + 1, bc, toks[j].line)
                        j = bc + 1
                    elif toks[j].text == "{":
                        j = match_group(toks, j) + 1
                    else:
                        j += 1
            i = c + 1
            continue
        i += 1
    return out


def _strip_instrumentation(toks, lo, hi):
    """token texts of toks[lo:hi] without attributes, hook statements and debug_trace_gc blocks"""
    out = []
    i = lo
    while i < hi:
        t = toks[i]
        if t.text == "#" and i + 1 < hi and toks[i + 1].text == "[":
            e = match_group(toks, i + 1)
            attr = [x.text for x in toks[i + 2:e]]
            i = e + 1
            if attr[:1] == ["cfg"] and '"verif_hooks"' in attr:
                # drop the statement / expression statement that follows, up to its `;` at nesting depth 0
                depth = 0
                while i < hi:
                    x = toks[i].text
                    if x in "([{":
                        depth += 1
                    elif x in ")]}":
                        depth -= 1
                    i += 1
                    if x == ";" and depth == 0:
                        break
            continue
        if t.text == "if" and [x.text for x in toks[i + 1:i + 7]] == ["cfg!", "(", "feature", "=", '"debug_trace_gc"', ")"] and toks[i + 7].text == "{":
            i = match_group(toks, i + 7) + 1
            continue
        out.append(t.text)
        i += 1
    return out


def _normalise(T):
    """closure parameter names -> v_, iter_mut -> iter"""
    T = ["iter" if x == "iter_mut" else x for x in T]
    out = list(T)
    i = 0
    while i + 2 < len(out):
        if out[i] == "|" and out[i + 2] == "|" and out[i + 1].isidentifier():
            name = out[i + 1]
            # rename up to the end of the enclosing call (a closure never outlives its argument position here)
            depth = 0
            j = i + 3
            out[i + 1] = "v_"
            while j < len(out):
                if out[j] in "([{":
                    depth += 1
                elif out[j] in ")]}":
                    if depth == 0:
                        break
                    depth -= 1
                elif out[j] == name:
                    out[j] = "v_"
                j += 1
            i += 3
            continue
        i += 1
    return out


def collector_shape(repo):
    with open(os.path.join(repo, "yarel", "src", "memory.rs")) as fh:
        toks = lex(fh.read())
    unknown = []
    shape = {"unmark": "Grey", "mark": ("White", "White", False, True), "blacken": ("White", "White", False, True),
             "roots_unmark_all": False, "root_test_positive": False, "roots_call_mark": False,
             "trace_filter": "White", "trace_calls_blacken": False, "trace_until_no_grey": False,
             "sweep_retain": "White", "sweep_counts": "Black", "phases": []}
    fns = {}
    for ty, names in COLLECTOR_FNS.items():
        got = _impl_fns(toks, ty, names)
        for nm in names:
            if nm not in got:
                unknown.append("collector: fn %s::%s not found in memory.rs" % (ty, nm))
            else:
                fns[nm] = _normalise(_strip_instrumentation(toks, got[nm][0], got[nm][1]))
    cols = ("White", "Grey", "Black")

    def bad(fn, T, i):
        unknown.append("collector: %s has a statement of unrecognised shape: `%s`" % (fn, " ".join(T[i:i + 14])))

    # GcBox::unmark:  self.colour.set(Colour::X);
    T = fns.get("unmark")
    if T is not None:
        if len(T) == 11 and T[:8] == ["self", ".", "colour", ".", "set", "(", "Colour", "::"] and T[8] in cols and T[9:] == [")", ";"]:
            shape["unmark"] = T[8]
        else:
            bad("GcBox::unmark", T, 0)
    # GcBox::mark / blacken:  if self.colour.replace(Colour::X) == Colour::Y { return; }  self.data.OP();
    for fn in ("mark", "blacken"):
        T = fns.get(fn)
        if T is None:
            continue
        head = ["if", "self", ".", "colour", ".", "replace", "(", "Colour", "::"]
        ok = (len(T) >= 19 and T[:9] == head and T[9] in cols and T[10:14] == [")", "==", "Colour", "::"] and T[14] in cols
              and T[15:19] == ["{", "return", ";", "}"])
        if not ok:
            bad("GcBox::" + fn, T, 0)
            continue
        rest = T[19:]
        fwd = rest[:7] == ["self", ".", "data", ".", fn, "(", ")"] and rest[7:8] == [";"]
        guarded = not (fwd and len(rest) == 8)
        if guarded:
            bad("GcBox::" + fn, rest, 0 if not fwd else 8)
        shape[fn] = (T[14], T[9], fwd, guarded)
    # Heap::mark_roots
    T = fns.get("mark_roots")
    if T is not None:
        s1 = ["self", ".", "objects", ".", "iter", "(", ")", ".", "for_each", "(", "|", "v_", "|", "v_", ".", "unmark", "(", ")", ")", ";"]
        s2 = ["self", ".", "objects", ".", "iter", "(", ")", ".", "for_each", "(", "|", "v_", "|", "{",
              "if", "v_", ".", "num_roots", ".", "get", "(", ")", ">", "0", "{", "v_", ".", "mark", "(", ")", ";", "}", "}", ")", ";"]
        if T == s1 + s2:
            shape["roots_unmark_all"] = shape["root_test_positive"] = shape["roots_call_mark"] = True
        else:
            k = 0
            while k < min(len(T), len(s1 + s2)) and T[k] == (s1 + s2)[k]:
                k += 1
            shape["roots_unmark_all"] = T[:len(s1)] == s1
            bad("Heap::mark_roots", T, max(0, k - 4))
    # Heap::trace_references
    T = fns.get("trace_references")
    if T is not None:
        cnt = ["self", ".", "objects", ".", "iter", "(", ")", ".", "filter", "(", "|", "v_", "|", "v_", ".", "colour", ".", "get", "(", ")", "==", "Colour", "::", "C_", ")"]

        def with_col(seq, c):
            return [c if x == "C_" else x for x in seq]
        ci = 4 + cnt.index("C_")
        c = T[ci] if len(T) > ci and T[ci] in cols else None
        s1 = ["let", "mut", "num_greys", "="] + with_col(cnt, c or "?") + [".", "count", "(", ")", ";"]
        s2 = (["while", "num_greys", ">", "0", "{", "num_greys", "="] + with_col(cnt, c or "?") +
              [".", "map", "(", "|", "v_", "|", "v_", ".", "blacken", "(", ")", ")", ".", "count", "(", ")", ";", "}"])
        if c and T == s1 + s2:
            shape["trace_filter"] = c
            shape["trace_calls_blacken"] = shape["trace_until_no_grey"] = True
        else:
            k = 0
            while k < min(len(T), len(s1 + s2)) and T[k] == (s1 + s2)[k]:
                k += 1
            bad("Heap::trace_references", T, max(0, k - 4))
    # Heap::sweep: exactly one retain(|v| v.colour.get() == Colour::X) on self.objects, nothing else mutates self.objects
    T = fns.get("sweep")
    if T is not None:
        retain = ["self", ".", "objects", ".", "retain", "(", "|", "v_", "|", "v_", ".", "colour", ".", "get", "(", ")", "==", "Colour", "::"]
        hits = [i for i in range(len(T)) if T[i:i + len(retain)] == retain]
        uses = [i for i in range(len(T)) if T[i:i + 4] == ["self", ".", "objects", "."]]
        other = [i for i in uses if T[i + 4] not in ("iter", "retain")]
        if len(hits) == 1 and T[hits[0] + len(retain)] in cols and T[hits[0] + len(retain) + 1:hits[0] + len(retain) + 3] == [")", ";"] and not other \
                and "return" not in T and "take" not in T and "break" not in T:
            shape["sweep_retain"] = T[hits[0] + len(retain)]
        else:
            bad("Heap::sweep", T, (other or hits or [0])[0])
        flt = ["filter", "(", "|", "v_", "|", "v_", ".", "colour", ".", "get", "(", ")", "==", "Colour", "::"]
        fh = [i for i in range(len(T)) if T[i:i + len(flt)] == flt]
        if len(fh) == 1 and T[fh[0] + len(flt)] in cols:
            shape["sweep_counts"] = T[fh[0] + len(flt)]
    # Heap::collect: the three phases in order, each exactly once, no other call on self, no conditional around them
    T = fns.get("collect")
    if T is not None:
        calls = [T[i + 2] for i in range(len(T) - 3) if T[i:i + 2] == ["self", "."] and T[i + 3] == "("]
        shape["phases"] = [c for c in calls if c in ("mark_roots", "trace_references", "sweep")]
        depth = 0
        nested = []
        for i, x in enumerate(T):
            if x == "{":
                depth += 1
            elif x == "}":
                depth -= 1
            elif x == "self" and T[i + 1] == "." and i + 3 < len(T) and T[i + 3] == "(" and depth > 0:
                nested.append(T[i + 2])
        extra = [c for c in calls if c not in ("mark_roots", "trace_references", "sweep")]
        if extra or nested or "return" in T:
            bad("Heap::collect", T, 0)
            unknown[-1] += " (calls %s, conditional calls %s)" % (extra, nested)
    return shape, unknown


def render_shape(shape):
    def b(x):
        return "true" if x else "false"

    def boxfn(t):
        return "mkBoxFn %s %s %s %s" % (t[0], t[1], b(t[2]), b(t[3]))
    ph = {"mark_roots": "PMarkRoots", "trace_references": "PTrace", "sweep": "PSweep"}
    return ("(* the collector algorithm as read from memory.rs (GcBox::unmark/mark/blacken, Heap::collect/mark_roots/trace_references/sweep) *)\n"
            "Definition collector_shape_gen : collector_shape :=\n"
            "  mkCollectorShape %s (%s) (%s)\n    %s %s %s\n    %s %s %s\n    %s %s [%s].\n" % (
                shape["unmark"], boxfn(shape["mark"]), boxfn(shape["blacken"]),
                b(shape["roots_unmark_all"]), b(shape["root_test_positive"]), b(shape["roots_call_mark"]),
                shape["trace_filter"], b(shape["trace_calls_blacken"]), b(shape["trace_until_no_grey"]),
                shape["sweep_retain"], shape["sweep_counts"], "; ".join(ph[x] for x in shape["phases"])))


def gen_gctables(man):
    repo = os.environ.get("VERIF_REPO", "/repo")
    holds, marks, bb, bm, unknown, detail = extract(repo)
    shape, unknown2 = collector_shape(repo)
    unknown = unknown + unknown2
    man["gc_tables"] = {
        "collector_shape": {k: (list(v) if isinstance(v, tuple) else v) for k, v in shape.items()},
        "unknown": unknown, "per_type": detail,
        "marks": {k: sorted(v) for k, v in marks.items() if v},
        "blackens_mark": {k: sorted(v) for k, v in bm.items() if v},
        "holds": {k: v for k, v in holds.items()},
        "alloc_sites": alloc_sites(repo),
    }
    return render(holds, marks, bb, bm, unknown) + "\n" + render_shape(shape)


GENERATORS = {"GcTables.v": gen_gctables}

if __name__ == "__main__":
    import argparse
    import json
    ap = argparse.ArgumentParser()
    ap.add_argument("--repo", default=os.environ.get("VERIF_REPO", "/repo"))
    ap.add_argument("--out")
    a = ap.parse_args()
    os.environ["VERIF_REPO"] = a.repo
    m = {}
    txt = gen_gctables(m)
    if a.out:
        with open(a.out, "w") as fh:
            fh.write(txt)
        print(json.dumps(m["gc_tables"]["unknown"]))
    else:
        sys.stdout.write(txt)
