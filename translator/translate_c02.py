"""C02: the guard structure of every native of core.rs, read from the CURRENT sources at token level and
written to coq/gen/NativesSrc.v; props/C02.v compares it with the rows of YV.NativesModel.

One row per registered built-in:   (yarel-visible name, arity, receiver, key, arity_first)
  name         "Vec#push", "String.from", "Fiber.yield", "clock" - from the registration tables
               (build_methods arrays, ObjNative::new, vm.rs define_native), NOT the Rust fn name, so
               renaming a Rust function changes nothing;
  arity        the literal K of the first `check_num_args(num_args, K)` of the body, "-" when the body
               has none (clock, fiber_call, fiber_yield);
  receiver     the kind k of the first `.try_as_obj_<k>()` that is followed by `.expect(` ("-" = none);
  key          body calls validate_hash_map_key(..);
  arity_first  the arity check precedes the receiver `expect` (true when one of them is absent).
Also: the comparison operator of the end-of-iteration guard of every `Obj*Iter::next` in object.rs
(`if self.current >= elements.len()` / `if self.pos == self.iterable.len()`), VEC_ELEMS_MAX, the `arity > K` bound of fiber_init, and whether call_closure still compares the
frame count with common::FRAMES_MAX before pushing a frame.
Dropping a check_num_args, replacing ok_or_else by expect on an argument, or removing the key
validation flips a row; reformatting, renaming locals or Rust functions does not."""
import os
import sys

sys.path.insert(0, os.path.dirname(os.path.abspath(__file__)))
from rustlex import lex, match_group, find_seq, find_all_seq, body_after  # noqa

REPO = os.environ.get("VERIF_REPO", "/repo")
SRC = os.path.join(REPO, "yarel", "src")


def toks_of(name):
    with open(os.path.join(SRC, name)) as fh:
        return lex(fh.read())


def unq(t):
    return t[1:-1]


def fn_bodies(toks):
    """name -> (open, close) of every `fn name(..) {..}`"""
    res = {}
    for i in find_all_seq(toks, ["fn"]):
        if i + 1 < len(toks) and toks[i + 1].kind == "id":
            try:
                o, c = body_after(toks, i)
            except Exception:
                continue
            res.setdefault(toks[i + 1].text, (o, c))
    return res


def native_row(toks, o, c):
    arity = "-"
    pos_arity = None
    for i in find_all_seq(toks, ["check_num_args", "("], o, c):
        e = match_group(toks, i + 1)
        args = [t for t in toks[i + 2:e]]
        # (num_args, K)
        if len(args) == 3 and args[1].text == "," and args[2].kind == "num":
            arity = str(int(args[2].text.replace("_", "")))
        else:
            arity = "?"
        pos_arity = i
        break
    recv = "-"
    pos_recv = None
    for i in range(o, c):
        t = toks[i].text
        if t.startswith("try_as_obj_") and toks[i + 1].text == "(" and toks[i + 2].text == ")" \
                and toks[i + 3].text == "." and toks[i + 4].text == "expect":
            recv = t[len("try_as_obj_"):]
            pos_recv = i
            break
    key = find_seq(toks, ["validate_hash_map_key", "("], o, c) >= 0
    first = True if pos_arity is None or pos_recv is None else pos_arity < pos_recv
    return arity, recv, key, first


def registrations(core, vm):
    """[(visible name, rust fn)] in source order"""
    bodies = fn_bodies(core)
    regs = []
    for fname, (o, c) in bodies.items():
        occ = [i for i in range(o, c) if toks_text(core, i, ["as", "NativeFn"]) and core[i - 1].kind == "id"]
        if not occ:
            continue
        # class label: the string literal given to new_gc_obj_string for `class_name`
        label = None
        i = find_seq(core, ["let", "class_name", "=", "vm", ".", "new_gc_obj_string", "("], o, c)
        if i >= 0:
            label = unq(core[i + 7].text)
        elif fname == "bind_object_class":
            label = "Object"
        elif fname == "bind_gc_obj_string_class":
            label = "String"
        else:
            raise ValueError("native registered in an unrecognised binder: " + fname)
        for i in occ:
            rust_fn = core[i - 1].text
            j = i - 1
            while j > o and core[j].kind != "str":
                j -= 1
            if core[j].kind != "str":
                raise ValueError("no method name for " + rust_fn)
            mname = unq(core[j].text)
            sep = "#"
            lab = label
            if lab.endswith("Class"):
                lab, sep = lab[:-5], "."
            if fname == "bind_gc_obj_string_class":
                # which array: static_method_map or method_map
                k = i
                while k > o and not (core[k].text == "let" and core[k + 2].text == "="):
                    k -= 1
                if core[k + 1].text == "static_method_map":
                    sep = "."
            regs.append((lab + sep + mname, rust_fn))
    # globals: vm.rs  self.define_native(module_path, "clock", core::clock) inside init_built_in_globals
    vb = fn_bodies(vm)
    if "init_built_in_globals" not in vb:
        raise ValueError("vm.rs init_built_in_globals not found")
    o, c = vb["init_built_in_globals"]
    for i in find_all_seq(vm, ["define_native", "("], o, c):
        e = match_group(vm, i + 1)
        strs = [t for t in vm[i + 2:e] if t.kind == "str"]
        last = vm[e - 1].text
        if not strs:
            raise ValueError("define_native without a literal name")
        name = unq(strs[0].text)
        regs.append((name, "print" if last == "printer" else last))
    return regs, bodies


CMP_OPS = (">=", "==", ">", "<=", "<", "!=")


def iter_guards(obj):
    """[(struct, operator)] : operator of the first `if <a> <op> <b> {` of `fn next` in `impl <struct> {`"""
    res = []
    for struct in ("ObjStringIter", "ObjTupleIter", "ObjVecIter", "ObjRangeIter"):
        op = "?"
        i = find_seq(obj, ["impl", struct, "{"])
        if i >= 0:
            o, c = body_after(obj, i)
            j = find_seq(obj, ["fn", "next"], o, c)
            if j >= 0:
                bo, bc = body_after(obj, j)
                k = find_seq(obj, ["if"], bo, bc)
                if k >= 0:
                    e = k + 1
                    while obj[e].text != "{":
                        e += 1
                    ops = [t.text for t in obj[k + 1:e] if t.text in CMP_OPS]
                    nxt = [t.text for t in obj[e + 1:e + 3]]
                    if len(ops) == 1 and nxt[:2] == ["return", "None"]:
                        op = ops[0]
        res.append((struct, op))
    return res


def toks_text(toks, i, texts):
    return all(i + k < len(toks) and toks[i + k].text == texts[k] for k in range(len(texts)))


def coq_str(s):
    return '"%s"' % s.replace('"', '""')


def gen_natives(man):
    core = toks_of("core.rs")
    vm = toks_of("vm.rs")
    regs, bodies = registrations(core, vm)
    rows = []
    for name, rust_fn in regs:
        if rust_fn not in bodies:
            raise ValueError("native body not found: " + rust_fn)
        o, c = bodies[rust_fn]
        arity, recv, key, first = native_row(core, o, c)
        rows.append((name, arity, recv, key, first))
    rows.sort()
    # constants
    common = toks_of("common.rs")
    i = find_seq(common, ["const", "VEC_ELEMS_MAX"])
    vec_max = None
    if i >= 0:
        txt = " ".join(t.text for t in common[i:i + 14])
        if "isize :: MAX as usize + 1 ;" in txt:
            vec_max = 2 ** 63
    fiber_bound = None
    if "fiber_init" in bodies:
        o, c = bodies["fiber_init"]
        i = find_seq(core, ["arity", ">"], o, c)
        if i >= 0 and core[i + 2].kind == "num":
            fiber_bound = int(core[i + 2].text)
    vmb = fn_bodies(vm)
    frames_check = False
    if "call_closure" in vmb:
        o, c = vmb["call_closure"]
        i = find_seq(vm, ["frames", ".", "len", "(", ")", "==", "common", "::", "FRAMES_MAX"], o, c)
        j = find_seq(vm, ["push_call_frame"], o, c)
        frames_check = 0 <= i < j
    guards = iter_guards(toks_of("object.rs"))
    man["c02_iter_guards"] = dict(guards)
    man["c02_natives"] = len(rows)
    man["c02_rows"] = ["%s:%s:%s:%s:%s" % (n, a, r, int(k), int(f)) for n, a, r, k, f in rows]
    man["c02_consts"] = {"VEC_ELEMS_MAX": vec_max, "fiber_arity_bound": fiber_bound, "call_closure_checks_frames": frames_check}
    lines = ["(* GENERATED by translator/translate_c02.py from core.rs, vm.rs, common.rs - do not edit *)",
             "From Coq Require Import List String NArith Bool.", "Import ListNotations.", "Open Scope string_scope.", "",
             "(* (yarel-visible name, arity literal of check_num_args or \"-\", receiver kind unwrapped with expect or \"-\",",
             "   validates a hash-map key, arity check precedes the receiver expect) *)",
             "Definition src_native_rows : list (string * string * string * bool * bool) :=",
             "  [" + ";\n   ".join("(%s, %s, %s, %s, %s)" % (coq_str(n), coq_str(a), coq_str(r), "true" if k else "false", "true" if f else "false")
                                   for n, a, r, k, f in rows) + "].", "",
             "(* comparison operator of the end-of-iteration guard of Obj*Iter::next (object.rs); \"?\" = not recognised *)",
             "Definition src_iter_guards : list (string * string) :=",
             "  [" + "; ".join("(%s, %s)" % (coq_str(a), coq_str(b)) for a, b in guards) + "].", "",
             "Definition SRC_VEC_ELEMS_MAX : N := %s%%N." % (vec_max if vec_max is not None else 0),
             "Definition src_fiber_arity_bound : N := %s%%N." % (fiber_bound if fiber_bound is not None else 0),
             "Definition src_call_closure_checks_frames : bool := %s." % ("true" if frames_check else "false"), ""]
    return "\n".join(lines)


GENERATORS = {"NativesSrc.v": gen_natives}

if __name__ == "__main__":
    m = {}
    print(gen_natives(m))
