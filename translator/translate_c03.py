"""C03: the tables that define the accepted language, read from the CURRENT sources at token level.

  coq/gen/Rules.v   from compiler.rs: `const RULES: [ParseRule; N] = [ // Name  ParseRule { prefix, infix, precedence }, ... ]`
                    (every entry in order, with the `// Name` comment that precedes it) and `enum Precedence`;
  coq/gen/Tokens.v  from scanner.rs: `enum TokenKind` (variant order) and the keyword trie of `fn identifier_type`
                    (every `check_keyword(start, "rest", TokenKind::K)` with the path of string patterns of the enclosing
                    `match` arms that leads to it).

props/C03.v compares them with YV.ParserRules.rules_table / YV.Scanner.all_tkinds / YV.C03Run.keywords_ref.
Names are emitted as STRINGS as well as constructors: an unknown handler / kind does not make the file
uncompilable, it makes the named obligation `C03_rules_known` fail (the table is then emitted empty).
Reformatting, renaming locals, reordering unrelated code changes nothing; a changed precedence, a swapped
handler, a moved entry, a new/removed/renamed keyword or token kind changes a row."""
import re
import os
import sys

sys.path.insert(0, os.path.dirname(os.path.abspath(__file__)))
import rustlex  # noqa
from rustlex import Tok, match_group, find_seq, body_after, split_top  # noqa

REPO = os.environ.get("VERIF_REPO", "/repo")
SRC = os.path.join(REPO, "yarel", "src")

# Rust handler name -> constructor of YV.ParserRules.prefix_rule / infix_rule
PREFIX = {"grouping": "PGrouping", "hash_map": "PHashMap", "vector": "PVector", "unary": "PUnary", "lambda": "PLambda",
          "variable": "PVariable", "string": "PString", "interpolation": "PInterpolation", "number": "PNumber",
          "cap_self": "PCapSelf", "literal": "PLiteral", "self_": "PSelf", "super_": "PSuper"}
INFIX = {"call": "ICall", "index": "IIndex", "dot": "IDot", "dotdot": "IDotDot", "binary": "IBinary", "and": "IAnd",
         "or": "IOr"}
PRECS = ["None", "Assignment", "Or", "And", "Equality", "Comparison", "BitwiseOr", "BitwiseXor", "BitwiseAnd",
         "BitShift", "Term", "Factor", "Range", "Unary", "Call", "Primary"]


def lex_keep_comments(src):
    """rustlex.lex, but line comments are kept as tokens of kind 'lc'"""
    toks = []
    i, line, n = 0, 1, len(src)
    while i < n:
        if src.startswith("/*", i):
            j = src.find("*/", i + 2)
            j = n if j < 0 else j + 2
            line += src.count("\n", i, j)
            i = j
            continue
        m = rustlex.TOKEN_RE.match(src, i)
        if not m:
            raise ValueError("cannot lex at line %d" % line)
        kind = m.lastgroup
        if kind == "h":
            kind = "rstr"
        text = m.group(0)
        if kind != "ws":
            toks.append(Tok(kind, text, line))
        line += text.count("\n")
        i = m.end()
    return toks


def read(name):
    with open(os.path.join(SRC, name)) as fh:
        return fh.read()


def coq_str(s):
    return '"%s"' % s.replace('"', '""')


def enum_variants(toks, name):
    i = find_seq(toks, ["enum", name])
    if i < 0:
        raise ValueError("enum %s not found" % name)
    o, c = body_after(toks, i)
    vs = []
    for lo, hi in split_top(toks, o + 1, c):
        j = lo
        while j < hi and toks[j].text == "#":
            j = match_group(toks, j + 1) + 1
        if j < hi and toks[j].kind == "id":
            vs.append(toks[j].text)
    return vs


def handler(toks, lo, hi):
    """`None` | `Some(Parser::name)` -> None | name"""
    ts = [t.text for t in toks[lo:hi]]
    if ts == ["None"]:
        return None
    if len(ts) == 6 and ts[0] == "Some" and ts[1] == "(" and ts[2] == "Parser" and ts[3] == "::" and ts[5] == ")":
        return ts[4]
    raise ValueError("unreadable handler at line %d: %s" % (toks[lo].line, " ".join(ts)))


def extract_rules():
    """[(comment name, prefix|None, infix|None, precedence)], declared length"""
    toks = lex_keep_comments(read("compiler.rs"))
    i = find_seq(toks, ["const", "RULES", ":"])
    if i < 0:
        raise ValueError("const RULES not found")
    # type [ParseRule; N]
    declared = None
    j = i + 3
    if toks[j].text == "[":
        e = match_group(toks, j)
        nums = [t for t in toks[j:e] if t.kind == "num"]
        declared = int(nums[0].text.replace("_", "")) if nums else None
        j = e + 1
    while toks[j].text != "=":
        j += 1
    o = j + 1
    assert toks[o].text == "["
    c = match_group(toks, o)
    rows = []
    pending = None
    k = o + 1
    while k < c:
        t = toks[k]
        if t.kind == "lc":
            pending = t.text[2:].strip()
            k += 1
        elif t.text == "ParseRule" and toks[k + 1].text == "{":
            e = match_group(toks, k + 1)
            fields = {}
            inner = [x for x in range(k + 2, e) if toks[x].kind != "lc"]
            # split at top-level commas (comments removed)
            sub = [toks[x] for x in inner]
            for lo, hi in split_top(sub, 0, len(sub)):
                if hi - lo >= 3 and sub[lo + 1].text == ":":
                    fields[sub[lo].text] = (sub, lo + 2, hi)
            if set(fields) != {"prefix", "infix", "precedence"}:
                raise ValueError("ParseRule fields at line %d: %s" % (t.line, sorted(fields)))
            p = handler(*fields["prefix"])
            f = handler(*fields["infix"])
            s, lo, hi = fields["precedence"]
            ts = [x.text for x in s[lo:hi]]
            if len(ts) != 3 or ts[0] != "Precedence" or ts[1] != "::":
                raise ValueError("unreadable precedence at line %d" % t.line)
            rows.append((pending or "?", p, f, ts[2]))
            pending = None
            k = e + 1
        else:
            k += 1
    precs = enum_variants([t for t in toks if t.kind != "lc"], "Precedence")
    return rows, declared, precs


def extract_tokens():
    toks = rustlex.lex(read("scanner.rs"))
    kinds = enum_variants(toks, "TokenKind")
    i = find_seq(toks, ["fn", "identifier_type"])
    if i < 0:
        raise ValueError("fn identifier_type not found")
    o, c = body_after(toks, i)
    kws = []

    def walk(lo, hi, path):
        """collect check_keyword calls in toks[lo:hi]; descend into `match` arms with string patterns"""
        k = lo
        while k < hi:
            t = toks[k]
            if t.text == "check_keyword" and toks[k + 1].text == "(":
                e = match_group(toks, k + 1)
                args = split_top(toks, k + 2, e)
                if len(args) != 3:
                    raise ValueError("check_keyword arity at line %d" % t.line)
                a0 = toks[args[0][0]:args[0][1]]
                a1 = toks[args[1][0]:args[1][1]]
                a2 = toks[args[2][0]:args[2][1]]
                if len(a0) != 1 or a0[0].kind != "num" or len(a1) != 1 or a1[0].kind != "str" or \
                        [x.text for x in a2[:2]] != ["TokenKind", "::"] or len(a2) != 3:
                    raise ValueError("unreadable check_keyword at line %d" % t.line)
                kws.append(("".join(path), int(a0[0].text), a1[0].text[1:-1], a2[2].text))
                k = e + 1
            elif t.text == "match":
                # scrutinee up to `{`
                b = k + 1
                while toks[b].text != "{":
                    b += 1
                e = match_group(toks, b)
                # arms: pattern => expr ,
                a = b + 1
                while a < e:
                    # pattern tokens until `=>`
                    p = a
                    while p < e and toks[p].text != "=>":
                        p += 1
                    if p >= e:
                        break
                    pat = toks[a:p]
                    # arm body: a block or an expression up to the top-level comma
                    q = p + 1
                    if toks[q].text == "{":
                        qe = match_group(toks, q)
                        body = (q + 1, qe)
                        nxt = qe + 1
                        if nxt < e and toks[nxt].text == ",":
                            nxt += 1
                    else:
                        depth = 0
                        qe = q
                        while qe < e:
                            x = toks[qe]
                            if x.kind == "op" and x.text in rustlex.OPEN:
                                depth += 1
                            elif x.kind == "op" and x.text in (")", "]", "}"):
                                depth -= 1
                            elif x.text == "," and depth == 0:
                                break
                            qe += 1
                        body = (q, qe)
                        nxt = qe + 1
                    if len(pat) == 1 and pat[0].kind == "str":
                        walk(body[0], body[1], path + [pat[0].text[1:-1]])
                    else:
                        walk(body[0], body[1], path + ["?"] if any(x.text != "_" for x in pat) else path + ["_"])
                    a = nxt
                k = e + 1
            else:
                k += 1

    walk(o + 1, c, [])
    return kinds, kws


def constant_insertion_sites():
    """names of the functions of compiler.rs whose body calls `.add_constant(` - the constant-pool limit is checked
    in make_constant only, so every insertion has to go through it"""
    toks = rustlex.lex(read("compiler.rs"))
    sites = []
    i = 0
    while i < len(toks):
        if toks[i].text == "fn" and i + 1 < len(toks) and toks[i + 1].kind == "id":
            name = toks[i + 1].text
            j = i + 2
            depth = 0
            # find the body `{` (skip the parameter list / return type); a declaration without body ends at `;`
            while j < len(toks) and not (toks[j].text == "{" and depth == 0) and not (toks[j].text == ";" and depth == 0):
                if toks[j].text in ("(", "[", "<"):
                    depth += 1 if toks[j].text != "<" else 0
                elif toks[j].text in (")", "]"):
                    depth -= 1
                j += 1
            if j < len(toks) and toks[j].text == "{":
                e = match_group(toks, j)
                n = len(rustlex.find_all_seq(toks, [".", "add_constant", "("], j, e))
                # nested fns are visited by the outer loop as well; count only direct text here
                if n:
                    sites.append("%s:%d" % (name, n))
                i = j + 1
                continue
        i += 1
    return sites


def fn_bodies(toks):
    """[(name, open, close)] for every fn with a body, nested fns included"""
    res = []
    i = 0
    while i < len(toks):
        if toks[i].text == "fn" and i + 1 < len(toks) and toks[i + 1].kind == "id":
            name = toks[i + 1].text
            j = i + 2
            depth = 0
            while j < len(toks) and not (toks[j].text == "{" and depth == 0) and not (toks[j].text == ";" and depth == 0):
                if toks[j].text in ("(", "["):
                    depth += 1
                elif toks[j].text in (")", "]"):
                    depth -= 1
                j += 1
            if j < len(toks) and toks[j].text == "{":
                res.append((name, j, match_group(toks, j)))
                i = j + 1
                continue
        i += 1
    return res

def txt(toks, lo, hi):
    out = ""
    for t in toks[lo:hi]:
        s = t.text
        if out and (out[-1].isalnum() or out[-1] == "_") and (s[0].isalnum() or s[0] == "_"):
            out += " "
        out += s
    return out

def stmt_end(toks, k, hi):
    depth = 0
    while k < hi:
        t = toks[k]
        if t.kind == "op":
            if t.text in rustlex.OPEN:
                depth += 1
            elif t.text in (")", "]", "}"):
                if depth == 0:
                    return k
                depth -= 1
            elif t.text == ";" and depth == 0:
                return k
        k += 1
    return hi

BODIES = ("get_next_char_boundary", "is_at_end", "is_alpha", "is_digit")


def scanner_positions(src=None):
    """every place of scanner.rs where a byte position is computed or used: index / slice expressions (`x[..]`), the
    `let`s that define the locals used in them, every write to self.current / self.start, the bodies of the two
    primitives every position comes from and of is_alpha / is_digit (the ASCII guard of the keyword trie), and the number of unwrap()/expect() calls per function - as
    `fn|kind|normalised text` rows in source order.  The scanner MODEL (YV.Scanner) works on the list of characters, so
    "every slice lies on character boundaries" holds there by construction; these rows are what ties that to the code:
    a new slice, a position computed by byte arithmetic, a changed primitive changes a row."""
    toks = rustlex.lex(read("scanner.rs") if src is None else src)
    rows = []
    for name, o, c in fn_bodies(toks):
        used = []
        sl = []
        k = o + 1
        while k < c:
            t = toks[k]
            p = toks[k - 1]
            if t.kind == "op" and t.text == "[" and (p.kind == "id" and not p.text.endswith("!") or p.text in (")", "]")) and p.text not in ("in", "return", "match", "if", "else"):
                e = match_group(toks, k)
                # receiver: the postfix chain id(.id)* before the bracket
                r = k - 1
                while r - 2 >= o and toks[r - 1].text == "." and toks[r - 2].kind == "id":
                    r -= 2
                sl.append("%s|index|%s[%s]" % (name, txt(toks, r, k), txt(toks, k + 1, e)))
                for q in range(k + 1, e):
                    x = toks[q]
                    if x.kind == "id" and toks[q - 1].text != "." and x.text not in used:
                        used.append(x.text)
            k += 1
        # writes to the positions
        k = o + 1
        wr = []
        while k + 3 < c:
            if toks[k].text == "self" and toks[k + 1].text == "." and toks[k + 2].text in ("current", "start") and \
                    toks[k + 3].text in ("=", "+=", "-=") and toks[k - 1].text != ".":
                e = stmt_end(toks, k + 4, c)
                wr.append("%s|write|self.%s %s %s" % (name, toks[k + 2].text, toks[k + 3].text, txt(toks, k + 4, e)))
                for q in range(k + 4, e):
                    x = toks[q]
                    if x.kind == "id" and toks[q - 1].text != "." and x.text not in used:
                        used.append(x.text)
                k = e
            k += 1
        lets = []
        k = o + 1
        while k + 2 < c:
            if toks[k].text == "let":
                j = k + 1
                if toks[j].text == "mut":
                    j += 1
                if toks[j].kind == "id" and toks[j + 1].text == "=" and toks[j].text in used:
                    e = stmt_end(toks, j + 2, c)
                    lets.append("%s|let|%s = %s" % (name, toks[j].text, txt(toks, j + 2, e)))
            k += 1
        nun = sum(1 for k in range(o + 1, c - 1) if toks[k].text in ("unwrap", "expect") and toks[k - 1].text == "." and toks[k + 1].text == "(")
        rows += lets + sl + wr
        if name in BODIES:
            rows.append("%s|body|%s" % (name, txt(toks, o + 1, c)))
        if nun:
            rows.append("%s|unwrap|%d" % (name, nun))
    return rows


def host_recursion(files=("scanner.rs", "compiler.rs"), srcs=None):
    """the call cycles among the functions of scanner.rs / compiler.rs, by name: `file|self|f` when the body of f calls
    f (`self.f(..)`, `s.f(..)`, `Self::f(..)`, `T::f(..)` or `f(..)`; a call on another receiver - `self.x().f(..)` - is a
    method of another type and not counted), `file|cycle|f,g,..` for every larger strongly connected component.  The
    handlers reached through the RULES table (fn pointers) are not calls by name: the expression grammar recurses through
    parse_precedence, once per NESTING level.  What the rows are for: the host stack compile needs is bounded by the
    nesting depth of the text, not by its length, exactly when every cycle listed here is entered once per nesting level
    (theories/ScanSites.v justifies each row); a loop rewritten as a self call (`return self.scan_token()`) adds a row."""
    rows = []
    for fi, f in enumerate(files):
        text = read(f) if srcs is None else srcs[fi]
        toks = rustlex.lex(text)
        types = set(re.findall(r"\bimpl(?:\s*<[^>{]*>)?\s+(\w+)", text)) | {"Self"}
        bodies = fn_bodies(toks)
        names = {n for n, _, _ in bodies}
        calls = {}
        for name, o, c in bodies:
            cs = calls.setdefault(name, set())
            for k in range(o + 1, c - 1):
                t = toks[k]
                if t.kind == "id" and t.text in names and toks[k + 1].text == "(" and toks[k - 1].text != "fn":
                    p = toks[k - 1].text
                    if p == "." and not (toks[k - 2].text in ("self", "s") and toks[k - 3].text != "."):
                        continue
                    if p == "::" and toks[k - 2].text not in types:
                        continue            # Vec::new(), Box::new(): another type's function
                    cs.add(t.text)
        # strongly connected components (Tarjan, iterative enough for ~150 functions: recursion depth <= number of fns)
        idx, low, stack, on, comps, cnt = {}, {}, [], set(), [], [0]

        def sc(v):
            idx[v] = low[v] = cnt[0]
            cnt[0] += 1
            stack.append(v)
            on.add(v)
            for w in sorted(calls.get(v, ())):
                if w not in idx:
                    sc(w)
                    low[v] = min(low[v], low[w])
                elif w in on:
                    low[v] = min(low[v], idx[w])
            if low[v] == idx[v]:
                comp = []
                while True:
                    w = stack.pop()
                    on.discard(w)
                    comp.append(w)
                    if w == v:
                        break
                if len(comp) > 1:
                    comps.append(sorted(comp))
        for v in sorted(calls):
            if v not in idx:
                sc(v)
        for v in sorted(calls):
            if v in calls[v]:
                rows.append("%s|self|%s" % (f, v))
        for comp in sorted(comps):
            rows.append("%s|cycle|%s" % (f, ",".join(comp)))
    return rows


def tkind_ctor(name):
    return "T" + name.rstrip("_")


def gen_rules(man):
    rows, declared, precs = extract_rules()
    unknown = []
    for n, p, f, pr in rows:
        if p is not None and p not in PREFIX:
            unknown.append("prefix:" + p)
        if f is not None and f not in INFIX:
            unknown.append("infix:" + f)
        if pr not in PRECS:
            unknown.append("precedence:" + pr)
    man["c03_rules"] = ["%s:%s:%s:%s" % (n, p or "-", f or "-", pr) for n, p, f, pr in rows]
    man["c03_rules_declared"] = declared
    man["c03_precedences"] = precs
    man["c03_rules_unknown"] = unknown
    sites = constant_insertion_sites()
    man["c03_constant_insertions"] = sites
    L = ["(* GENERATED by translator/translate_c03.py from compiler.rs (const RULES, enum Precedence) - do not edit *)",
         "From Coq Require Import List String.", "From YV Require Import Scanner ParserRules.", "Import ListNotations.",
         "Open Scope string_scope.", "",
         "(* handler / precedence names of the source that have no constructor in YV.ParserRules *)",
         "Definition rules_gen_unknown : list string := [%s]." % "; ".join(coq_str(u) for u in unknown), "",
         "(* the declared length N of `[ParseRule; N]` *)",
         "Definition rules_gen_declared : nat := %d." % (declared if declared is not None else 0), "",
         "(* enum Precedence, in declaration order *)",
         "Definition precedence_names_gen : list string := [%s]." % "; ".join(coq_str(p) for p in precs), "",
         "(* the `// Name` comment of every entry, in order *)",
         "Definition rules_gen_names : list string := [%s]." % "; ".join(coq_str(n) for n, _, _, _ in rows), "",
         "(* functions of compiler.rs that call Chunk::add_constant directly (name:number of calls) *)",
         "Definition constant_insertions_gen : list string := [%s]." % "; ".join(coq_str(x) for x in sites), "",
         "Definition rules_gen : list rule := ["]
    if not unknown:
        ents = []
        for n, p, f, pr in rows:
            ents.append("  (* %-20s *) mkRule (%s) (%s) Prec%s" % (
                n, "Some " + PREFIX[p] if p else "None", "Some " + INFIX[f] if f else "None", pr))
        L.append(";\n".join(ents))
    L += ["].", ""]
    return "\n".join(L)


def gen_tokens(man):
    kinds, kws = extract_tokens()
    man["c03_token_kinds"] = kinds
    man["c03_keywords"] = ["%s|%d|%s|%s" % k for k in kws]
    pos = scanner_positions()
    man["c03_scanner_positions"] = pos
    rec = host_recursion()
    man["c03_host_recursion"] = rec
    L = ["(* GENERATED by translator/translate_c03.py from scanner.rs (enum TokenKind, fn identifier_type) - do not edit *)",
         "From Coq Require Import List String.", "Import ListNotations.", "Open Scope string_scope.", "",
         "(* enum TokenKind, in declaration order *)",
         "Definition tkind_names_gen : list string := [%s]." % "; ".join(coq_str(k) for k in kinds), "",
         "(* every check_keyword(start, rest, TokenKind::K) of fn identifier_type:",
         "   (string patterns of the enclosing match arms, start, rest, K) in source order *)",
         "Definition keywords_gen : list (string * nat * string * string) := [",
         ";\n".join("  (%s, %d, %s, %s)" % (coq_str(p), s, coq_str(r), coq_str(k)) for p, s, r, k in kws),
         "].", "",
         "(* every index / slice expression of scanner.rs, the lets that define their bounds, every write to",
         "   self.current / self.start, the two position primitives, unwrap() counts: fn|kind|text, in source order *)",
         "Definition scanner_positions_gen : list string := [",
         ";\n".join("  " + coq_str(r) for r in pos),
         "].", "",
         "(* call cycles among the functions of scanner.rs / compiler.rs (by name): file|self|f, file|cycle|f,g,.. *)",
         "Definition host_recursion_gen : list string := [",
         ";\n".join("  " + coq_str(r) for r in rec),
         "].", ""]
    return "\n".join(L)


GENERATORS = {"Rules.v": gen_rules, "Tokens.v": gen_tokens}

if __name__ == "__main__":
    m = {}
    print(gen_rules(m))
    print(gen_tokens(m))
