"""C04: the call sites of `Compiler::add_local` in the CURRENT compiler.rs, read at token level, written to
coq/gen/AddLocalSites.v.

`add_local` is the ONE place that enforces LOCALS_MAX; it reports the limit through its `bool` result.  A caller
that drops the result (as `for_statement` did for the hidden iterator and `class_declaration` for the `super`
local up to /repo eac17ca) silently loses a local at exactly 256 locals: the stack and the compiler's slot
numbering go out of step and every later variable names the wrong slot - with consistent heights on every path,
so the bytecode verifier cannot see it.  props/C04.v requires, by computation on the regenerated table:

  * every call site uses the result (`C04_side_add_local_results_checked`),
  * `add_local` itself still compares `locals.len()` with `LOCALS_MAX` and returns `false`
    (`C04_side_add_local_enforces_limit`),
  * nobody else pushes onto `locals` (`locals_push_sites = ["add_local"]`).

A call counts as CHECKED when it is (part of) the condition of an `if` / `while` / `match`, the operand of `!`,
`?`, `return`, an argument of another call, or bound by `let <name> =` (not `let _ =`); it counts as IGNORED when
it is an expression statement (`…add_local(…);`) or bound to `_`.  Anything else is `unknown` = not checked
(fail closed).  Renaming locals, reformatting, moving a call to another function keeps the obligation true."""
import os
import sys

sys.path.insert(0, os.path.dirname(os.path.abspath(__file__)))
from rustlex import lex, match_group, find_all_seq  # noqa

REPO = os.environ.get("VERIF_REPO", "/repo")
SRC = os.path.join(REPO, "yarel", "src")

CLOSE = {")": "(", "]": "[", "}": "{"}


def fn_ranges(toks):
    """[(name, open, close)] for every fn with a body"""
    res = []
    for i in find_all_seq(toks, ["fn"]):
        if i + 1 >= len(toks) or toks[i + 1].kind != "id":
            continue
        j = i + 2
        while j < len(toks) and toks[j].text not in ("{", ";"):
            if toks[j].text in ("(", "["):
                j = match_group(toks, j)
            j += 1
        if j < len(toks) and toks[j].text == "{":
            res.append((toks[i + 1].text, j, match_group(toks, j)))
    return res


def enclosing_fn(ranges, i):
    best = None
    for (name, o, c) in ranges:
        if o < i < c and (best is None or o > best[1]):
            best = (name, o, c)
    return best[0] if best else "?"


def classify_call(toks, i):
    """toks[i] is the identifier `add_local` of a method call; -> 'checked' | 'ignored' | 'unknown'"""
    close = match_group(toks, i + 1)
    # walk back to the start of the enclosing statement; leaving an enclosing bracket means the value is used
    depth = 0
    j = i - 1
    start = None
    inside = None
    while j >= 0:
        t = toks[j]
        if t.kind == "op":
            if t.text in CLOSE:
                depth += 1
            elif t.text in ("(", "[", "{"):
                if depth == 0:
                    if t.text == "{":
                        start = j + 1
                    else:
                        inside = t.text
                    break
                depth -= 1
            elif t.text == ";" and depth == 0:
                start = j + 1
                break
        j -= 1
    if inside is not None:
        return "checked"              # argument of a call / parenthesised operand / index
    if start is None:
        return "unknown"
    head = toks[start].text
    nxt = toks[close + 1].text if close + 1 < len(toks) else ""
    between = [t.text for t in toks[start:i]]
    if head in ("if", "while", "match", "return"):
        return "checked"
    if head == "let":
        return "ignored" if len(between) > 1 and between[1] == "_" else "checked"
    if nxt == "?":
        return "checked"
    if "=" in between or "!" in between:
        return "checked"
    if nxt == ";":
        return "ignored"
    if nxt in ("&&", "||", "==", "!="):
        return "checked"
    if nxt == "}":
        return "checked"              # tail expression of a block: the value of the block
    return "unknown"


def extract(src):
    toks = lex(src)
    ranges = fn_ranges(toks)
    sites = []
    for i in find_all_seq(toks, [".", "add_local", "("]):
        k = i + 1
        sites.append((enclosing_fn(ranges, k), toks[k].line, classify_call(toks, k)))
    # the definition: compares locals.len() with LOCALS_MAX and returns false
    enforces = False
    for (name, o, c) in ranges:
        if name == "add_local":
            body = [t.text for t in toks[o:c + 1]]
            txt = " ".join(body)
            enforces = ("locals . len ( )" in txt and "LOCALS_MAX" in txt and "return false" in txt
                        and ("==" in body or ">=" in body))
    pushes = [enclosing_fn(ranges, i) for i in find_all_seq(toks, ["locals", ".", "push", "("])]
    return sites, enforces, pushes


def gen_add_local_sites(man):
    with open(os.path.join(SRC, "compiler.rs")) as fh:
        sites, enforces, pushes = extract(fh.read())
    man["add_local_sites"] = [{"fn": f, "line": l, "use": u} for f, l, u in sites]
    man["add_local_enforces_limit"] = enforces
    lines = ["(* GENERATED by translator/translate_c04.py from compiler.rs - do not edit *)",
             "From Coq Require Import List String Bool.", "Import ListNotations.", "Open Scope string_scope.", "",
             "(* (enclosing function, is the bool result of add_local used?) per call site, in source order *)",
             "Definition add_local_sites : list (string * bool) := [%s]." % "; ".join(
                 '("%s", %s)' % (f, "true" if u == "checked" else "false") for f, l, u in sites),
             "Definition add_local_site_kinds : list string := [%s]." % "; ".join('"%s"' % u for f, l, u in sites),
             "Definition add_local_enforces_limit : bool := %s." % ("true" if enforces else "false"),
             "Definition locals_push_sites : list string := [%s]." % "; ".join('"%s"' % p for p in pushes), ""]
    return "\n".join(lines)


# ---------------------------------------------------------------------------------------------------------------
# operands the VM does ARITHMETIC on (vm.rs): `let x = self.read_short()` / `read_byte()` [as usize], and every later
# use of x as an operand of + - * << in the same function.  Bytecode.v / Skeleton.v compute with unbounded N
# (finally_pc = nx + a + b, 2 * a map entries, a + 1 call slots): that is only a model of the VM when the operand was
# WIDENED before the arithmetic - at the read (`as usize`) or at the use (`x as usize + ...`, `-(x as isize)`).

ARITH = {"+", "-", "*", "<<", "+=", "-=", "*="}


def operand_arith(src):
    toks = lex(src)
    ranges = fn_ranges(toks)
    reads, sites = [], []
    for (fname, o, c) in ranges:
        j = o
        while j < c:
            if (toks[j].text == "let" and j + 8 < c and toks[j + 1].kind == "id" and toks[j + 2].text == "="
                    and toks[j + 3].text == "self" and toks[j + 4].text == "." and toks[j + 5].text in ("read_short", "read_byte")
                    and toks[j + 6].text == "(" and toks[j + 7].text == ")"):
                var = toks[j + 1].text
                wide = toks[j + 8].text == "as" and toks[j + 9].text in ("usize", "isize", "u64", "i64", "u32", "i32")
                reads.append((fname, var, toks[j + 5].text, wide))
                # uses after the let
                k = j + 8
                while k < c:
                    if toks[k].kind == "id" and toks[k].text == var and toks[k - 1].text != ".":
                        cast = k + 2 < c and toks[k + 1].text == "as" and toks[k + 2].text in ("usize", "isize", "u64", "i64", "u32", "i32")
                        after = toks[k + 3].text if cast and k + 3 < c else (toks[k + 1].text if k + 1 < c else "")
                        before = toks[k - 1].text
                        # a leading `-` / `(` `-` is a unary minus on the (possibly cast) value
                        binary_before = before in ARITH and not (before == "-" and toks[k - 2].text in ("(", "=", ",", "return"))
                        if binary_before or after in ARITH:
                            sites.append((fname, var, wide or cast))
                    k += 1
            j += 1
    return reads, sites


def gen_operand_arith(man):
    with open(os.path.join(SRC, "vm.rs")) as fh:
        reads, sites = operand_arith(fh.read())
    man["vm_operand_reads"] = len(reads)
    man["vm_operand_arith_sites"] = [{"fn": f, "var": v, "widened": w} for f, v, w in sites]
    lines = ["(* GENERATED by translator/translate_c04.py from vm.rs - do not edit *)",
             "From Coq Require Import List String Bool.", "Import ListNotations.", "Open Scope string_scope.", "",
             "(* (function, variable, read, widened at the read) for every `let x = self.read_short()/read_byte()` *)",
             "Definition operand_reads : list (string * string * string * bool) := [%s]." % "; ".join(
                 '("%s", "%s", "%s", %s)' % (f, v, r, "true" if w else "false") for f, v, r, w in reads),
             "(* (function, variable, widened before this arithmetic use) for every use of such an x under + - * << *)",
             "Definition operand_arith_sites : list (string * string * bool) := [%s]." % "; ".join(
                 '("%s", "%s", %s)' % (f, v, "true" if w else "false") for f, v, w in sites), ""]
    return "\n".join(lines)


# ---------------------------------------------------------------------------------------------------------------
# constants reach a chunk through ONE checked route: `make_constant` (the only caller of Chunk::add_constant in
# compiler.rs) compares the index with u16::MAX and reports "Too many constants in one chunk."

def constant_sites(src):
    toks = lex(src)
    ranges = fn_ranges(toks)
    sites = [enclosing_fn(ranges, i + 1) for i in find_all_seq(toks, [".", "add_constant", "("])]
    enforces = False
    for (name, o, c) in ranges:
        if name == "make_constant":
            body = [t.text for t in toks[o:c + 1]]
            txt = " ".join(body)
            enforces = ("add_constant" in body and ">" in body and "u16 :: MAX" in txt and "error" in body
                        and "Too many constants" in txt)
    return sites, enforces


def gen_constant_sites(man):
    with open(os.path.join(SRC, "compiler.rs")) as fh:
        sites, enforces = constant_sites(fh.read())
    man["add_constant_sites"] = sites
    lines = ["(* GENERATED by translator/translate_c04.py from compiler.rs - do not edit *)",
             "From Coq Require Import List String Bool.", "Import ListNotations.", "Open Scope string_scope.", "",
             "(* enclosing function of every `.add_constant(` call in compiler.rs, in source order *)",
             "Definition add_constant_sites : list string := [%s]." % "; ".join('"%s"' % f for f in sites),
             "(* make_constant still compares the index with u16::MAX and reports the error *)",
             "Definition make_constant_enforces_limit : bool := %s." % ("true" if enforces else "false"), ""]
    return "\n".join(lines)


# ---------------------------------------------------------------------------------------------------------------
# the compiler never LOOKS at the bytes it has emitted (round 7).  A byte of `chunk.code` is an opcode or an operand;
# compiler.rs keeps no record of instruction boundaries, so any decision taken on `code.last()`, `code[i]` (read),
# `code.get(..)`, `code.iter()`, a borrowed `&chunk.code` ... may be taken on an operand byte (seeded change: the
# implicit `nil; return` epilogue skipped when the last byte equals OpCode::Return - also true after a 57-element vec
# literal).  Today every use of `.code` in compiler.rs is `.code.len()` or a back-patching WRITE `.code[i] = b`, and
# the only members of a chunk the compiler touches are `code`, `write`, `add_constant`.  Anything else is `read` /
# a new member = the obligation of props/C04.v fails (fail closed); run-time counterpart: family `operand_alias`.
#
# Second table: every comparison with JUMP_SIZE_MAX in compiler.rs with its operator.  The three users (patch_jump,
# emit_loop, patch_offset_at) must agree on what the constant means: a site `x > J` accepts x <= J, a site `x >= J`
# accepts x <= J - 1; each must accept at most 65535 (seeded change: J made exclusive, two sites moved to `>=`, the
# third forgotten).

def code_uses(src):
    toks = lex(src)
    ranges = fn_ranges(toks)
    uses = []
    for i in find_all_seq(toks, [".", "code"]):
        k = i + 2
        nxt = toks[k].text if k < len(toks) else ""
        if nxt == "." and k + 3 < len(toks) and toks[k + 1].text == "len" and toks[k + 2].text == "(" and toks[k + 3].text == ")":
            kind = "len"
        elif nxt == "[":
            close = match_group(toks, k)
            after = toks[close + 1].text if close + 1 < len(toks) else ""
            kind = "write" if after == "=" else "read"
        else:
            kind = "read"
        uses.append((enclosing_fn(ranges, i), toks[i].line, kind))
    members = set()
    for i, t in enumerate(toks):
        if t.kind == "id" and t.text == "chunk":
            j = i + 1
            if j + 1 < len(toks) and toks[j].text == "(" and toks[j + 1].text == ")":
                j += 2
            if j + 1 < len(toks) and toks[j].text == "." and toks[j + 1].kind == "id":
                members.add(toks[j + 1].text)
    return uses, sorted(members)


def jump_limit_sites(src):
    toks = lex(src)
    ranges = fn_ranges(toks)
    sites = []
    cmp_ops = (">", ">=", "<", "<=", "==", "!=")
    for i, t in enumerate(toks):
        if t.kind == "id" and t.text == "JUMP_SIZE_MAX":
            lo = i
            while lo >= 2 and toks[lo - 1].text == "::":
                lo -= 2
            before = toks[lo - 1].text if lo >= 1 else ""
            after = toks[i + 1].text if i + 1 < len(toks) else ""
            if before in cmp_ops:
                op = before                       # x OP JUMP_SIZE_MAX
            elif after in cmp_ops:
                op = "flipped" + after            # JUMP_SIZE_MAX OP x: not the recognised shape
            else:
                op = "?"
            sites.append((enclosing_fn(ranges, i), toks[i].line, op))
    return sites


def gen_code_reads(man):
    with open(os.path.join(SRC, "compiler.rs")) as fh:
        src = fh.read()
    uses, members = code_uses(src)
    jsites = jump_limit_sites(src)
    man["c04_code_uses"] = [{"fn": f, "line": l, "kind": k} for f, l, k in uses]
    man["c04_chunk_members"] = members
    man["c04_jump_limit_sites"] = [{"fn": f, "line": l, "op": o} for f, l, o in jsites]
    lines = ["(* GENERATED by translator/translate_c04.py from compiler.rs - do not edit *)",
             "From Coq Require Import List String Bool.", "Import ListNotations.", "Open Scope string_scope.", "",
             "(* (enclosing function, len | write | read) for every `.code` in compiler.rs, in source order *)",
             "Definition code_uses : list (string * string) := [%s]." % "; ".join('("%s", "%s")' % (f, k) for f, l, k in uses),
             "(* members of a chunk that compiler.rs names (`chunk().X`, `.chunk.X`), sorted *)",
             "Definition chunk_members : list string := [%s]." % "; ".join('"%s"' % m for m in members),
             "(* (enclosing function, comparison operator in front of JUMP_SIZE_MAX) for every use of the constant *)",
             "Definition jump_limit_sites : list (string * string) := [%s]." % "; ".join('("%s", "%s")' % (f, o) for f, l, o in jsites), ""]
    return "\n".join(lines)


GENERATORS = {"AddLocalSites.v": gen_add_local_sites, "OperandArith.v": gen_operand_arith, "ConstantSites.v": gen_constant_sites,
              "CodeReads.v": gen_code_reads}

if __name__ == "__main__":
    # developer aid: python3 translate_c04.py <file.rs>  prints the table of another version of the source
    with open(sys.argv[1]) as fh:
        txt = fh.read()
    print(operand_arith(txt) if sys.argv[1].endswith("vm.rs") else (extract(txt), constant_sites(txt), code_uses(txt), jump_limit_sites(txt)))
