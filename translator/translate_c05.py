"""C05: what the expression / statement emitters of compiler.rs emit and in which order, and the operand
conventions of the VM's operator arms, read from the CURRENT sources at token level -> coq/gen/EmitArms.v.

  binary_arms_gen / unary_arms_gen / compound_arms_gen : TokenKind arm -> OpCode names emitted (fn binary, unary,
      binary_assign);
  prec_args_gen : the precedence each handler passes to parse_precedence (binary: "rule+1"), and the two
      precedences of `expression()`;
  emit_seq_gen : per emitter function the ORDER of its emit / patch / parse calls (jump variables numbered in order
      of creation, so renaming a local changes nothing): break_statement has its scope-end pops before or after its
      Jump; `if` is JumpIfFalse Pop block Jump patch Pop ...;
  vm_binop_closures_gen : OpCode -> the closure handed to binary_op_impl in the dispatch loop (parameters renamed p, q);
  vm_facts_gen : small facts of the *_impl functions (JumpIfFalse peeks, binary_op_impl gives the deeper operand first,
      SetItem leaves nil, Equal pushes a == b with a the deeper operand, add_impl string/number arms ...).

props/C05.v compares each with the tables YV.C05Run derives from CompileExpr.v / FragVM.v / ExprSem.v.  Unknown shapes
are emitted as the string "?" (the named obligation fails, the file still compiles)."""
import os
import sys

sys.path.insert(0, os.path.dirname(os.path.abspath(__file__)))
import rustlex  # noqa
from rustlex import lex, match_group, find_seq, body_after, split_top  # noqa

REPO = os.environ.get("VERIF_REPO", "/repo")
SRC = os.path.join(REPO, "yarel", "src")


def read(name):
    with open(os.path.join(SRC, name)) as fh:
        return fh.read()


def q(s):
    return '"%s"' % s.replace('"', '""')


def qlist(l):
    return "[" + "; ".join(q(x) for x in l) + "]"


def fn_body(toks, name, start=0):
    """(open, close) token indices of the body of `fn name`"""
    i = find_seq(toks, ["fn", name, "("], start)
    if i < 0:
        raise ValueError("fn %s not found" % name)
    # skip the parameter list and return type up to the body
    j = match_group(toks, i + 2) + 1
    return body_after(toks, j)


def opcodes_in(toks, lo, hi):
    return [toks[k + 2].text for k in range(lo, hi - 2) if toks[k].text == "OpCode" and toks[k + 1].text == "::"]


def match_arms(toks, lo, hi, scrutinee):
    """arms of the first `match <scrutinee> {` in toks[lo:hi]: [(pattern token texts, (lo, hi) of the arm body)]"""
    i = find_seq(toks, ["match", scrutinee, "{"], lo, hi)
    if i < 0:
        raise ValueError("match %s not found" % scrutinee)
    o = i + 2
    c = match_group(toks, o)
    arms = []
    for a, b in split_top(toks, o + 1, c):
        k = a
        while k < b and toks[k].text != "=>":
            k += 1
        if k == b:
            continue
        arms.append(([t.text for t in toks[a:k]], (k + 1, b)))
    return arms


def kind_arms(toks, fname, scrutinee):
    o, c = fn_body(toks, fname)
    rows = []
    for pat, (a, b) in match_arms(toks, o, c, scrutinee):
        kinds = [pat[k + 2] for k in range(len(pat) - 2) if pat[k] == "TokenKind" and pat[k + 1] == "::"]
        ops = opcodes_in(toks, a, b)
        for kd in kinds:
            rows.append((kd, ops))
    return rows


def prec_arg(toks, fname):
    """token text of the argument of the first parse_precedence(...) in fn fname, normalised"""
    o, c = fn_body(toks, fname)
    i = find_seq(toks, ["parse_precedence", "("], o, c)
    if i < 0:
        return "?"
    e = match_group(toks, i + 1)
    ts = [t.text for t in toks[i + 2:e]]
    if len(ts) == 3 and ts[0] == "Precedence" and ts[1] == "::":
        return ts[2]
    txt = "".join(ts)
    if txt.startswith("Precedence::from(") and txt.endswith("asusize+1)"):
        # the operand must be the precedence of the operator's own rule
        return "rule+1"
    return "?" + txt


def expression_precs(toks):
    o, c = fn_body(toks, "expression")
    ids = [toks[k + 2].text for k in range(o, c - 2) if toks[k].text == "Precedence" and toks[k + 1].text == "::"]
    cond = find_seq(toks, ["if", "self", ".", "single_target_mode"], o, c) >= 0
    return ids if cond and len(ids) == 2 else ["?"]


CALLS = {"new_compiler": "new_compiler", "finalise_compiler": "finalise", "parameter_list": "params", "make_constant": "mkconst",
         "emit_constant_op": "constop", "function": "function",
         "expression": "expr", "block": "block", "begin_scope": "begin", "end_scope": "end", "statement": "stmt",
         "emit_loop": "loop", "argument_list": "args", "define_variable": "define", "parse_variable": "parsevar",
         "push_loop": "push_loop", "pop_loop": "pop_loop", "push_break": "push_break", "emit_return": "return",
         "emit_constant": "const", "emit_exc_handler_pops": "excpops", "declare_variable": "declare",
         "mark_initialised": "markinit", "named_variable": "namedvar", "binary_assign": "binassign",
         "resolve_variable": "resolve"}


def emit_seq(toks, fname):
    """the order of emit / patch / parse calls in fn fname"""
    o, c = fn_body(toks, fname)
    jumps = {}
    seq = []
    k = o
    while k < c:
        t = toks[k]
        nxt = toks[k + 1].text if k + 1 < c else ""
        if t.kind == "id" and nxt == "(":
            e = match_group(toks, k + 1)
            name = t.text
            if name == "emit_jump":
                ops = opcodes_in(toks, k + 2, e)
                # bound to a variable?  `let v = <recv>.emit_jump(`
                var = None
                b = k
                while b > o and toks[b].text not in (";", "{", "}"):
                    b -= 1
                if toks[b + 1].text == "let":
                    var = toks[b + 2].text
                n = len(jumps)
                if var:
                    jumps[var] = n
                seq.append("jump:%s#%d" % (ops[0] if ops else "?", n))
            elif name == "patch_jump":
                arg = [x.text for x in toks[k + 2:e]]
                seq.append("patch#%s" % (jumps[arg[0]] if len(arg) == 1 and arg[0] in jumps else "?"))
            elif name == "emit_byte":
                ops = opcodes_in(toks, k + 2, e)
                seq.append("byte:%s" % (ops[0] if len(ops) == 1 else "?"))
            elif name == "emit_bytes":
                ops = opcodes_in(toks, k + 2, e)
                parts = split_top(toks, k + 3, e - 1) if toks[k + 2].text == "[" else []
                second = "?"
                if len(parts) == 2:
                    second = "op" if len(ops) == 2 else "arg"
                seq.append("bytes:%s,%s" % (",".join(ops) if ops else "?", second) if len(ops) != 2 else "bytes:%s" % ",".join(ops))
            elif name == "parse_precedence":
                ts = [x.text for x in toks[k + 2:e]]
                seq.append("prec:%s" % (ts[2] if len(ts) == 3 and ts[0] == "Precedence" else "rule+1" if "".join(ts).endswith("asusize+1)") else "?"))
            elif name == "emit_scope_end":
                first = toks[k + 2].text
                seq.append("scope_end:%s" % first)
            elif name == "emit_variable_op":
                seq.append("varop:%s" % toks[k + 2].text)
            elif name in CALLS:
                seq.append(CALLS[name])
            if name in ("emit_jump", "patch_jump", "emit_byte", "emit_bytes", "emit_scope_end", "emit_variable_op"):
                k = e + 1          # their arguments hold no further events
            else:
                k += 2             # descend: emit calls can sit in arguments, closures, match arms
            continue
        if t.text == "OpCode" and nxt == "::":
            seq.append("op:%s" % toks[k + 2].text)
            k += 3
            continue
        k += 1
    return seq


SEQ_FNS = ["and", "or", "dotdot", "index", "vector", "grouping", "interpolation", "call", "named_variable",
           "binary_assign", "if_statement", "while_statement", "break_statement", "continue_statement",
           "expression_statement", "var_declaration", "define_variable", "end_scope", "number", "string",
           "function", "lambda", "fn_declaration", "return_statement", "emit_return"]


def rename_params(ts, params):
    m = {p: n for p, n in zip(params, ["p", "q"])}
    return "".join(m.get(t, t) for t in ts)


def vm_closures(toks):
    """dispatch arms `byte if byte == OpCode::X as u8 => { self.binary_op_impl(|a, b| E) ... }`"""
    o, c = fn_body(toks, "run")
    rows = []
    k = o
    while k < c:
        if toks[k].text == "binary_op_impl" and toks[k + 1].text == "(":
            e = match_group(toks, k + 1)
            # the opcode of the enclosing arm: nearest preceding `OpCode :: X as u8 =>`
            b = k
            op = "?"
            while b > o:
                if toks[b].text == "=>" and toks[b - 1].text == "u8" and toks[b - 4].text == "::" and toks[b - 5].text == "OpCode":
                    op = toks[b - 3].text
                    break
                b -= 1
            ts = [t.text for t in toks[k + 2:e]]
            expr = "?"
            if ts and ts[0] == "|":
                j = ts.index("|", 1)
                params = [x for x in ts[1:j] if x != ","]
                body = ts[j + 1:]
                if body and body[0] == "{" and body[-1] == "}":
                    body = body[1:-1]
                expr = rename_params(body, params)
            rows.append((op, expr))
            k = e
        k += 1
    return rows


def vm_facts(toks):
    facts = []

    def body_texts(name):
        o, c = fn_body(toks, name)
        return [t.text for t in toks[o + 1:c]]

    # jump_if_false_impl: peeks, does not pop; jumps when NOT truthy
    b = body_texts("jump_if_false_impl")
    s = "".join(b)
    facts.append(("jump_if_false_peeks", "self.peek(0)" in s and "pop(" not in s))
    facts.append(("jump_if_false_on_falsy", "if!self.peek(0).into_bool()" in s))
    # binary_op_impl: second popped first; op(first, second) with first the deeper operand
    s = "".join(body_texts("binary_op_impl"))
    ok = False
    try:
        i1 = s.index("let")
        n1 = s[i1 + 3:s.index("=", i1)]
        i2 = s.index("let", i1 + 3)
        n2 = s[i2 + 3:s.index("=", i2)]
        pops_two = s[s.index("=", i1) + 1:].startswith("self.pop();") and s[s.index("=", i2) + 1:].startswith("self.pop();")
        # match (n2, n1) { (Value::Number(x), Value::Number(y)) => (x, y) ... op(x', y') with the pair bound in order
        ok = pops_two and ("match(%s,%s){(Value::Number(" % (n2, n1)) in s and "self.push(op(first,second))" in s \
            and "let(first,second)=" in s and "=>(first,second)," in s
    except ValueError:
        ok = False
    facts.append(("binop_deeper_operand_first", ok))
    # equal_impl: b popped first, pushes a == b
    s = "".join(body_texts("equal_impl"))
    facts.append(("equal_is_a_eq_b", s.startswith("letb=self.pop();leta=self.pop();") and "Value::Boolean(a==b)" in s))
    # add_impl: strings concatenate a then b, numbers add
    s = "".join(body_texts("add_impl"))
    facts.append(("add_pops_b_then_a", s.startswith("letb=self.pop();leta=self.pop();match(a,b)")))
    facts.append(("add_concat_a_then_b", 'format!("{}{}",*a,*b)' in s))
    facts.append(("add_numbers", "Value::Number(a+b)" in s))
    # set_item_impl: leaves nil in place of the three operands
    s = "".join(body_texts("set_item_impl"))
    facts.append(("set_item_leaves_nil", s.rstrip("Ok(())").endswith("self.discard(2);self.poke(0,Value::None);")))
    facts.append(("set_item_operands", "self.peek(2).try_as_obj_vec()" in s and "self.peek(1).try_as_bounded_index(" in s
                  and "elements[index]=self.peek(0);" in s))
    # logical_not / negate / bitwise_not
    s = "".join(body_texts("logical_not_impl"))
    facts.append(("not_is_not_truthy", "Value::Boolean(!value.into_bool())" in s))
    s = "".join(body_texts("negate_impl"))
    facts.append(("negate_is_minus", "Value::Number(-num)" in s))
    s = "".join(body_texts("bitwise_not_impl"))
    facts.append(("bitnot_via_i64", "Value::Number(!(numasi64)asf64)" in s))
    # build_range_impl: end popped (validated) first
    s = "".join(body_texts("build_range_impl"))
    facts.append(("range_end_popped_first", s.index("letend=pop_integer!();") < s.index("letbegin=pop_integer!();")
                  if "letend=pop_integer!();" in s and "letbegin=pop_integer!();" in s else False))
    # jump / loop direction
    s = "".join(body_texts("jump_impl"))
    facts.append(("jump_forward", "self.ip.offset(offsetasisize)" in s))
    s = "".join(body_texts("loop_impl"))
    facts.append(("loop_backward", "self.ip.offset(-(offsetasisize))" in s))
    # call_closure: arity = function.arity - 1, the two checks in this order with these messages; then the frame is pushed
    s = "".join(body_texts("call_closure"))
    facts.append(("call_arity_check", s.startswith("letarity=closure.function.arity-1;leterr=ifarg_count!=arity{")
                  and 'ErrorKind::TypeError,"Expected {} arguments but found {}.",arity,arg_count' in s))
    facts.append(("call_frame_limit", "}elseifself.active_fiber().frames.len()==common::FRAMES_MAX{Some(error!(ErrorKind::IndexError,\"Stack overflow.\"))" in s))
    facts.append(("call_pushes_frame", "self.active_fiber_mut().push_call_frame(closure);self.load_frame();" in s))
    # return_impl: result popped, the frame's open upvalues closed, frame popped, stack cut at slot_base, result pushed
    s = "".join(body_texts("return_impl"))
    facts.append(("return_shape", s.startswith("letresult=self.pop();self.active_fiber_mut().close_upvalues_for_frame();"
                                                "letprev_stack_size=self.active_fiber().current_frame().unwrap().slot_base;"
                                                "self.active_fiber_mut().frames.pop();")
                  and s.endswith("self.load_frame();self.active_fiber_mut().stack.truncate(prev_stack_size);self.push(result);Ok(None)")))
    # closure_impl: the closure is pushed, then one upvalue per descriptor: a captured slot of this frame or the
    # enclosing closure's upvalue
    s = "".join(body_texts("closure_impl"))
    facts.append(("closure_descriptors", "self.push(Value::ObjClosure(closure.as_gc()));foriin0..upvalue_count{letis_local=self.read_byte()!=0;"
                  "letindex=self.read_byte()asusize;" in s and "=ifis_local{self.capture_upvalue(slot_base+index)}else{" in s
                  and ".closure.upvalues.borrow()[index]};" in s))
    s = "".join(body_texts("close_upvalue_impl"))
    facts.append(("close_upvalue_top", s == "letstack_size=self.stack_size();self.active_fiber_mut().close_upvalues(stack_size-1);self.pop();"))
    # set_global_impl: the probe-by-insert is undone when the name had no binding (a failing SetGlobal defines nothing)
    s = "".join(body_texts("set_global_impl"))
    facts.append(("set_global_undone_on_failure", "letprev=globals.insert(name,value);ifprev.is_none(){globals.remove(&name);}prev.is_none()" in s
                  and 'ErrorKind::NameError,"Undefined variable \'{}\'.",*name' in s))
    s = "".join(body_texts("get_global_impl"))
    facts.append(("get_global_reads_only", ".attributes.get(&name)" in s and "insert(" not in s))
    # into_bool: only false and nil are falsy
    vt = lex(read("value.rs"))
    o, c = fn_body(vt, "into_bool")
    s = "".join(t.text for t in vt[o + 1:c])
    facts.append(("truthiness", s == "matchself{Value::Boolean(underlying)=>*underlying,Value::None=>false,_=>true,}"))
    return facts


def gen_emit_arms(man):
    ct = lex(read("compiler.rs"))
    vt = lex(read("vm.rs"))
    out = ["(* GENERATED by translator/translate_c05.py from compiler.rs, vm.rs, value.rs - do not edit *)",
           "From Coq Require Import List String.", "Import ListNotations.", "Open Scope string_scope.", ""]

    def rows(name, rs):
        out.append("Definition %s : list (string * list string) := [%s]." % (
            name, "; ".join("(%s, %s)" % (q(a), qlist(b)) for a, b in rs)))

    rows("binary_arms_gen", kind_arms(ct, "binary", "operator_kind"))
    rows("unary_arms_gen", kind_arms(ct, "unary", "operator_kind"))
    rows("compound_arms_gen", kind_arms(ct, "binary_assign", "op_kind"))
    precs = [(f, prec_arg(ct, f)) for f in ("binary", "unary", "dotdot", "and", "or", "binary_assign")]
    out.append("Definition prec_args_gen : list (string * string) := [%s]." % "; ".join("(%s, %s)" % (q(a), q(b)) for a, b in precs))
    out.append("(* expression(): precedence under single_target_mode, otherwise *)")
    out.append("Definition expression_precs_gen : list string := %s." % qlist(expression_precs(ct)))
    seqs = []
    for f in SEQ_FNS:
        try:
            seqs.append((f, emit_seq(ct, f)))
        except Exception as e:  # noqa
            seqs.append((f, ["?" + str(e)]))
    rows("emit_seq_gen", seqs)
    cl = vm_closures(vt)
    out.append("Definition vm_binop_closures_gen : list (string * string) := [%s]." % "; ".join("(%s, %s)" % (q(a), q(b)) for a, b in cl))
    try:
        facts = vm_facts(vt)
    except Exception as e:  # noqa
        facts = [("?" + str(e), False)]
    out.append("Definition vm_facts_gen : list (string * bool) := [%s]." % "; ".join("(%s, %s)" % (q(a), "true" if b else "false") for a, b in facts))
    man["c05"] = {"binary_arms": len(kind_arms(ct, "binary", "operator_kind")), "emit_seq": {f: s for f, s in seqs},
                  "vm_facts": {a: b for a, b in facts}}
    return "\n".join(out) + "\n"


GENERATORS = {"EmitArms.v": gen_emit_arms}

if __name__ == "__main__":
    print(gen_emit_arms({}))
