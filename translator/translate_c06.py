#!/usr/bin/env python3
"""C06: facts about the CURRENT sources that the mini-language model of ScopeComp.v is parametric in,
written to coq/gen/ScopeCfg.v (token level, rustlex).

  compiler.rs  fn break_statement : does `emit_scope_end(..)` come BEFORE `emit_jump(..)`?
               (as shipped the jump is emitted first, so the pops are dead code: class break_dead_pops)
  vm.rs        fn unwind_stack    : is `close_upvalues(..)` called before `stack.truncate(..)`?
               (as shipped it is not: class unwind_leaves_open_upvalue)
  vm.rs        fn jump_finally_impl : is `close_upvalues(..)` called before `stack.truncate(..)`? (`return` inside a try block;
               as shipped it was not: class return_in_try_leaves_open_upvalue; not part of the mini-language, used by
               the trace replay and as a side condition)
  compiler.rs  fn try_statement   : does the catch clause start with an `emit_byte(OpCode::PopExcHandler ..)`?
               (as shipped it does: C08 class catch_pops_outer; the model needs it only to emit the same bytes)
  vm.rs        fn capture_upvalue : walk predicate `v > loc_addr`, reuse predicate `v == loc_addr`; one parameter (the slot); the walk
               starts at the head of the active fiber's list and no other fiber's list is touched
  vm.rs        fn closure_impl    : local descriptor -> capture_upvalue(slot_base + index), inherited -> the running closure's upvalue
  object.rs    fn close_upvalues  : predicate `v >= index_addr`
  compiler.rs  fn add_upvalue     : dedup test compares index AND is_local
  compiler.rs  fn emit_scope_end  : chooses CloseUpvalue when `is_captured`, else Pop
  compiler.rs  fn mark_initialised / mark_last_initialised : the only field assigned is `depth` (is_captured survives)
  vm.rs        fn close_upvalue_impl : close_upvalues(stack_size - 1) with the size taken BEFORE the pop
  vm.rs        fn return_impl     : close_upvalues_for_frame() unconditionally (not under a frames.len() test), before the frame is
               popped and the stack truncated
The last nine are the shapes Upvalues.v / ScopeComp.v transliterate; `shapes_known = true` is a side
condition of props/C06.v (fail closed: an unrecognised shape makes it false).

Stand-alone use (scratch worktrees): VERIF_REPO=/tmp/wt translate_c06.py"""
import os
import sys

sys.path.insert(0, os.path.dirname(os.path.abspath(__file__)))
from rustlex import lex, find_seq, body_after  # noqa

REPO = os.environ.get("VERIF_REPO", "/repo")
SRC = os.path.join(REPO, "yarel", "src")


def toks_of(name):
    with open(os.path.join(SRC, name)) as fh:
        return lex(fh.read())


def fn_body(toks, name):
    i = find_seq(toks, ["fn", name])
    if i < 0:
        raise ValueError("fn %s not found" % name)
    o, c = body_after(toks, i)
    return [t.text for t in toks[o:c + 1]]


def has_seq(texts, sub):
    k = len(sub)
    return any(texts[i:i + k] == sub for i in range(len(texts) - k + 1))


def first(texts, word):
    return texts.index(word) if word in texts else -1


def facts():
    comp = toks_of("compiler.rs")
    vm = toks_of("vm.rs")
    obj = toks_of("object.rs")
    f = {}
    unknown = []
    b = fn_body(comp, "break_statement")
    ij, ie = first(b, "emit_jump"), first(b, "emit_scope_end")
    if ij < 0 or ie < 0:
        unknown.append("break_statement: emit_jump/emit_scope_end not found")
        f["break_pops_first"] = False
    else:
        f["break_pops_first"] = ie < ij
    u = fn_body(vm, "unwind_stack")
    it = first(u, "truncate")
    ic = min([i for i in (first(u, "close_upvalues"), first(u, "close_upvalues_for_frame")) if i >= 0], default=-1)
    if it < 0:
        unknown.append("unwind_stack: truncate not found")
    f["unwind_closes_upvalues"] = 0 <= ic < it
    j = fn_body(vm, "jump_finally_impl")
    jt, jc = first(j, "truncate"), first(j, "close_upvalues")
    if jt < 0:
        unknown.append("jump_finally_impl: truncate not found")
    f["jump_finally_closes_upvalues"] = 0 <= jc < jt
    t = fn_body(comp, "try_statement")
    ih = -1
    for i in range(len(t) - 2):
        if t[i:i + 3] == ["if", "have_catch", "{"]:
            ih = i + 2
            break
    if ih < 0:
        unknown.append("try_statement: `if have_catch {` not found")
        f["catch_pops_handler"] = False
    else:
        depth, j = 0, ih
        while j < len(t):
            if t[j] == "{":
                depth += 1
            elif t[j] == "}":
                depth -= 1
                if depth == 0:
                    break
            j += 1
        f["catch_pops_handler"] = "PopExcHandler" in t[ih:j]
    c = fn_body(vm, "capture_upvalue")
    if not (has_seq(c, ["|", "v", "|", "v", ">", "loc_addr"]) and has_seq(c, ["|", "v", "|", "v", "==", "loc_addr"])):
        unknown.append("capture_upvalue: predicates `v > loc_addr` / `v == loc_addr` not found")
    # capture_upvalue: the walk ALWAYS starts at the head of the ACTIVE fiber's own list (capture_in of Upvalues.v walks the list
    # of the fiber it is given, from its head), and the only input is the slot: no second parameter (a resume point / hint / cached
    # upvalue may belong to another fiber's list - an inherited upvalue can be open on another fiber's stack)
    ci = find_seq(vm, ["fn", "capture_upvalue"])
    sig = [t.text for t in vm[ci:ci + 14]]
    if sig[:10] != ["fn", "capture_upvalue", "(", "&", "mut", "self", ",", "location", ":", "usize"] or sig[10:12] not in ([")", "->"], [",", ")"]):
        unknown.append("capture_upvalue: signature `(&mut self, location: usize)` not found")
    if not (has_seq(c, ["let", "mut", "prev_upvalue", "=", "None", ";"]) and
            has_seq(c, ["let", "mut", "upvalue", "=", "self", ".", "active_fiber", "(", ")", ".", "open_upvalues", ";"]) and
            c.count("open_upvalues") == 2 and has_seq(c, ["self", ".", "active_fiber_mut", "(", ")", ".", "open_upvalues", "=", "Some"])):
        unknown.append("capture_upvalue: walk `prev_upvalue = None; upvalue = self.active_fiber().open_upvalues` (head of the active "
                       "fiber's list, the only list touched) not found")
    # closure_impl: a local descriptor captures slot_base + index of the CURRENT frame of the active fiber; an inherited one copies
    # the running closure's upvalue (runtime_ups of ScopeLangProofs / closure creation of ScopeComp.v)
    ki = fn_body(vm, "closure_impl")
    if not (has_seq(ki, ["self", ".", "capture_upvalue", "(", "slot_base", "+", "index", ")"]) and ki.count("capture_upvalue") == 1 and
            has_seq(ki, ["let", "slot_base", "=", "self", ".", "active_fiber", "(", ")", ".", "current_frame", "(", ")", ".", "unwrap", "(", ")", ".", "slot_base", ";"]) and
            has_seq(ki, [".", "closure", ".", "upvalues", ".", "borrow", "(", ")", "[", "index", "]"])):
        unknown.append("closure_impl: `if is_local { capture_upvalue(slot_base + index) } else { current closure's upvalues[index] }` not found")
    cl = fn_body(obj, "close_upvalues")
    if not has_seq(cl, ["|", "v", "|", "v", ">=", "index_addr"]):
        unknown.append("close_upvalues: predicate `v >= index_addr` not found")
    a = fn_body(comp, "add_upvalue")
    if not has_seq(a, ["upvalue", ".", "index", "==", "index", "&&", "upvalue", ".", "is_local", "==", "is_local"]):
        unknown.append("add_upvalue: dedup test `index == index && is_local == is_local` not found")
    e = fn_body(comp, "emit_scope_end")
    if not (has_seq(e, ["if", "local", ".", "is_captured", "{", "OpCode", "::", "CloseUpvalue", "}", "else", "{", "OpCode", "::", "Pop", "}"])):
        unknown.append("emit_scope_end: `if local.is_captured { CloseUpvalue } else { Pop }` not found")
    # mark_initialised / mark_last_initialised (Compiler): the ONLY field assigned is `depth` (is_captured set by a capture inside
    # the variable's own initialiser - a local fn that refers to itself - survives the second marking by define_variable)
    for name in ("mark_initialised", "mark_last_initialised"):
        mb = fn_body(comp, name)
        if mb.count("=") != 1 or not has_seq(mb, [".", "depth", "="]) or "is_captured" in mb:
            unknown.append("%s: assigns something other than `depth`" % name)
    # close_upvalue_impl: close_upvalues(stack_size - 1) with the stack size taken BEFORE the pop
    cu = fn_body(vm, "close_upvalue_impl")
    i_sz, i_cl, i_pop = first(cu, "stack_size"), first(cu, "close_upvalues"), first(cu, "pop")
    if not (0 <= i_sz < i_cl < i_pop and has_seq(cu, ["stack_size", "-", "1"])):
        unknown.append("close_upvalue_impl: `let stack_size = ..; close_upvalues(stack_size - 1); pop()` (in this order) not found")
    # return_impl: the frame's upvalues are closed UNCONDITIONALLY (directly in the function body, not under an `if` such as a
    # frame-count test) and before the frame is popped / the stack truncated - also for the entry function of a fiber, whose stack
    # is truncated right afterwards (ReturnFrame of Upvalues.v has no condition)
    rb = fn_body(vm, "return_impl")
    i_cf = first(rb, "close_upvalues_for_frame")
    i_tr = first(rb, "truncate")
    i_fp = min([i for i in range(len(rb) - 2) if rb[i:i + 3] == ["frames", ".", "pop"]], default=-1)
    nest = rb[:max(i_cf, 0)].count("{") - rb[:max(i_cf, 0)].count("}")
    if not (0 <= i_cf < i_tr and i_cf < i_fp and nest == 1 and "if" not in rb[:i_cf]):
        unknown.append("return_impl: unconditional `close_upvalues_for_frame()` before `frames.pop()` / `truncate` not found")
    return f, unknown


def gen_scopecfg(man):
    f, unknown = facts()
    man["c06"] = dict(f, unknown=unknown)
    b = lambda x: "true" if x else "false"
    q = lambda s: '"%s"' % s.replace('"', "'")
    return "\n".join([
        "(* GENERATED by translator/translate_c06.py from compiler.rs, vm.rs, object.rs - do not edit *)",
        "From Coq Require Import List String.", "Import ListNotations.", "Open Scope string_scope.", "",
        "Definition break_pops_first : bool := %s." % b(f["break_pops_first"]),
        "Definition unwind_closes_upvalues : bool := %s." % b(f["unwind_closes_upvalues"]),
        "Definition catch_pops_handler : bool := %s." % b(f["catch_pops_handler"]),
        "Definition jump_finally_closes_upvalues : bool := %s." % b(f["jump_finally_closes_upvalues"]),
        "Definition c06_unknown_shapes : list string := [%s]." % "; ".join(q(s) for s in unknown),
        "Definition shapes_known : bool := match c06_unknown_shapes with [] => true | _ => false end.", ""])


GENERATORS = {"ScopeCfg.v": gen_scopecfg}

if __name__ == "__main__":
    print(gen_scopecfg({}))
