"""C08: the emitter / VM choices Handlers.v is instantiated with, read from the CURRENT sources at token level
-> coq/gen/TryArms.v.

  compiler.rs fn try_statement        catch_emits_pop: is `OpCode::PopExcHandler` emitted inside `if have_catch { .. }`?
                                      shape: one PushExcHandler before the block, in_try_block = true / restored and
                                      try_depth += 1 / -= 1 around the block, PopExcHandler + Jump after it,
                                      EndFinally inside `if have_finally { .. }`
              fn break_statement      break_pops_handlers: `emit_exc_handler_pops(..)` before `emit_scope_end(..)` before
              fn continue_statement   the jump; break_runs_finally: any mention of JumpFinally / EndFinally / finally
              fn emit_exc_handler_pops  `for _ in try_depth..<compiler>.try_depth { emit PopExcHandler }`
              fn return_statement     return_in_try_uses_jump_finally: `if <compiler>.in_try_block { emit JumpFinally }`
              fn emit_return          directly before `emit Return`, in both
  vm.rs       fn unwind_stack         how handling_exception is written -> unwind_he_mode: 0 `= handler.has_catch_block()`
                                      (+ object.rs: has_catch_block is `finally_ip == catch_ip`, i.e. NO catch clause),
                                      1 negated, 2 only `if <a catch clause takes it> { = false }`, 3 untouched;
              raise sites             every caller of unwind_stack() besides end_finally_impl must be throw_impl,
                                      try_handle_error or the Err arm of call_native; per site: is
                                      `handling_exception = true` executed before the call?  (matters for modes 2, 3);
                                      pops the fiber's LAST handler; truncates stack and frames; jumps to catch_ip
              fn end_finally_impl     `if self.handling_exception { self.unwind_stack()?; }` then take_return_data
              fn jump_finally_impl    new ip = handler.finally_ip
              fn throw_impl           calls unwind_stack (the flag it sets first is overwritten there: not required)
Renaming variables or re-formatting keeps the output; adding/dropping one of these emits or changing an operand
changes a constant that props/C08.v compares (by computation) with the configuration the theorems are proved for."""
import os
import sys

sys.path.insert(0, os.path.dirname(os.path.abspath(__file__)))
from rustlex import lex, match_group, find_seq, find_all_seq, body_after  # noqa

REPO = os.environ.get("VERIF_REPO", "/repo")
SRC = os.path.join(REPO, "yarel", "src")


def toks_of(name):
    with open(os.path.join(SRC, name)) as fh:
        return lex(fh.read())


def fn_body(toks, name):
    i = find_seq(toks, ["fn", name])
    if i < 0:
        raise ValueError("fn %s not found" % name)
    return body_after(toks, i)


def texts(toks, lo, hi):
    return [t.text for t in toks[lo:hi]]


def has(seq, sub):
    k = len(sub)
    return any(seq[i:i + k] == sub for i in range(len(seq) - k + 1))


def emits(toks, lo, hi, op):
    """positions of `OpCode :: <op>` in toks[lo:hi]"""
    return find_all_seq(toks, ["OpCode", "::", op], lo, hi)


def if_body(toks, lo, hi, cond_tokens):
    """(open, close) of the block of the first `if <cond_tokens> {` in toks[lo:hi], or None"""
    for j in find_all_seq(toks, ["if"] + cond_tokens + ["{"], lo, hi):
        o = j + 1 + len(cond_tokens)
        return o, match_group(toks, o)
    return None


def coq_bool(b):
    return "true" if b else "false"


def try_shape(toks):
    o, c = fn_body(toks, "try_statement")
    bc = if_body(toks, o, c, ["have_catch"])
    bf = if_body(toks, o, c, ["have_finally"])
    if bc is None or bf is None:
        raise ValueError("try_statement: `if have_catch {` / `if have_finally {` not found")
    push = emits(toks, o, c, "PushExcHandler")
    pops = emits(toks, o, c, "PopExcHandler")
    pops_in_catch = [p for p in pops if bc[0] < p < bc[1]]
    pops_outside = [p for p in pops if not (bc[0] < p < bc[1])]
    endf = emits(toks, o, c, "EndFinally")
    set_true = find_seq(toks, ["in_try_block", "=", "true"], o, c)
    restore = find_seq(toks, ["in_try_block", "=", "prev_in_try_block"], o, c)
    inc = find_seq(toks, ["try_depth", "+=", "1"], o, c)
    dec = find_seq(toks, ["try_depth", "-=", "1"], o, c)
    jump = find_seq(toks, ["emit_jump", "(", "OpCode", "::", "Jump", ")"], o, c)
    shape = (len(push) == 1 and len(pops_outside) == 1 and len(endf) == 1 and bf[0] < endf[0] < bf[1]
             and 0 <= set_true < push[0] and 0 <= inc < push[0]
             and push[0] < restore < pops_outside[0] and push[0] < dec < pops_outside[0]
             and pops_outside[0] < jump < bc[0] < bf[0])
    # the operands: catch offset measured from the byte after the operands to the start of the catch code,
    # finally offset from there to the code after the catch block
    patch1 = find_seq(toks, ["patch_offset_at", "(", "handler_catch_arg_pos", ",", "post_handler_args_ip_pos", ")"], o, c)
    patch2 = find_seq(toks, ["patch_offset_at", "(", "handler_catch_arg_pos", "+", "2", ",", "catch_start_pos", ")"], o, c)
    operands = 0 <= patch1 and jump < patch1 < bc[0] and bc[1] < patch2 < bf[0]
    return len(pops_in_catch) > 0, shape, operands


def exit_shape(toks, name):
    """break_statement / continue_statement: (pops handlers before the scope pops before the jump, mentions finally)"""
    o, c = fn_body(toks, name)
    pops = find_seq(toks, ["emit_exc_handler_pops", "("], o, c)
    scope = find_seq(toks, ["emit_scope_end", "("], o, c)
    jump = find_seq(toks, ["emit_jump", "("], o, c)
    if jump < 0:
        jump = find_seq(toks, ["emit_loop", "("], o, c)
    t = texts(toks, o, c)
    mentions_finally = any(x in t for x in ("JumpFinally", "EndFinally")) or any("finally" in x for x in t)
    ordered = 0 <= pops < scope < jump
    return ordered, mentions_finally, (scope >= 0 and jump >= 0 and scope < jump)


def pops_loop_shape(toks):
    """emit_exc_handler_pops: 2 = one PopExcHandler per try block left (`for _ in try_depth..<c>.try_depth { emit }`),
    1 = at most one (`if <c>.try_depth > try_depth { emit }`), 0 = none; anything else is an error"""
    o, c = fn_body(toks, "emit_exc_handler_pops")
    t = texts(toks, o, c)
    pops = emits(toks, o, c, "PopExcHandler")
    if not pops:
        return 0
    if len(pops) != 1:
        raise ValueError("emit_exc_handler_pops: more than one PopExcHandler")
    loop = find_seq(toks, ["for", "_", "in", "try_depth", ".."], o, c)
    if loop >= 0 and has(t, ["try_depth", "{"]):
        bo, bc = body_after(toks, loop)
        if bo < pops[0] < bc and toks[bo - 1].text == "try_depth":
            return 2
    cond = find_seq(toks, ["if"], o, c)
    if cond >= 0:
        bo, bc = body_after(toks, cond)
        ct = texts(toks, cond + 1, bo)
        if bo < pops[0] < bc and (ct[-2:] == [">", "try_depth"] and "try_depth" in ct[:-2] or
                                  ct[:2] == ["try_depth", "<"] and "try_depth" in ct[2:]):
            return 1
    raise ValueError("emit_exc_handler_pops: shape not recognised")


def return_shape(toks, name):
    """`if <..>.in_try_block { emit JumpFinally }` directly before every `emit Return`"""
    o, c = fn_body(toks, name)
    rets = emits(toks, o, c, "Return")
    jfs = emits(toks, o, c, "JumpFinally")
    if not rets:
        raise ValueError("%s: no Return emitted" % name)
    good = 0
    for r in rets:
        # the closest preceding `if ... in_try_block {` whose block holds a JumpFinally and ends before r
        ok = False
        for j in find_all_seq(toks, ["in_try_block", "{"], o, r):
            bo = j + 1
            bc = match_group(toks, bo)
            k = j
            while k > o and toks[k].text != "if":
                k -= 1
            neg = "!" in texts(toks, k, j)
            if bc < r and any(bo < x < bc for x in jfs) and not neg and not emits(toks, bc, r, "Return"):
                ok = True
        good += ok
    return good == len(rets) and len(jfs) >= 1


def jf_unconditional(toks, name):
    """in fn <name>: every `if <..>.in_try_block { emit JumpFinally }` sits directly in the function body (or, for
    return_statement, in the branch that compiled a return value) - NOT under another condition such as the test for an
    initialiser: a bare `return;` of an initialiser must run the finally clause like every other return"""
    o, c = fn_body(toks, name)
    ok = True
    for j in find_all_seq(toks, ["in_try_block", "{"], o, c):
        k = j
        while k > o and toks[k].text != "if":
            k -= 1
        # enclosing blocks between the function body and this `if`
        depth = 0
        encl = []
        for q in range(o + 1, k):
            if toks[q].text == "{":
                encl.append(q)
            elif toks[q].text == "}":
                encl.pop()
        for q in encl:
            # what introduces the enclosing block: tokens back to the previous `;`, `{` or `}`
            b = q - 1
            while b > o and toks[b].text not in (";", "{", "}"):
                b -= 1
            head = texts(toks, b + 1, q)
            if "Initialiser" in head or (b >= 0 and toks[b].text == "}" and head[:1] == ["else"] and
                                          "Initialiser" in texts(toks, max(o, b - 40), b)):
                ok = False
    return ok


def call_closure_shape(toks):
    """call_closure: both limits (arity, 64 frames) are handed to try_handle_error - the function never returns an
    error to the dispatch loop directly (`return Err(` / a bare `Err(error!(..))`), which would bypass every handler"""
    o, c = fn_body(toks, "call_closure")
    t = texts(toks, o, c)
    n_err = len(find_all_seq(toks, ["error!", "("], o, c))
    direct = has(t, ["return", "Err", "("]) or has(t, ["Err", "(", "error!"])
    thrown = has(t, ["self", ".", "try_handle_error", "("])
    return n_err == 2 and thrown and not direct


def unwind_shape(toks, otoks):
    o, c = fn_body(toks, "unwind_stack")
    t = texts(toks, o, c)
    assign = find_seq(toks, ["handling_exception", "=", "handler", ".", "has_catch_block", "(", ")"], o, c)
    assign_neg = find_seq(toks, ["handling_exception", "=", "!", "handler", ".", "has_catch_block", "(", ")"], o, c)
    ho, hc = fn_body(otoks, "has_catch_block")
    hb = texts(otoks, ho + 1, hc)
    body_eq = hb in (["self", ".", "finally_ip", "==", "self", ".", "catch_ip"], ["self", ".", "catch_ip", "==", "self", ".", "finally_ip"])
    body_ne = hb in (["self", ".", "finally_ip", "!=", "self", ".", "catch_ip"], ["self", ".", "catch_ip", "!=", "self", ".", "finally_ip"])
    if not (body_eq or body_ne):
        raise ValueError("has_catch_block: shape not recognised")
    writes = find_all_seq(toks, ["handling_exception", "="], o, c)
    # he mode: 0 assign (flag := no catch clause), 1 negated, 2 only cleared when a catch clause takes it, 3 untouched
    if assign >= 0 or assign_neg >= 0:
        if len(writes) != 1:
            raise ValueError("unwind_stack: handling_exception written more than once")
        he_mode = 0 if (assign >= 0) == body_eq else 1
    elif not writes:
        he_mode = 3
    else:
        # `if !handler.has_catch_block() { ... self.handling_exception = false; ... }`  (has_catch_block == no catch clause)
        blk = if_body(toks, o, c, ["!", "handler", ".", "has_catch_block", "(", ")"])
        blk_pos = if_body(toks, o, c, ["handler", ".", "has_catch_block", "(", ")"])
        clears = find_all_seq(toks, ["handling_exception", "=", "false"], o, c)
        if len(writes) == 1 and len(clears) == 1 and ((blk and body_eq and blk[0] < clears[0] < blk[1]) or
                                                       (blk_pos and body_ne and blk_pos[0] < clears[0] < blk_pos[1])):
            he_mode = 2
        else:
            raise ValueError("unwind_stack: the way handling_exception is written is not recognised")
    po, pc = fn_body(otoks, "pop_exc_handler")
    innermost = has(texts(otoks, po, pc), ["exc_handlers", ".", "pop", "(", ")"]) and has(t, ["pop_exc_handler", "(", ")"])
    trunc_frames = has(t, ["frames", ".", "truncate", "(", "handler", ".", "frame_count", ")"])
    trunc_stack = has(t, ["truncate", "(", "handler", ".", "init_stack_size", ")"])
    to_catch = has(t, ["ip", "=", "handler", ".", "catch_ip"])
    pushes_exc = has(t, ["self", ".", "push", "(", "exc_object", ")"])
    # push_exc_handler records the current heights
    qo, qc = fn_body(otoks, "push_exc_handler")
    qt = texts(otoks, qo, qc)
    records = has(qt, ["init_stack_size", ":", "self", ".", "stack", ".", "len", "(", ")", ","]) and \
        has(qt, ["frame_count", ":", "self", ".", "frames", ".", "len", "(", ")", ","])
    return he_mode, innermost, trunc_frames and trunc_stack and to_catch and pushes_exc, records


def end_finally_shape(toks):
    o, c = fn_body(toks, "end_finally_impl")
    b = if_body(toks, o, c, ["self", ".", "handling_exception"])
    rethrows = b is not None and has(texts(toks, b[0], b[1]), ["self", ".", "unwind_stack", "(", ")"])
    take = find_seq(toks, ["take_return_data", "(", ")"], o, c)
    resumes = take >= 0 and (b is None or take > b[1]) and has(texts(toks, take, c), ["self", ".", "ip", "=", "ip"])
    return rethrows, resumes


def jump_finally_shape(toks):
    o, c = fn_body(toks, "jump_finally_impl")
    t = texts(toks, o, c)
    to_fin = has(t, ["(", "handler", ".", "finally_ip", ",", "handler", ".", "init_stack_size", ")"]) and \
        has(t, ["self", ".", "ip", "=", "new_ip"])
    saves = has(t, ["return_ip", "=", "Some", "(", "self", ".", "ip", ")"]) and has(t, ["return_value", "=", "return_value"])
    pops = has(t, ["pop_exc_handler", "(", ")"])
    return to_fin and saves and pops


def enclosing_fn(toks, pos):
    j = pos
    while j > 0:
        if toks[j].text == "fn" and toks[j + 1].kind == "id":
            bo, bc = body_after(toks, j)
            if bo < pos < bc:
                return toks[j + 1].text, bo, bc
        j -= 1
    return None, 0, 0


def raise_sites(toks):
    """every call of unwind_stack(): which function it is in and whether `handling_exception = true` is executed on the
    way to it.  -> (throw_sets, vmfail_sets, nativefail_sets, native_error_poked); an unknown site is an error"""
    res = {}
    for pos in find_all_seq(toks, ["self", ".", "unwind_stack", "(", ")"]):
        name, bo, bc = enclosing_fn(toks, pos)
        if name == "end_finally_impl":
            continue
        if name not in ("throw_impl", "try_handle_error", "call_native") or name in res:
            raise ValueError("unwind_stack() is called from an unexpected place: fn %s" % name)
        lo = bo
        poked = None
        if name == "call_native":
            # the Err arm: `Err ( <id> ) => { ... }` containing the call
            arms = [j for j in find_all_seq(toks, ["Err", "("], bo, bc) if toks[j + 3].text == ")" and toks[j + 4].text == "=>"]
            arm = None
            for j in arms:
                ao, ac = body_after(toks, j + 4)
                if ao < pos < ac:
                    arm = (ao, ac)
            if arm is None:
                raise ValueError("call_native: Err arm with unwind_stack() not found")
            lo = arm[0]
            poked = has(texts(toks, lo, pos), ["self", ".", "poke", "(", "0", ","])
        sets = find_seq(toks, ["handling_exception", "=", "true"], lo, pos) >= 0
        clears = find_seq(toks, ["handling_exception", "=", "false"], lo, pos) >= 0
        if clears:
            raise ValueError("%s clears handling_exception before unwinding" % name)
        res[name] = (sets, poked)
    if set(res) != {"throw_impl", "try_handle_error", "call_native"}:
        raise ValueError("raise sites found: %s" % sorted(res))
    pushed = has(texts(toks, *fn_body(toks, "try_handle_error")), ["self", ".", "push", "(", "Value", "::", "ObjInstance"])
    return res["throw_impl"][0], res["try_handle_error"][0], res["call_native"][0], bool(res["call_native"][1]) and pushed


def throw_shape(toks):
    o, c = fn_body(toks, "throw_impl")
    t = texts(toks, o, c)
    # `handling_exception = true` before the call is dead (unwind_stack overwrites the flag or ends the run): not required
    return has(t, ["self", ".", "unwind_stack", "(", ")"])


def push_handler_shape(toks):
    o, c = fn_body(toks, "push_exc_handler_impl")
    t = texts(toks, o, c)
    c_ok = has(t, ["catch_ip", "=", "unsafe", "{", "self", ".", "ip", ".", "offset", "(", "try_size", "as", "isize", ")", "}"])
    f_ok = has(t, ["finally_ip", "=", "unsafe", "{", "self", ".", "ip", ".", "offset", "(", "(", "try_size", "+", "catch_size", ")", "as", "isize", ")", "}"])
    return c_ok and f_ok


def gen_tryarms(man):
    ct = toks_of("compiler.rs")
    vt = toks_of("vm.rs")
    ot = toks_of("object.rs")
    catch_pop, try_ok, operands_ok = try_shape(ct)
    b_ord, b_fin, b_scope = exit_shape(ct, "break_statement")
    c_ord, c_fin, c_scope = exit_shape(ct, "continue_statement")
    pops_mode = pops_loop_shape(ct)
    if b_ord != c_ord:
        raise ValueError("break_statement and continue_statement differ in popping handlers")
    pops_loop = pops_mode == 2
    ret_jf = return_shape(ct, "return_statement") and return_shape(ct, "emit_return")
    ret_uncond = jf_unconditional(ct, "emit_return") and jf_unconditional(ct, "return_statement")
    he_mode, innermost, unwind_ok, records = unwind_shape(vt, ot)
    t_sets, v_sets, n_sets, err_placed = raise_sites(vt)
    cc_ok = call_closure_shape(vt)
    rethrows, resumes = end_finally_shape(vt)
    jf_ok = jump_finally_shape(vt)
    thr_ok = throw_shape(vt)
    push_ok = push_handler_shape(vt)
    vals = [
        ("(* compiler.rs fn try_statement *)", None),
        ("gen_catch_emits_pop", catch_pop),
        ("gen_try_shape_recognised", try_ok),
        ("gen_try_operands_recognised", operands_ok),
        ("(* compiler.rs fn break_statement / fn continue_statement / fn emit_exc_handler_pops *)", None),
        ("gen_break_pops_handlers", b_ord and pops_loop),
        ("gen_continue_pops_handlers", c_ord and pops_loop),
        ("gen_break_pops_mode", pops_mode if (b_ord and c_ord) else 0),
        ("gen_break_runs_finally", b_fin or c_fin),
        ("gen_break_scope_pops_before_jump", b_scope and c_scope),
        ("(* compiler.rs fn return_statement / fn emit_return *)", None),
        ("gen_return_in_try_uses_jump_finally", ret_jf),
        ("gen_return_jump_finally_for_every_function_kind", ret_uncond),
        ("(* vm.rs fn unwind_stack, object.rs fn has_catch_block / pop_exc_handler / push_exc_handler *)", None),
        ("gen_unwind_he_mode", he_mode),
        ("gen_unwind_pops_innermost", innermost),
        ("gen_unwind_truncates_and_jumps_to_catch", unwind_ok),
        ("gen_handler_records_heights", records),
        ("(* vm.rs fn end_finally_impl / fn jump_finally_impl / fn throw_impl / fn push_exc_handler_impl *)", None),
        ("gen_end_finally_rethrows", rethrows),
        ("gen_end_finally_resumes_return", resumes),
        ("gen_jump_finally_targets_finally", jf_ok),
        ("gen_throw_unwinds", thr_ok),
        ("gen_push_handler_offsets", push_ok),
        ("(* the raise sites = every caller of unwind_stack besides end_finally_impl: is handling_exception set first? *)", None),
        ("gen_throw_sets_he", t_sets),
        ("gen_vmfail_sets_he", v_sets),
        ("gen_nativefail_sets_he", n_sets),
        ("gen_error_pushed_by_vm_poked_by_native", err_placed),
        ("gen_call_closure_limits_are_thrown", cc_ok),
    ]
    lines = ["(* GENERATED by translator/translate_c08.py from compiler.rs, vm.rs, object.rs - do not edit *)", ""]
    for name, v in vals:
        if v is None:
            lines.append(name)
        else:
            if isinstance(v, bool):
                lines.append("Definition %s : bool := %s." % (name, coq_bool(v)))
            else:
                lines.append("Definition %s : nat := %d." % (name, v))
    man["c08_tryarms"] = {n: v for n, v in vals if v is not None}
    return "\n".join(lines) + "\n"


GENERATORS = {"TryArms.v": gen_tryarms}
